(* Proofs/StubSetRewriteHier.v — C14: with consistent MROs (no two classes list their shared ancestors in different
   orders) in which every class's MRO lists the class itself, "the first common non-object ancestor in the MRO of
   the first member" (RewriteLargeUnion) does not depend on which member comes first. *)
From MT Require Import Types Rewrite TypesFacts RewriteHier.
Open Scope list_scope.

(* the same definitions as Props/C14.v (mro_consistentb), restated here because Props/ imports Proofs/ *)
Fixpoint rw_listN_eqb (a b : list cls) : bool :=
  match a, b with [], [] => true | x :: a', y :: b' => N.eqb x y && rw_listN_eqb a' b' | _, _ => false end.
Definition rw_mro_consistentb (h : hierarchy) : bool :=
  forallb (fun e => forallb (fun e' =>
     rw_listN_eqb (filter (fun a => memN a (snd e')) (snd e)) (filter (fun a => memN a (snd e)) (snd e'))) h) h.

(* every listed MRO contains its own class (in Python it is the first entry) *)
Definition mro_selfb (h : hierarchy) : bool := forallb (fun e => memN (fst e) (snd e)) h.

Lemma rw_listN_eqb_eq a : forall b, rw_listN_eqb a b = true -> a = b.
Proof.
  induction a as [|x a IH]; intros [|y b] H; cbn [rw_listN_eqb] in H; try discriminate H; [reflexivity|].
  apply andb_prop in H. destruct H as [H1 H2]. apply N.eqb_eq in H1. subst. f_equal. apply IH. exact H2.
Qed.

Lemma find_filter {A} (P p : A -> bool) m :
  (forall x, In x m -> P x = true -> p x = true) -> find P (filter p m) = find P m.
Proof.
  induction m as [|x m IH]; intros H; [reflexivity|]. cbn [filter find].
  assert (H' : forall y, In y m -> P y = true -> p y = true) by (intros y Hy; apply H; right; exact Hy).
  destruct (p x) eqn:Px.
  - cbn [find]. destruct (P x); [reflexivity|]. apply IH. exact H'.
  - destruct (P x) eqn:PPx; [|apply IH; exact H'].
    rewrite (H x (or_introl eq_refl) PPx) in Px. discriminate Px.
Qed.

Lemma find_unique (P : cls -> bool) c m :
  (forall x, In x m -> P x = true -> x = c) ->
  find P m = if P c then (if memN c m then Some c else None) else None.
Proof.
  induction m as [|x m IH]; intros H.
  - cbn. destruct (P c); reflexivity.
  - assert (H' : forall y, In y m -> P y = true -> y = c) by (intros y Hy; apply H; right; exact Hy).
    cbn [find]. unfold memN. cbn [existsb]. fold (memN c m). destruct (P x) eqn:Px.
    + pose proof (H x (or_introl eq_refl) Px) as ->. rewrite Px, N.eqb_refl. reflexivity.
    + rewrite (IH H'). destruct (P c) eqn:Pc; [|reflexivity].
      destruct (N.eqb c x) eqn:E; [|reflexivity]. apply N.eqb_eq in E. subst. rewrite Px in Pc. discriminate Pc.
Qed.

Section FirstAncestor.
Variable h : hierarchy.
Hypothesis Hcons : rw_mro_consistentb h = true.
Hypothesis Hself : mro_selfb h = true.

Definition mro_dflt (c : cls) : list cls := match mro_of h c with Some m => m | None => [c; cObject] end.

(* the test RewriteLargeUnion applies to the candidates: not object, and an ancestor of every member *)
Definition common_anc (ts : list ty) (a : cls) : bool :=
  negb (N.eqb a cObject) && forallb (fun t => subclass h (cls_of t) a) ts.

Lemma common_anc_in ts a c : common_anc ts a = true -> In (TCls c) ts -> In a (mro_dflt c).
Proof.
  unfold common_anc. intros H Hc. apply andb_prop in H. destruct H as [H1 H2].
  rewrite forallb_forall in H2. specialize (H2 _ Hc). cbn [cls_of] in H2.
  apply negb_true_iff in H1. unfold subclass in H2. rewrite H1, orb_false_r in H2. unfold mro_dflt.
  destruct (mro_of h c) as [m|] eqn:M.
  - apply orb_true_iff in H2. destruct H2 as [H2|H2]; [|apply memN_In; exact H2].
    apply N.eqb_eq in H2. subst a. apply mro_of_In in M.
    unfold mro_selfb in Hself. rewrite forallb_forall in Hself. specialize (Hself _ M). cbn [fst snd] in Hself.
    apply memN_In. exact Hself.
  - rewrite orb_false_r in H2. apply N.eqb_eq in H2. subst. left. reflexivity.
Qed.

Lemma consistent_pair c m c' m' : mro_of h c = Some m -> mro_of h c' = Some m' ->
  filter (fun a => memN a m') m = filter (fun a => memN a m) m'.
Proof.
  intros M M'. apply mro_of_In in M, M'. unfold rw_mro_consistentb in Hcons. rewrite forallb_forall in Hcons.
  specialize (Hcons _ M). rewrite forallb_forall in Hcons. specialize (Hcons _ M'). cbn [snd] in Hcons.
  apply rw_listN_eqb_eq. exact Hcons.
Qed.

Lemma find_dflt_none ts c c' : mro_of h c = None -> In (TCls c) ts -> In (TCls c') ts ->
  find (common_anc ts) (mro_dflt c') = if common_anc ts c then Some c else None.
Proof.
  intros M Hc Hc'.
  rewrite (find_unique (common_anc ts) c).
  - destruct (common_anc ts c) eqn:P; [|reflexivity].
    pose proof (common_anc_in ts c c' P Hc') as I. apply memN_In in I. rewrite I. reflexivity.
  - intros x _ Px. pose proof (common_anc_in ts x c Px Hc) as I. unfold mro_dflt in I. rewrite M in I.
    destruct I as [<-|[<-|[]]]; [reflexivity|]. unfold common_anc in Px. rewrite N.eqb_refl in Px. discriminate Px.
Qed.

Theorem first_common_anc ts c c' : In (TCls c) ts -> In (TCls c') ts ->
  find (common_anc ts) (mro_dflt c) = find (common_anc ts) (mro_dflt c').
Proof.
  intros Hc Hc'.
  destruct (mro_of h c) as [m|] eqn:M.
  - destruct (mro_of h c') as [m'|] eqn:M'.
    + unfold mro_dflt. rewrite M, M'.
      rewrite <- (find_filter (common_anc ts) (fun a => memN a m') m).
      * rewrite (consistent_pair c m c' m' M M'). apply find_filter.
        intros x _ Px. pose proof (common_anc_in ts x c Px Hc) as I. unfold mro_dflt in I. rewrite M in I.
        apply memN_In. exact I.
      * intros x _ Px. pose proof (common_anc_in ts x c' Px Hc') as I. unfold mro_dflt in I. rewrite M' in I.
        apply memN_In. exact I.
    + rewrite (find_dflt_none ts c' c M' Hc' Hc), (find_dflt_none ts c' c' M' Hc' Hc'). reflexivity.
  - rewrite (find_dflt_none ts c c M Hc Hc), (find_dflt_none ts c c' M Hc Hc'). reflexivity.
Qed.

End FirstAncestor.

Print Assumptions first_common_anc.
