"""C12 extractor, the evaluating side.  Run as a script with PYTHONPATH = the tree under test (nothing of /verif is
imported): builds a fixed battery of tiny hand-made stubs / signatures, RUNS the tree's own render functions on them
and prints the outputs as JSON.  harness/extract_stubrender.py reads the layout constants off a few of these outputs
and then requires EVERY output to equal what a reference renderer parameterised by those constants produces.
A probe whose render raises is reported as {"raised": ...} (the extractor then fails closed).

Every probe is a JSON-able description, so that the extractor can re-render it without importing the tree:
  {"id", "what": "function"|"signature"|"class"|"module", ...}"""
import inspect
import itertools
import json
import sys

KINDS = ["PO", "PK", "VP", "KO", "VK"]


def kind_sequences(max_len):
    out = []
    for n in range(max_len + 1):
        for seq in itertools.product(KINDS, repeat=n):
            if list(seq) == sorted(seq, key=KINDS.index) and seq.count("VP") <= 1 and seq.count("VK") <= 1:
                out.append(list(seq))
    return out


def params_for(seq, variant):
    """variant 0: bare; 1: all annotated; 2: defaults on the positional tail and every keyword-only, unannotated;
    3: annotated and defaulted"""
    ps = []
    npos = sum(1 for k in seq if k in ("PO", "PK"))
    j = 0
    for i, k in enumerate(seq):
        anno = ["int", "str", "typing.List[int]"][i % 3] if variant in (1, 3) else None
        default = False
        if variant in (2, 3):
            if k in ("PO", "PK"):
                default = j >= npos // 2
            elif k == "KO":
                default = (i % 2 == 0) or variant == 3
        if k in ("PO", "PK"):
            j += 1
        ps.append({"name": f"p{i}", "kind": k, "anno": anno, "default": default})
    return ps


LONG = "n" * 130          # a name that forces the wrapped layout whatever the limit is (checked by the extractor)


def battery():
    probes = []

    def fn(pid, name, params, ret=None, kind="MODULE", strip=(), is_async=False, prefix=""):
        probes.append({"id": pid, "what": "function", "name": name, "params": params, "ret": ret, "kind": kind,
                       "strip": list(strip), "async": is_async, "prefix": prefix})

    # A: every kind sequence up to length 3, four annotation/default variants, single line and wrapped,
    #    rotating prefix / async / return annotation
    n = 0
    for seq in kind_sequences(3):
        for variant in range(4):
            if variant and not seq:
                continue
            ps = params_for(seq, variant)
            prefix = ["", "  ", "    "][n % 3]
            is_async = n % 2 == 1
            ret = [None, "int", "typing.Dict[str, int]"][n % 3]
            fn(f"A{n}s", f"f{n}", ps, ret, "MODULE", (), is_async, prefix)
            fn(f"A{n}w", LONG + str(n), ps, ret, "MODULE", (), is_async, prefix)
            n += 1
    # a few longer ones
    for m, seq in enumerate([["PO", "PO", "PK", "PK", "VP", "KO", "KO", "VK"], ["PO", "PK", "KO", "KO", "KO", "VK"],
                             ["PK", "PK", "PK", "PK", "PK"], ["PO", "PO", "PO", "PO"]]):
        for variant in range(4):
            ps = params_for(seq, variant)
            fn(f"L{m}{variant}s", "g", ps, "int", "MODULE", (), False, "")
            fn(f"L{m}{variant}w", LONG, ps, "int", "MODULE", (), variant % 2 == 1, "    ")
    # B: the length threshold: empty and one-parameter signatures around every plausible limit
    for prefix in ("", "  "):
        for is_async in (False, True):
            for ln in range(60, 200):
                fn(f"B{len(prefix)}{int(is_async)}_{ln}", "n" * ln, [], None, "MODULE", (), is_async, prefix)
            for ln in range(100, 130):
                fn(f"Br{len(prefix)}{int(is_async)}_{ln}", "n" * ln, [{"name": "a", "kind": "PK", "anno": None, "default": False}],
                   "int", "MODULE", (), is_async, prefix)
    # C: decorators, every kind the enum has (filled in by main), two prefixes
    probes.append({"id": "C", "what": "kinds"})
    # E: the module-prefix stripping
    anno = "typing.Dict[str, a.b.C, mytyping.X, a.D, x.a.E, typing.Optional[a.b.typing.Q], aXb.R, a.b.a.S, typing.typing.T]"
    one = [{"name": "v", "kind": "PK", "anno": anno, "default": True}]
    fn("E0", "h", one, anno, "MODULE", ["typing", "a.b", "a"], False, "")
    fn("E1", "h", one, anno, "INSTANCE", ["a", "typing", "a.b"], True, "    ")
    fn("E2", "h", one, anno, "MODULE", [], False, "")
    fn("E3", "h", one, anno, "MODULE", ["a.b"], False, "")
    fn("E4w", LONG, one, anno, "MODULE", ["typing", "a.b", "a"], False, "")
    # names that look like the stripped modules: parameter and function names must survive
    named = [{"name": "typing", "kind": "PK", "anno": "typing.List[int]", "default": False},
             {"name": "typing_extra", "kind": "PK", "anno": None, "default": True},
             {"name": "decimal", "kind": "KO", "anno": "decimal.Decimal", "default": True}]
    fn("E5", "typing", named, "decimal.Decimal", "MODULE", ["typing", "decimal"], False, "")
    fn("E6", "decimal", named, None, "STATIC", ["decimal", "typing"], True, "    ")
    fn("E6w", "decimal" + LONG, named, None, "STATIC", ["decimal", "typing"], True, "    ")
    # longest first, whatever order the modules are listed (or hashed) in: sixteen (m, m.sub) pairs
    words = ["pkg", "alpha", "bb", "c", "dd3", "east", "fgh", "g_i", "hotel", "ij", "kilo", "lm", "mike", "no", "oscar", "pq"]
    for i, w in enumerate(words):
        sub = w + "." + words[(i + 5) % len(words)]
        a2 = f"{sub}.K[{w}.L, x{w}.M, {sub}.{w}.N]"
        p = [{"name": "v", "kind": "PK", "anno": a2, "default": False}]
        fn(f"E7_{i}a", "h", p, None, "MODULE", [w, sub], False, "")
        fn(f"E7_{i}b", "h", p, None, "MODULE", [sub, w], False, "")
    allmods = words + [w + "." + words[(i + 5) % len(words)] for i, w in enumerate(words)]
    fn("E8", "h", [{"name": "v", "kind": "PK", "anno": " | ".join(f"{m}.Z" for m in allmods), "default": False}], None,
       "MODULE", allmods, False, "")
    # F: render_signature called directly
    two = [{"name": "a", "kind": "PK", "anno": None, "default": False}, {"name": "b", "kind": "PK", "anno": None, "default": False}]
    probes.append({"id": "F0", "what": "signature", "params": two, "ret": None, "max": None, "prefix": ""})
    probes.append({"id": "F1", "what": "signature", "params": two, "ret": "int", "max": 3, "prefix": "\t"})
    probes.append({"id": "F2", "what": "signature", "params": [], "ret": None, "max": 1, "prefix": "  "})
    probes.append({"id": "F3", "what": "signature", "params": params_for(["PO", "PK", "VP", "KO", "VK"], 3), "ret": "int",
                   "max": 10 ** 6, "prefix": "  "})
    # D: classes and modules: order, class body prefix, separator between the parts
    f1 = {"name": "zeta", "params": two, "ret": None, "kind": "INSTANCE", "strip": [], "async": False}
    f2 = {"name": "alpha", "params": [], "ret": "int", "kind": "STATIC", "strip": [], "async": True}
    f3 = {"name": "Mid" + LONG, "params": params_for(["PO", "KO"], 3), "ret": None, "kind": "CLASS", "strip": ["typing"], "async": False}
    probes.append({"id": "D0", "what": "class", "name": "K", "functions": [f1, f2, f3]})
    probes.append({"id": "D1", "what": "class", "name": "K", "functions": [f1]})
    probes.append({"id": "D2", "what": "module", "functions": [dict(f1, kind="MODULE"), dict(f2, kind="MODULE")],
                   "classes": [{"name": "Zed", "functions": [f2]}, {"name": "Abc", "functions": [f3, f1]}]})
    probes.append({"id": "D3", "what": "module", "functions": [dict(f2, kind="MODULE")], "classes": []})
    probes.append({"id": "D4", "what": "module", "functions": [], "classes": [{"name": "Q", "functions": [f1, f2]}]})
    return probes


def main():
    from monkeytype import stubs
    pk = {"PO": inspect.Parameter.POSITIONAL_ONLY, "PK": inspect.Parameter.POSITIONAL_OR_KEYWORD,
          "VP": inspect.Parameter.VAR_POSITIONAL, "KO": inspect.Parameter.KEYWORD_ONLY, "VK": inspect.Parameter.VAR_KEYWORD}

    def signature(params, ret):
        ps = [inspect.Parameter(p["name"], pk[p["kind"]], default=(0 if p["default"] else inspect.Parameter.empty),
                                annotation=(p["anno"] if p["anno"] is not None else inspect.Parameter.empty)) for p in params]
        return inspect.Signature(ps, return_annotation=(ret if ret is not None else inspect.Signature.empty))

    def fstub(d):
        return stubs.FunctionStub(d["name"], signature(d["params"], d["ret"]), stubs.FunctionKind[d["kind"]],
                                  list(d["strip"]), d["async"])

    kinds = [k.name for k in stubs.FunctionKind]
    probes = []
    for p in battery():
        if p["what"] == "kinds":
            for k in kinds:
                for prefix in ("", "  "):
                    probes.append({"id": f"C_{k}_{len(prefix)}", "what": "function", "name": "f", "params": [], "ret": None,
                                   "kind": k, "strip": [], "async": False, "prefix": prefix})
        else:
            probes.append(p)
    out = []
    for p in probes:
        try:
            if p["what"] == "function":
                text = fstub(p).render(p["prefix"])
            elif p["what"] == "signature":
                text = stubs.render_signature(signature(p["params"], p["ret"]), p["max"], p["prefix"])
            elif p["what"] == "class":
                text = stubs.ClassStub(p["name"], [fstub(f) for f in p["functions"]]).render()
            else:
                text = stubs.ModuleStub([fstub(f) for f in p["functions"]],
                                        [stubs.ClassStub(c["name"], [fstub(f) for f in c["functions"]]) for c in p["classes"]]).render()
            if not isinstance(text, str):
                raise TypeError(f"render returned {type(text).__name__}")
            out.append(dict(p, output=text))
        except Exception as e:
            out.append(dict(p, raised=f"{type(e).__name__}: {e}"))
    json.dump({"file": stubs.__file__, "kinds": kinds, "probes": out}, sys.stdout)


if __name__ == "__main__":
    main()
