(* Proofs/ConfineRender.v — C16: every moved item is in the rendered `if TYPE_CHECKING:` block. *)
From Coq Require Import List Bool Arith String Ascii Lia.
From MT Require Import Confine ConfineEmb ConfineItems.
Import ListNotations.
Open Scope list_scope.

Lemma sinsert_In x s l : In x (sinsert s l) <-> x = s \/ In x l.
Proof.
  induction l as [|y r IH]; simpl; [intuition|].
  destruct (String.eqb s y) eqn:E.
  - apply String.eqb_eq in E. subst y. simpl. intuition.
  - destruct (String.ltb s y); simpl; [intuition|]. rewrite IH. intuition.
Qed.

Lemma ssort_In x l : In x (ssort l) <-> In x l.
Proof.
  unfold ssort. induction l as [|y r IH]; simpl; [tauto|]. rewrite sinsert_In, IH. intuition.
Qed.

Lemma ninsert_In x n l : In x (ninsert n l) <-> x = n \/ In x l.
Proof.
  induction l as [|y r IH]; simpl; [intuition|].
  destruct (name_eqb n y) eqn:E.
  - apply name_eqb_eq in E. subst y. simpl. intuition.
  - destruct (name_ltb n y); simpl; [intuition|]. rewrite IH. intuition.
Qed.

Lemma nsort_In x l : In x (nsort l) <-> In x l.
Proof.
  unfold nsort. induction l as [|y r IH]; simpl; [tauto|]. rewrite ninsert_In, IH. intuition.
Qed.

Lemma in_domain_item moved it :
  in_domain moved = true -> In it moved ->
  String.eqb (i_mod it) "__future__" = false /\ is_rel (i_mod it) = false
  /\ (i_obj it = None -> i_alias it = None).
Proof.
  unfold in_domain. rewrite forallb_forall. intros H Hin. specialize (H it Hin).
  apply andb_true_iff in H as [H H4]. apply andb_true_iff in H as [H H3]. apply andb_true_iff in H as [H1 _].
  apply negb_true_iff in H1. apply negb_true_iff in H3. repeat split; try assumption.
  intro Ho. rewrite Ho in H4. destruct (i_alias it); [discriminate | reflexivity].
Qed.

Lemma render_has_moved moved it :
  in_domain moved = true -> In it moved -> In it (items_of (render moved)).
Proof.
  intros Hd Hin. destruct (in_domain_item moved it Hd Hin) as [_ [Hrel Hal]].
  unfold items_of, render. rewrite !flat_map_app, !in_app_iff.
  destruct it as [md o al]. simpl in *. destruct o as [o|].
  - (* from md import o [as al] *)
    right. right. apply in_flat_map.
    exists (IFrom md (nsort (from_names md moved))). split.
    + apply in_map_iff. exists md. split; [reflexivity|]. apply in_app_iff.
      set (am := ssort (from_mods true moved)).
      destruct al as [a|].
      * left. apply ssort_In. unfold from_mods. apply in_flat_map.
        exists (Item md (Some o) (Some a)). split; [assumption | simpl; now left].
      * destruct (smemb md am) eqn:E.
        -- left. now apply smemb_In.
        -- right. apply filter_In. split; [| now rewrite E].
           apply ssort_In. unfold from_mods. apply in_flat_map.
           exists (Item md (Some o) None). split; [assumption | simpl; now left].
    + simpl. rewrite Hrel. apply in_map_iff. exists (o, al). split; [reflexivity|].
      apply nsort_In. unfold from_names. apply in_flat_map.
      exists (Item md (Some o) al). split; [assumption|]. simpl. rewrite String.eqb_refl. now left.
  - (* import md *)
    rewrite (Hal eq_refl) in *. left. apply in_flat_map.
    exists (IImport [(md, None)]). split; [| simpl; now left].
    apply in_map_iff. exists md. split; [reflexivity|]. apply ssort_In. unfold plain_mods. apply in_flat_map.
    exists (Item md None None). split; [assumption | simpl; now left].
Qed.

(* clause 2a: every moved item sits under `if TYPE_CHECKING:` and not at run-time level *)
Theorem confine_moved_under_tc moved applied it :
  in_domain moved = true -> In it moved ->
  In it (tc_items (confine_with moved applied)) /\ ~ In it (run_items (confine_with moved applied)).
Proof.
  intros Hd Hin. split.
  - unfold confine_with. apply tc_items_insert_block; [assumption | now apply render_has_moved].
  - now apply confine_moved_not_runtime.
Qed.

Lemma in_domain_no_future moved :
  in_domain moved = true -> forall it, In it moved -> String.eqb (i_mod it) "__future__" = false.
Proof. intros Hd it Hin. now destruct (in_domain_item moved it Hd Hin). Qed.
