(* Proofs/PipelineInferable.v — every type get_type produces (and every merge of such types) is `inferable` in
   the sense of C08: no Tuple[T, ...], no forward reference, every Union in typing's normal form, TypedDict keys
   distinct.  This discharges the `inferable` premise of the store round trip in C01. *)
From MT Require Import Types Infer TypesFacts UnionFacts InferFacts InferSound GetTypeSound TdBounded
                       Encode EncodeRoundtrip Rewrite Hier Pipeline.
From Coq Require Import Lia.

(* one compositional boolean for "encodable and union-normal" *)
Fixpoint inf_ok (t : ty) : bool :=
  match t with
  | TAny | TCls _ | TCallable => true
  | TFwd _ | TTupleVar _ => false
  | TType x | TList x | TSet x | TIterator x => inf_ok x
  | TDict a b | TDefaultDict a b => inf_ok a && inf_ok b
  | TTuple ts => forallb inf_ok ts
  | TGenerator a b c => inf_ok a && inf_ok b && inf_ok c
  | TUnion ts => Nat.leb 2 (List.length ts) && forallb (fun x => negb (is_tunion x)) ts
                 && nodupb [] ts && forallb inf_ok ts
  | TTypedDict r o => forallb (fun f => inf_ok (snd f)) r && forallb (fun f => inf_ok (snd f)) o
  end.

Lemma existsb_false_forall {A} (f : A -> bool) l :
  (forall x, In x l -> f x = false) -> existsb f l = false.
Proof. intros H. induction l as [|a r IH]; [reflexivity|]. cbn. rewrite H by (left; reflexivity).
  apply IH. intros x Hx. apply H. right. exact Hx. Qed.

Lemma inf_ok_spec t : inf_ok t = true ->
  has_tuplevar t = false /\ has_fwd t = false /\ union_nfb t = true.
Proof.
  induction t as [ | c | x IH | | x IH | x IH | x IH | a b IHa IHb | a b IHa IHb | xs IH | x IH
                 | a1 a2 a3 IH1 IH2 IH3 | xs IH | r o IHr IHo | s ] using ty_ind';
    cbn [inf_ok has_tuplevar has_fwd union_nfb]; intros H; try discriminate H; auto.
  - apply andb_prop in H. destruct H as [H1 H2]. destruct (IHa H1) as [A1 [A2 A3]], (IHb H2) as [B1 [B2 B3]].
    rewrite A1, A2, A3, B1, B2, B3. auto.
  - apply andb_prop in H. destruct H as [H1 H2]. destruct (IHa H1) as [A1 [A2 A3]], (IHb H2) as [B1 [B2 B3]].
    rewrite A1, A2, A3, B1, B2, B3. auto.
  - rewrite forallb_forall in H. rewrite Forall_forall in IH. repeat split.
    + apply existsb_false_forall. intros x Hx. apply (IH x Hx (H x Hx)).
    + apply existsb_false_forall. intros x Hx. apply (IH x Hx (H x Hx)).
    + apply forallb_forall. intros x Hx. apply (IH x Hx (H x Hx)).
  - apply andb_prop in H. destruct H as [H H3]. apply andb_prop in H. destruct H as [H1 H2].
    destruct (IH1 H1) as [A1 [A2 A3]], (IH2 H2) as [B1 [B2 B3]], (IH3 H3) as [C1 [C2 C3]].
    rewrite A1, A2, A3, B1, B2, B3, C1, C2, C3. auto.
  - apply andb_prop in H. destruct H as [H H4]. apply andb_prop in H. destruct H as [H H3].
    apply andb_prop in H. destruct H as [H1 H2]. rewrite H1, H2, H3. cbn [andb].
    rewrite forallb_forall in H4. rewrite Forall_forall in IH. repeat split.
    + apply existsb_false_forall. intros x Hx. apply (IH x Hx (H4 x Hx)).
    + apply existsb_false_forall. intros x Hx. apply (IH x Hx (H4 x Hx)).
    + apply forallb_forall. intros x Hx. apply (IH x Hx (H4 x Hx)).
  - apply andb_prop in H. destruct H as [Hr Ho]. rewrite forallb_forall in Hr, Ho. rewrite Forall_forall in IHr, IHo.
    repeat split.
    + rewrite !existsb_false_forall; [reflexivity| |]; intros f Hf; [apply (IHo f Hf (Ho f Hf))|apply (IHr f Hf (Hr f Hf))].
    + rewrite !existsb_false_forall; [reflexivity| |]; intros f Hf; [apply (IHo f Hf (Ho f Hf))|apply (IHr f Hf (Hr f Hf))].
    + apply andb_true_intro; split; apply forallb_forall; intros f Hf;
        [apply (IHr f Hf (Hr f Hf))|apply (IHo f Hf (Ho f Hf))].
Qed.

(* wf_ty, as the boolean of Model/Encode.v *)
Lemma NoDup_nodup_strb l : NoDup l -> Encode.nodup_strb l = true.
Proof.
  induction 1 as [|s r Hn _ IH]; [reflexivity|]. cbn [Encode.nodup_strb]. rewrite IH, andb_true_r.
  apply negb_true_iff. apply existsb_false_forall. intros x Hx.
  destruct (String.eqb_spec s x) as [E|E]; [subst; contradiction|reflexivity].
Qed.

Lemma wf_ty_wf_tyb t : wf_ty t -> wf_tyb t = true.
Proof.
  induction t as [ | c | x IH | | x IH | x IH | x IH | a b IHa IHb | a b IHa IHb | xs IH | x IH
                 | a1 a2 a3 IH1 IH2 IH3 | xs IH | r o IHr IHo | s ] using ty_ind';
    intros W; cbn [wf_tyb]; auto.
  - destruct W. rewrite IHa, IHb; auto.
  - destruct W. rewrite IHa, IHb; auto.
  - apply wf_TTuple in W. rewrite Forall_forall in *. apply forallb_forall. auto.
  - destruct W as [W1 [W2 W3]]. rewrite IH1, IH2, IH3; auto.
  - apply wf_TUnion in W. rewrite Forall_forall in *. apply forallb_forall. auto.
  - apply wf_TTypedDict in W. destruct W as [ND [Wr Wo]]. rewrite (NoDup_nodup_strb _ ND). cbn [andb].
    rewrite Forall_forall in *. apply andb_true_intro; split; apply forallb_forall; auto.
Qed.

Lemma inferable_of t : inf_ok t = true -> wf_ty t -> inferable t.
Proof.
  intros H W. destruct (inf_ok_spec t H) as [A [B C]]. unfold inferable, encodable.
  rewrite A, B. repeat split; [exact C|apply wf_ty_wf_tyb; exact W].
Qed.

(* ---------- Union[...] keeps the normal form ---------- *)
Lemma nodupb_dedup : forall ts seen, nodupb seen (dedup seen ts) = true.
Proof.
  induction ts as [|t r IH]; intros seen; cbn [dedup]; [reflexivity|].
  destruct (negb (has_td t) && existsb (py_eqb t) seen) eqn:D; [apply IH|].
  cbn [nodupb]. rewrite D, IH. reflexivity.
Qed.

Definition plain (t : ty) : bool := negb (is_tunion t) && inf_ok t.

Lemma flatten_plain ts : forallb inf_ok ts = true -> forallb plain (flatten ts) = true.
Proof.
  unfold flatten. induction ts as [|t r IH]; cbn [flat_map forallb]; intros H; [reflexivity|].
  apply andb_prop in H. destruct H as [H1 H2]. rewrite forallb_app, IH by exact H2. rewrite andb_true_r.
  destruct t; cbn [forallb]; unfold plain; cbn [is_tunion negb andb]; rewrite ?andb_true_r; try exact H1.
  cbn [inf_ok] in H1. apply andb_prop in H1. destruct H1 as [H1 H4]. apply andb_prop in H1. destruct H1 as [H1 H3].
  apply andb_prop in H1. destruct H1 as [_ H2']. rewrite forallb_forall in *. intros x Hx.
  rewrite (H2' x Hx), (H4 x Hx). reflexivity.
Qed.

Lemma flatten_nonempty ts : forallb inf_ok ts = true -> ts <> [] -> flatten ts <> [].
Proof.
  destruct ts as [|t r]; [congruence|]. intros H _. cbn [forallb] in H. apply andb_prop in H. destruct H as [H _].
  unfold flatten. cbn [flat_map]. destruct t; try discriminate.
  cbn [inf_ok] in H. destruct ts as [|a [|b l]]; try discriminate H. discriminate.
Qed.

Lemma union_mk_inf ts : forallb inf_ok ts = true -> ts <> [] -> inf_ok (union_mk ts) = true.
Proof.
  intros H Hne. pose proof (flatten_plain ts H) as P. pose proof (flatten_nonempty ts H Hne) as Fne.
  unfold union_mk.
  pose proof (nodupb_dedup (flatten ts) []) as ND.
  assert (D : forallb plain (dedup [] (flatten ts)) = true).
  { rewrite forallb_forall in *. intros x Hx. apply P. eapply dedup_incl. exact Hx. }
  assert (Dne : dedup [] (flatten ts) <> []).
  { destruct (flatten ts) as [|f0 fr]; [congruence|]. cbn [dedup existsb]. rewrite andb_false_r. discriminate. }
  destruct (dedup [] (flatten ts)) as [|t [|t' l]]; [congruence| |].
  - cbn [forallb] in D. rewrite andb_true_r in D. unfold plain in D. apply andb_prop in D. tauto.
  - cbn [inf_ok]. rewrite ND. cbn [List.length Nat.leb andb]. rewrite andb_true_r.
    rewrite forallb_forall in D.
    apply andb_true_intro; split; apply forallb_forall; intros x Hx; specialize (D x Hx);
      unfold plain in D; apply andb_prop in D; tauto.
Qed.

Lemma td2dict_inf t : inf_ok t = true -> inf_ok (td2dict t) = true.
Proof.
  induction t as [ | c | x IH | | x IH | x IH | x IH | a b IHa IHb | a b IHa IHb | xs IH | x IH
                 | a1 a2 a3 IH1 IH2 IH3 | xs IH | r o IHr IHo | s ] using ty_ind';
    cbn [inf_ok td2dict]; intros H; auto.
  - apply andb_prop in H. destruct H. cbn [inf_ok]. rewrite IHa, IHb; auto.
  - cbn [inf_ok]. rewrite forallb_forall in *. rewrite Forall_forall in IH. intros y Hy.
    apply in_map_iff in Hy. destruct Hy as [x [<- Hx]]. auto.
  - apply andb_prop in H. destruct H as [H H3]. apply andb_prop in H. destruct H as [H1 H2].
    cbn [inf_ok]. rewrite IH1, IH2, IH3; auto.
  - apply andb_prop in H. destruct H as [H H4]. apply andb_prop in H. destruct H as [H _].
    apply andb_prop in H. destruct H as [HL _].
    apply union_mk_inf.
    + rewrite forallb_forall in *. rewrite Forall_forall in IH. intros y Hy.
      apply in_map_iff in Hy. destruct Hy as [x [<- Hx]]. auto.
    + destruct xs; [discriminate HL|discriminate].
  - apply andb_prop in H. destruct H as [Hr Ho].
    assert (G : r ++ o <> [] ->
                inf_ok (TDict (TCls cStr)
                 (union_mk (map (fun f => td2dict (snd f)) r ++ map (fun f => td2dict (snd f)) o))) = true).
    { intros Hne. cbn [inf_ok andb]. apply union_mk_inf.
      - rewrite forallb_app.
        rewrite forallb_forall in Hr, Ho. rewrite Forall_forall in IHr, IHo.
        apply andb_true_intro; split; apply forallb_forall; intros y Hy; apply in_map_iff in Hy;
          destruct Hy as [f [<- Hf]]; auto.
      - rewrite <- map_app. destruct (r ++ o); [congruence|discriminate]. }
    destruct r, o; try (apply G; discriminate); reflexivity.
Qed.

(* ---------- merging ---------- *)
Lemma inf_fields x f : inf_ok x = true -> In f (td_req x) \/ In f (td_opt x) -> inf_ok (snd f) = true.
Proof.
  destruct x; cbn [td_req td_opt]; intros H [Hf|Hf]; try destruct Hf;
    cbn [inf_ok] in H; apply andb_prop in H; destruct H as [Hr Ho]; rewrite forallb_forall in Hr, Ho; auto.
Qed.

Lemma entries_inf ts (W : Forall wf_ty ts) e :
  forallb inf_ok ts = true -> In e (required_of ts) \/ In e (optional_of ts) -> forallb inf_ok (snd e) = true.
Proof.
  intros B He. apply forallb_forall. intros ft Hft.
  destruct (merge_origin ts W e ft He Hft) as [x [f [Hx [Hf <-]]]].
  rewrite forallb_forall in B. apply (inf_fields x f (B x Hx) Hf).
Qed.

Section Shrink.
Variable k : nat.

Lemma shrink_inf fuel : forall ts t,
  Forall wf_ty ts -> forallb inf_ok ts = true -> shrink k fuel ts = Some t -> inf_ok t = true.
Proof.
  induction fuel as [|fuel IH]; intros ts t W B S; [cbn in S; discriminate S|].
  cbn [shrink] in S. destruct ts as [|t0 rest]; [injection S as <-; reflexivity|].
  destruct (forallb is_td (t0 :: rest)) eqn:ATD.
  - set (ts := t0 :: rest) in *.
    rewrite (merge_maps_pair ts) in S. cbn iota beta in S.
    set (required := required_of ts) in *. set (optional := optional_of ts) in *.
    destruct (Nat.ltb k (List.length required + List.length optional)) eqn:LT.
    + destruct (shrink k fuel (flat_map snd required ++ flat_map snd optional)) as [T|] eqn:ST;
        [|cbn [option_map] in S; discriminate S]. cbn [option_map] in S.
      injection S as <-. cbn [inf_ok andb]. apply (IH _ _ (all_entries_wf ts W)) in ST; [exact ST|].
      rewrite forallb_app. apply andb_true_intro; split; apply forallb_forall; intros y Hy;
        apply in_flat_map in Hy; destruct Hy as [e [He Hy]].
      * pose proof (entries_inf ts W e B (or_introl He)) as X. rewrite forallb_forall in X. auto.
      * pose proof (entries_inf ts W e B (or_intror He)) as X. rewrite forallb_forall in X. auto.
    + destruct (negb (keys_disjoint required optional)) eqn:DJ; [discriminate S|].
      destruct (mapM (fun e => option_map (pair (fst e)) (shrink k fuel (snd e))) required) as [R|] eqn:MR; [|discriminate S].
      destruct (mapM (fun e => option_map (pair (fst e)) (shrink k fuel (snd e))) optional) as [O|] eqn:MO; [|discriminate S].
      injection S as <-. cbn [inf_ok]. apply andb_true_intro; split.
      * apply forallb_forall. intros y Hy. destruct (mapM_pair_bwd _ _ _ _ MR Hy) as [e [He [_ ST]]].
        apply (IH _ _ (entries_wf' ts W e (or_introl He)) (entries_inf ts W e B (or_introl He)) ST).
      * apply forallb_forall. intros y Hy. destruct (mapM_pair_bwd _ _ _ _ MO Hy) as [e [He [_ ST]]].
        apply (IH _ _ (entries_wf' ts W e (or_intror He)) (entries_inf ts W e B (or_intror He)) ST).
  - destruct (forallb (fun t => py_eqb t t0) rest).
    + injection S as <-. cbn [forallb] in B. apply andb_prop in B. tauto.
    + destruct (forallb is_tlist (t0 :: rest)) eqn:AL.
      * destruct (shrink k fuel (filter (fun a => negb (is_tany a)) (map list_arg (t0 :: rest)))) as [T|] eqn:ST;
          [|cbn [option_map] in S; discriminate S]. cbn [option_map] in S.
        injection S as <-. cbn [inf_ok]. apply (fun X Y => IH _ _ X Y ST).
        -- rewrite forallb_forall in AL. rewrite Forall_forall in *. intros y Hy.
           apply filter_In in Hy. destruct Hy as [Hy _].
           apply in_map_iff in Hy. destruct Hy as [z [<- Hz]].
           pose proof (W z Hz) as Wz. pose proof (AL z Hz) as Lz. destruct z; try discriminate Lz. exact Wz.
        -- rewrite forallb_forall in *. intros y Hy. apply filter_In in Hy. destruct Hy as [Hy _].
           apply in_map_iff in Hy. destruct Hy as [z [<- Hz]].
           pose proof (B z Hz) as Bz. pose proof (AL z Hz) as Lz. destruct z; try discriminate Lz. exact Bz.
      * injection S as <-. change (td2dict t0 :: map td2dict rest) with (map td2dict (t0 :: rest)).
        apply union_mk_inf; [|discriminate]. rewrite forallb_forall in *. intros y Hy.
        apply in_map_iff in Hy. destruct Hy as [z [<- Hz]]. apply td2dict_inf. apply B. exact Hz.
Qed.

Lemma shrink_top_inf ts T :
  Forall wf_ty ts -> forallb inf_ok ts = true -> shrink_top k ts = Some T -> inf_ok T = true.
Proof. unfold shrink_top. apply shrink_inf. Qed.

(* ---------- get_type ---------- *)
Let subN := fun c a : cls => N.eqb c a.
Let subN_refl c : subN c c = true. Proof. apply N.eqb_refl. Qed.

Definition gt_inf (v : value) : Prop :=
  wf_valueb v = true -> forall t, get_type k v = Some t -> inf_ok t = true.

Lemma mapM_gt_inf {A} (proj : A -> value) (l : list A) ts :
  Forall (fun a => gt_inf (proj a)) l ->
  forallb (fun a => wf_valueb (proj a)) l = true ->
  mapM (fun a => get_type k (proj a)) l = Some ts ->
  forallb inf_ok ts = true /\ Forall wf_ty ts.
Proof.
  intros HF HW HM.
  assert (Wts : Forall wf_ty ts).
  { assert (HG : Forall (fun a => gt_ok subN k (proj a)) l)
      by (rewrite Forall_forall; intros x _; apply get_type_ok; apply subN_refl).
    destruct (mapM_gt_ok subN k proj l ts HG HW HM) as [X _]. exact X. }
  split; [|exact Wts]. apply mapM_Forall2 in HM. clear Wts.
  induction HM as [|a t l ts Ht _ IH]; [reflexivity|].
  inversion HF as [|? ? Ha HF']; subst. cbn [forallb] in HW |- *. apply andb_prop in HW. destruct HW as [W1 W2].
  rewrite (Ha W1 t Ht), (IH HF' W2). reflexivity.
Qed.

Lemma seq_case_inf es T0 (con : ty -> ty) :
  (forall T, inf_ok (con T) = inf_ok T) ->
  Forall gt_inf es -> forallb wf_valueb es = true ->
  opt_bind (mapM (get_type k) es) (fun ts => option_map con (shrink_top k ts)) = Some T0 -> inf_ok T0 = true.
Proof.
  intros Hc HF HW H. apply opt_bind_Some in H. destruct H as [ts [HM H]].
  apply option_map_Some in H. destruct H as [T [HS ->]].
  destruct (mapM_gt_inf (fun e => e) es ts HF HW HM) as [B Wts].
  rewrite Hc. eapply shrink_top_inf; eauto.
Qed.

Lemma dict_case_inf kvs T0 (con : ty -> ty -> ty) :
  (forall a b, inf_ok (con a b) = inf_ok a && inf_ok b) ->
  Forall (fun kv => gt_inf (fst kv) /\ gt_inf (snd kv)) kvs ->
  forallb (fun kv => wf_valueb (fst kv) && wf_valueb (snd kv)) kvs = true ->
  opt_bind (mapM (fun kv => get_type k (fst kv)) kvs) (fun ks =>
  opt_bind (mapM (fun kv => get_type k (snd kv)) kvs) (fun vs =>
  opt_bind (shrink_top k ks) (fun kt => option_map (con kt) (shrink_top k vs)))) = Some T0 ->
  inf_ok T0 = true.
Proof.
  intros Hc HF HW H.
  apply opt_bind_Some in H. destruct H as [ks [HK H]].
  apply opt_bind_Some in H. destruct H as [vs [HV H]].
  apply opt_bind_Some in H. destruct H as [kt [HSK H]].
  apply option_map_Some in H. destruct H as [vt [HSV ->]].
  assert (HF1 : Forall (fun kv => gt_inf (fst kv)) kvs) by (rewrite Forall_forall in *; intros x Hx; apply HF; exact Hx).
  assert (HF2 : Forall (fun kv => gt_inf (snd kv)) kvs) by (rewrite Forall_forall in *; intros x Hx; apply HF; exact Hx).
  assert (HW1 : forallb (fun kv => wf_valueb (fst kv)) kvs = true).
  { rewrite forallb_forall in *. intros x Hx. specialize (HW x Hx). apply andb_prop in HW. tauto. }
  assert (HW2 : forallb (fun kv => wf_valueb (snd kv)) kvs = true).
  { rewrite forallb_forall in *. intros x Hx. specialize (HW x Hx). apply andb_prop in HW. tauto. }
  destruct (mapM_gt_inf fst kvs ks HF1 HW1 HK) as [Bk Wk].
  destruct (mapM_gt_inf snd kvs vs HF2 HW2 HV) as [Bv Wv].
  rewrite Hc, (shrink_top_inf ks kt Wk Bk HSK), (shrink_top_inf vs vt Wv Bv HSV). reflexivity.
Qed.

Lemma get_type_inf v : gt_inf v.
Proof.
  induction v as [c p|s|c| | |es IH|es IH|es IH|kvs IH|kvs IH] using value_ind'; intros WV t G;
    cbn [get_type] in G; try (injection G as <-; reflexivity).
  - cbn [wf_valueb] in WV. apply (seq_case_inf es t TList); auto.
  - cbn [wf_valueb] in WV. apply (seq_case_inf es t TSet); auto.
  - cbn [wf_valueb] in WV. apply option_map_Some in G. destruct G as [ts [HM ->]].
    destruct (mapM_gt_inf (fun e => e) es ts IH WV HM) as [B _]. exact B.
  - cbn [wf_valueb] in WV. apply andb_prop in WV. destruct WV as [ND WV].
    destruct kvs as [|kv0 kvs0]; [injection G as <-; reflexivity|].
    set (kvs := kv0 :: kvs0) in *.
    destruct (forallb is_strkey kvs && Nat.leb (List.length kvs) k) eqn:C.
    + apply option_map_Some in G. destruct G as [r [HM ->]].
      pose proof (mapM_Forall2 _ _ _ HM) as F2.
      cbn [inf_ok forallb]. rewrite andb_true_r.
      clear -F2 IH WV. revert IH WV. induction F2 as [|kv y l r Hy _ IH']; intros IH WV; [reflexivity|].
      inversion IH as [|? ? [_ Hv] IHl]; subst. cbn [forallb] in WV |- *. apply andb_prop in WV. destruct WV as [W1 W2].
      apply andb_prop in W1. destruct W1 as [_ W1].
      destruct (get_type k (snd kv)) as [tv|] eqn:E; [|discriminate Hy]. injection Hy as <-. cbn [snd].
      rewrite (Hv W1 tv E), (IH' IHl W2). reflexivity.
    + apply (dict_case_inf kvs t TDict); auto.
  - cbn [wf_valueb] in WV. apply (dict_case_inf kvs t TDefaultDict); auto.
Qed.

(* every type get_type produces is inferable (C08's premise) *)
Theorem get_type_inferable v t : wf_valueb v = true -> get_type k v = Some t -> inferable t.
Proof.
  intros W G. apply inferable_of; [apply (get_type_inf v W t G)|].
  apply (get_type_ok subN subN_refl k v W t G).
Qed.

(* and so is every merge of inferable types (what stub generation emits before the rewriters) *)
Theorem merge_inferable ts T :
  Forall wf_ty ts -> forallb inf_ok ts = true -> shrink_top k ts = Some T -> inferable T.
Proof.
  intros W B S. apply inferable_of; [eapply shrink_top_inf; eauto|eapply shrink_top_wf; eauto].
Qed.

End Shrink.

Print Assumptions get_type_inferable.
Print Assumptions merge_inferable.

(* ---------- C01's store corollaries without the `inferable` premise ---------- *)
Section StoreInferred.
Variable cname : cls -> string * string.
Variable site : string.
Variable env : string -> string -> lookup.
Variable hidden : string -> option cls.

Lemma mapM_get_type_inferable k obs ts :
  forallb wf_valueb obs = true -> mapM (get_type k) obs = Some ts -> Forall inferable ts.
Proof.
  intros WV HM. apply mapM_Forall2 in HM. revert WV.
  induction HM as [|x t l ts Ht _ IH]; intros WV; [constructor|].
  cbn [forallb] in WV. apply andb_prop in WV. destruct WV as [W1 W2].
  constructor; [eapply get_type_inferable; eauto|apply IH; exact W2].
Qed.

Lemma ok_types k obs ts :
  forallb wf_valueb obs = true -> mapM (get_type k) obs = Some ts ->
  Forall (fun t => Forall (importable cname env hidden) (classes t)) ts ->
  Forall (fun t => inferable t /\ Forall (importable cname env hidden) (classes t)) ts.
Proof.
  intros WV HM HI. pose proof (mapM_get_type_inferable k obs ts WV HM) as HF.
  rewrite Forall_forall in *. intros t Ht. split; auto.
Qed.

Theorem pipeline_sound_store_inferred h bt k rs (obs : list value) (ts stored : list ty) T v :
  wf_hier h = true -> bt_ok h bt = true -> chain_ok rs = true ->
  typing_ok env ->
  forallb wf_valueb obs = true ->
  mapM (get_type k) obs = Some ts ->
  Forall (fun t => Forall (importable cname env hidden) (classes t)) ts ->
  (forall t', In t' stored <-> exists t, In t ts /\ decoded_copy cname site env hidden t t') ->
  shrink_top k stored = Some T -> In v obs ->
  member true (subclass h) v (rw_chain h bt rs T) = true.
Proof.
  intros Hh Hb Hc TOK WV HM HI Hst HS Hv.
  eapply (pipeline_sound_store cname site env hidden); eauto. eapply ok_types; eauto.
Qed.

Theorem pipeline_sound_store_fn_inferred h bt k rs (obs : list value) (ts ds stored : list ty) T v :
  wf_hier h = true -> bt_ok h bt = true -> chain_ok rs = true ->
  typing_ok env ->
  forallb wf_valueb obs = true ->
  mapM (get_type k) obs = Some ts ->
  Forall (fun t => Forall (importable cname env hidden) (classes t)) ts ->
  mapM (store_rt cname site env hidden) ts = Some ds ->
  (forall t', In t' stored <-> In t' ds) ->
  shrink_top k stored = Some T -> In v obs ->
  member true (subclass h) v (rw_chain h bt rs T) = true.
Proof.
  intros Hh Hb Hc TOK WV HM HI HD Hst HS Hv.
  eapply (pipeline_sound_store_fn cname site env hidden); eauto. eapply ok_types; eauto.
Qed.

(* the round trip never fails on what get_type produced over importable classes: ds exists *)
Theorem store_rt_total k obs ts :
  typing_ok env -> forallb wf_valueb obs = true -> mapM (get_type k) obs = Some ts ->
  Forall (fun t => Forall (importable cname env hidden) (classes t)) ts ->
  exists ds, mapM (store_rt cname site env hidden) ts = Some ds.
Proof.
  intros TOK WV HM HI. pose proof (ok_types k obs ts WV HM HI) as OK. clear HM HI WV.
  induction OK as [|t l Ht _ IH]; [exists []; reflexivity|].
  destruct IH as [ds E].
  destruct (type_roundtrip_ok cname site env hidden t TOK Ht) as [j [t' [E1 [E2 _]]]].
  exists (t' :: ds). cbn [mapM]. unfold store_rt at 1. rewrite E1, E2, E. reflexivity.
Qed.
End StoreInferred.

Print Assumptions pipeline_sound_store_inferred.
Print Assumptions pipeline_sound_store_fn_inferred.
Print Assumptions store_rt_total.
