(* Check/SigUpdateCases.v — C13 verdicts.  One case = one live function x one strategy (API value or
   CLI flags) x one set of CallTraces; the harness records what /repo did (merged trace table, updated
   signature object, per-position annotations parsed back from the rendered stub).
   0 ok; 1 model /= implementation, property predicate still true; 2 property predicate false on the
   implementation's own output; 3 malformed case. *)
From MT Require Export SigUpdate Common.
From MT Require Import Constants.

(* a parameter as parsed back from the rendered stub text (`= ...` hides which default it was) *)
Record rparam := RParam { rname : string; rkind : pkind; rhasdef : bool; ranno : option anno }.

Record ucase := UCase {
  u_sname : string;                           (* enum member NAME requested (ignored for CLI cases) *)
  u_strat : nat;                              (* its VALUE in the live enum (ignored for CLI cases) *)
  u_cli : option (string * list string);      (* CLI case: (parser/group variable, strategy flags given) *)
  u_kind : string;                            (* FunctionKind member the implementation derived *)
  u_sig : sig;                                (* inspect.Signature.from_callable(func) *)
  u_k : nat;                                  (* max_typed_dict_size *)
  u_traces : list trace;                      (* the CallTraces *)
  u_shrunk : option traced;                   (* what the real shrink_traced_types returned *)
  u_out : option sig;                         (* get_updated_definition(...).signature; None for CLI cases *)
  u_rendered : option (list rparam * option anno);   (* parsed from the rendered stub *)
  u_env : list (string * anno);               (* what each string annotation evaluates to in its module *)
  u_raised : bool;                            (* the implementation raised *)
  u_usage : bool                              (* the CLI exited with a usage error *)
}.

(* ---- denotation of string annotations / forward references (the stub prints 'Foo' bare) ---- *)
Fixpoint resolve_ty (env : list (string * ty)) (t : ty) : ty :=
  match t with
  | TFwd s => match lookup_f s env with Some x => x | None => t end
  | TType x => TType (resolve_ty env x)
  | TList x => TList (resolve_ty env x)
  | TSet x => TSet (resolve_ty env x)
  | TIterator x => TIterator (resolve_ty env x)
  | TTupleVar x => TTupleVar (resolve_ty env x)
  | TDict k v => TDict (resolve_ty env k) (resolve_ty env v)
  | TDefaultDict k v => TDefaultDict (resolve_ty env k) (resolve_ty env v)
  | TTuple ts => TTuple (map (resolve_ty env) ts)
  | TUnion ts => union_mk (map (resolve_ty env) ts)
  | TGenerator a b c => TGenerator (resolve_ty env a) (resolve_ty env b) (resolve_ty env c)
  | TAny | TCls _ | TCallable | TTypedDict _ _ => t
  end.

Fixpoint lookup_anno (k : string) (env : list (string * anno)) : option anno :=
  match env with
  | [] => None
  | e :: r => if String.eqb k (fst e) then Some (snd e) else lookup_anno k r
  end.

(* the entries that denote a type of the shared vocabulary (usable below a generic / Union) *)
Definition env_ty (env : list (string * anno)) : list (string * ty) :=
  flat_map (fun e => match snd e with ATy t => [(fst e, t)] | _ => [] end) env.

Definition resolve (env : list (string * anno)) (a : anno) : anno :=
  match a with
  | ATy t => ATy (resolve_ty (env_ty env) t)
  | AStr s => match lookup_anno s env with Some x => x | None => a end
  | _ => a
  end.

Definition denote_eqb (env : list (string * anno)) (a b : option anno) : bool :=
  oanno_corrb (option_map (resolve env) a) (option_map (resolve env) b).

(* ---- comparisons ---- *)
Definition param_corrb (p o : param) : bool :=
  String.eqb (pname p) (pname o) && pkind_eqb (pk p) (pk o) && dflt_eqb (pdef p) (pdef o)
  && oanno_corrb (panno p) (panno o).

Fixpoint all2 {A B} (f : A -> B -> bool) (xs : list A) (ys : list B) : bool :=
  match xs, ys with
  | [], [] => true
  | x :: xs', y :: ys' => f x y && all2 f xs' ys'
  | _, _ => false
  end.

Definition sig_corrb (a b : sig) : bool :=
  all2 param_corrb (sparams a) (sparams b) && oanno_corrb (sret a) (sret b).

Definition oty_corrb (a b : option ty) : bool :=
  match a, b with Some x, Some y => corrb x y | None, None => true | _, _ => false end.

Definition traced_corrb (a b : traced) : bool :=
  forallb (fun e => oty_corrb (Some (snd e)) (lookup_f (fst e) (targs b))) (targs a)
  && forallb (fun e => oty_corrb (lookup_f (fst e) (targs a)) (Some (snd e))) (targs b)
  && oty_corrb (tret a) (tret b) && oty_corrb (tyield a) (tyield b).

(* ---- the rendered stub against a signature: names, kinds, presence of a default, and the shown
        annotation (Optional-wrapped for a None default), up to denotation of string annotations ---- *)
Definition has_default (d : dflt) : bool := match d with DNo => false | _ => true end.

Definition rendered_param_ok (env : list (string * anno)) (o : param) (r : rparam) : bool :=
  String.eqb (pname o) (rname r) && pkind_eqb (pk o) (rkind r) && Bool.eqb (has_default (pdef o)) (rhasdef r)
  && denote_eqb env (shown_param o) (ranno r).

Definition rendered_ok (env : list (string * anno)) (o : sig) (r : list rparam * option anno) : bool :=
  all2 (rendered_param_ok env) (sparams o) (fst r) && denote_eqb env (sret o) (snd r).

(* ---- the DOCUMENTED meaning, written out here independently of the regenerated tables, so that the
        property predicate (verdict 2) does not follow a change of those tables ---- *)
Definition doc_self (kind : string) : bool :=
  mem_str kind ["CLASS"; "INSTANCE"; "PROPERTY"; "DJANGO_CACHED_PROPERTY"]%string.

(* which member a command line selects; None = argparse must refuse it *)
Definition doc_flags (parser : string) (flags : list string) : option string :=
  match flags with
  | [] => Some "REPLICATE"%string
  | [f] => if String.eqb f "--ignore-existing-annotations" then Some "IGNORE"%string
           else if String.eqb f "--omit-existing-annotations" && String.eqb parser "group" then Some "OMIT"%string
           else None
  | _ => None
  end.

Record mode := Mode { mR : bool; mO : bool; mI : bool }.
Definition mode_of_name (n : string) : mode :=
  Mode (String.eqb n "REPLICATE") (String.eqb n "OMIT") (String.eqb n "IGNORE").
Definition mode_known (m : mode) : bool := mR m || mO m || mI m.
Definition allowed_m (m : mode) := allowed_b (mR m) (mO m) (mI m).

(* the outputs the statement allows at one position (cf. SigUpdate.allowed_b) *)
Definition candidates (m : mode) (recv : bool) (src : option anno) (tr : option ty) : list (option anno) :=
  if recv then [if mO m then None else src]
  else if mR m then [match src with Some a => Some a | None => option_map ATy tr end]
  else if mO m then [match src with Some _ => None | None => option_map ATy tr end]
  else if mI m then match tr with Some t => [Some (ATy t)] | None => [None; src] end
  else [].

Fixpoint rendered_allowed_params (env : list (string * anno)) (m : mode) (hs : bool) (args : list (string * ty))
         (idx : nat) (src : list param) (rs : list rparam) : bool :=
  match src, rs with
  | [], [] => true
  | p :: ps, r :: rs' =>
      existsb (fun c => rendered_param_ok env (set_anno p c) r)
              (candidates m (hs && Nat.eqb idx 0) (panno p) (lookup_f (pname p) args))
      && rendered_allowed_params env m hs args (S idx) ps rs'
  | _, _ => false
  end.

Definition rendered_allowed (env : list (string * anno)) (m : mode) (kind : string) (sg : sig) (tr : traced)
           (r : list rparam * option anno) : bool :=
  rendered_allowed_params env m (doc_self kind) (targs tr) 0 (sparams sg) (fst r)
  && existsb (fun c => denote_eqb env c (snd r))
             (candidates m false (sret sg) (traced_return (tret tr) (tyield tr))).

(* ---- well-formedness of a case ---- *)
Definition trace_tys (t : trace) : list ty :=
  map snd (cargs t) ++ match cret t with Some x => [x] | None => [] end
                    ++ match cyield t with Some x => [x] | None => [] end.
Definition td_free_case (c : ucase) : bool :=
  forallb (fun t => forallb (fun x => negb (has_td x)) (trace_tys t)) (u_traces c).

Definition all_names (c : ucase) : list string :=
  map pname (sparams (u_sig c)) ++ trace_names (u_traces c).

(* ---- the verdict ---- *)
Definition worst (a b : nat) : nat :=      (* 3 > 2 > 1 > 0 *)
  Nat.max a b.

Definition verdict_with (m : mode) (s : nat) (c : ucase) : nat :=
  if negb (mode_known m) || negb (td_free_case c) then 3 else
  if u_raised c || u_usage c then 2 else
  match collect (u_k c) (u_traces c) with
  | None => 3
  | Some trm =>
      (* the merged table the implementation really used, when observed *)
      let tri := match u_shrunk c with Some t => t | None => trm end in
      let v_shrunk :=
          match u_shrunk c with
          | Some sh => if negb (spec_presence (u_traces c) (all_names c) sh) then 2
                       else if traced_corrb trm sh then 0 else 1
          | None => 0 end in
      let mo := update_sig s (u_kind c) (u_sig c) trm in
      let v_out :=
          match u_out c with
          | Some out => if negb (spec_sig_with (allowed_m m) (doc_self (u_kind c)) (u_sig c) tri out) then 2
                        else if sig_corrb mo out then 0 else 1
          | None => 0 end in
      let v_rendered :=
          match u_rendered c with
          | Some r =>
              if negb (rendered_allowed (u_env c) m (u_kind c) (u_sig c) tri r) then 2
              else if negb (match u_out c with Some out => rendered_ok (u_env c) out r | None => true end) then 2
              else if rendered_ok (u_env c) mo r then 0 else 1
          | None => 0 end in
      match u_out c, u_rendered c with
      | None, None => 3            (* nothing observed *)
      | _, _ => worst v_shrunk (worst v_out v_rendered)
      end
  end.

Definition verdict_c13 (c : ucase) : nat :=
  match u_cli c with
  | None =>
      (* the value handed to the API must be the table's value of the requested member *)
      if negb (is_strat (u_sname c) (u_strat c)) then 1
      else verdict_with (mode_of_name (u_sname c)) (u_strat c) c
  | Some (parser, flags) =>
      match doc_flags parser flags with
      | None => if u_usage c then (match cli_strategy parser flags with CliUsageError => 0 | _ => 1 end) else 2
      | Some name =>
          match cli_strategy parser flags with
          | CliStrategy s => worst (verdict_with (mode_of_name name) s c) (if is_strat name s then 0 else 1)
          | CliUsageError => worst (verdict_with (mode_of_name name) 0 c) 1
          | CliNoSuchMember => 3
          end
      end
  end.
