(* Model/Infer.v — get_type / shrink_types / shrink_typed_dict_types / RewriteAnonymousTypedDictToDict
   (monkeytype/typing.py:85-242, 459-469).  Executable definitions only. *)
From MT Require Export Types.

(* RewriteAnonymousTypedDictToDict().rewrite : the generic traversal descends
   List/Set/Dict/Tuple/Union/Generator and NOT DefaultDict/Type/Iterator. *)
Fixpoint td2dict (t : ty) : ty :=
  match t with
  | TList x => TList (td2dict x)
  | TSet x => TSet (td2dict x)
  | TDict k v => TDict (td2dict k) (td2dict v)
  | TTuple ts => TTuple (map td2dict ts)
  | TTupleVar x => TTupleVar (td2dict x)
  | TGenerator a b c => TGenerator (td2dict a) (td2dict b) (td2dict c)
  | TUnion ts => union_mk (map td2dict ts)
  | TTypedDict r o =>
      match r, o with
      | [], [] => TDict TAny TAny
      | _, _ => TDict (TCls cStr)
                  (union_mk (map (fun f => td2dict (snd f)) r ++ map (fun f => td2dict (snd f)) o))
      end
  | TAny | TCls _ | TType _ | TCallable | TIterator _ | TDefaultDict _ _ | TFwd _ => t
  end.

(* insertion-ordered  key -> list of value types  (a defaultdict(list)) *)
Fixpoint add_field (k : string) (t : ty) (m : list (string * list ty)) : list (string * list ty) :=
  match m with
  | [] => [(k, [t])]
  | e :: r => if String.eqb k (fst e) then (fst e, snd e ++ [t]) :: r else e :: add_field k t r
  end.

Definition add_fields (fs : list (string * ty)) (m : list (string * list ty)) :=
  fold_left (fun m f => add_field (fst f) (snd f) m) fs m.

Definition td_req (t : ty) : list (string * ty) := match t with TTypedDict r _ => r | _ => [] end.
Definition td_opt (t : ty) : list (string * ty) := match t with TTypedDict _ o => o | _ => [] end.
Definition list_arg (t : ty) : ty := match t with TList x => x | _ => TAny end.

Definition keys_disjoint (a b : list (string * list ty)) : bool :=
  forallb (fun e => negb (existsb (fun e' => String.eqb (fst e) (fst e')) b)) a.

(* map a fallible function over a list *)
Section MapM.
Context {A B : Type} (f : A -> option B).
Fixpoint mapM (l : list A) : option (list B) :=
  match l with
  | [] => Some []
  | x :: r => match f x, mapM r with
              | Some y, Some ys => Some (y :: ys)
              | _, _ => None end
  end.
End MapM.

Section Shrink.
Variable k : nat.   (* max_typed_dict_size *)

(* the (required, optional) key -> value-types maps of shrink_typed_dict_types, typing.py:92-111 *)
Definition td_merge_maps (ts : list ty) :=
  let n := List.length ts in
  let kv := fold_left (fun m t => add_fields (td_req t) m) ts [] in
  let old_opt := flat_map td_opt ts in
  let required := filter (fun e => Nat.eqb (List.length (snd e)) n) kv in
  let optional := add_fields old_opt (filter (fun e => negb (Nat.eqb (List.length (snd e)) n)) kv) in
  (required, optional).

(* None = out of fuel, or make_typed_dict's disjointness assert fails *)
Fixpoint shrink (fuel : nat) (ts : list ty) : option ty :=
  match fuel with
  | O => None
  | S fuel' =>
    match ts with
    | [] => Some TAny
    | t0 :: rest =>
      if forallb is_td ts then
        let '(required, optional) := td_merge_maps ts in
        if Nat.ltb k (List.length required + List.length optional) then
          option_map (TDict (TCls cStr))
                     (shrink fuel' (flat_map snd required ++ flat_map snd optional))
        else if negb (keys_disjoint required optional) then None
        else
          match mapM (fun e => option_map (pair (fst e)) (shrink fuel' (snd e))) required,
                mapM (fun e => option_map (pair (fst e)) (shrink fuel' (snd e))) optional with
          | Some r, Some o => Some (TTypedDict r o)
          | _, _ => None
          end
      else if forallb (fun t => py_eqb t t0) rest then Some t0
      else if forallb is_tlist ts then
        (* an empty list (List[Any]) contributes no element type *)
        option_map TList (shrink fuel' (filter (fun a => negb (is_tany a)) (map list_arg ts)))
      else Some (union_mk (map td2dict ts))
    end
  end.

Definition shrink_top (ts : list ty) : option ty := shrink (S (S (depth_list ts))) ts.

Definition is_strkey (kv : value * value) : bool :=
  match fst kv with VStr _ => true | _ => false end.
Definition strkey (kv : value * value) : string :=
  match fst kv with VStr s => s | _ => EmptyString end.

Definition opt_bind {A B} (o : option A) (f : A -> option B) : option B :=
  match o with Some x => f x | None => None end.

(* get_type, typing.py:183-242.  Dict keys of a VDict are assumed pairwise distinct (wf_value). *)
Fixpoint get_type (v : value) : option ty :=
  match v with
  | VClassObj c => Some (TType (TCls c))
  | VCallable => Some TCallable
  | VGen => Some (TIterator TAny)
  | VAtom c _ => Some (TCls c)
  | VStr _ => Some (TCls cStr)
  | VList es => opt_bind (mapM get_type es) (fun ts => option_map TList (shrink_top ts))
  | VSet es => opt_bind (mapM get_type es) (fun ts => option_map TSet (shrink_top ts))
  | VTuple es => option_map TTuple (mapM get_type es)
  | VDict kvs =>
      match kvs with
      | [] => Some (TDict TAny TAny)
      | _ =>
        if forallb is_strkey kvs && Nat.leb (List.length kvs) k then
          option_map (fun r => TTypedDict r [])
            (mapM (fun kv => option_map (pair (strkey kv)) (get_type (snd kv))) kvs)
        else
          opt_bind (mapM (fun kv => get_type (fst kv)) kvs) (fun ks =>
          opt_bind (mapM (fun kv => get_type (snd kv)) kvs) (fun vs =>
          opt_bind (shrink_top ks) (fun kt =>
          option_map (TDict kt) (shrink_top vs))))
      end
  | VDefaultDict kvs =>
      opt_bind (mapM (fun kv => get_type (fst kv)) kvs) (fun ks =>
      opt_bind (mapM (fun kv => get_type (snd kv)) kvs) (fun vs =>
      opt_bind (shrink_top ks) (fun kt =>
      option_map (TDefaultDict kt) (shrink_top vs))))
  end.

Definition infer (vs : list value) : option ty :=
  opt_bind (mapM get_type vs) shrink_top.

End Shrink.

(* ---- well-formed runtime values: the string keys of a dict are pairwise distinct (a Python dict
        cannot hold the same key twice); evaluated on every generated case ---- *)
Definition strkeys (kvs : list (value * value)) : list string :=
  flat_map (fun kv => match fst kv with VStr s => [s] | _ => [] end) kvs.

Fixpoint nodup_strb (l : list string) : bool :=
  match l with
  | [] => true
  | s :: r => negb (existsb (String.eqb s) r) && nodup_strb r
  end.

Fixpoint wf_valueb (v : value) : bool :=
  match v with
  | VList es | VSet es | VTuple es => forallb wf_valueb es
  | VDict kvs =>
      nodup_strb (strkeys kvs) && forallb (fun kv => wf_valueb (fst kv) && wf_valueb (snd kv)) kvs
  | VDefaultDict kvs => forallb (fun kv => wf_valueb (fst kv) && wf_valueb (snd kv)) kvs
  | _ => true
  end.

(* ---- C06: every TypedDict node has between 1 and k fields ---- *)
Fixpoint td_boundedb (k : nat) (t : ty) : bool :=
  match t with
  | TAny | TCls _ | TCallable | TFwd _ => true
  | TType x | TList x | TSet x | TIterator x | TTupleVar x => td_boundedb k x
  | TDict a b | TDefaultDict a b => td_boundedb k a && td_boundedb k b
  | TTuple ts | TUnion ts => forallb (td_boundedb k) ts
  | TGenerator a b c => td_boundedb k a && td_boundedb k b && td_boundedb k c
  | TTypedDict r o =>
      Nat.leb 1 (List.length r + List.length o) && Nat.leb (List.length r + List.length o) k
      && forallb (fun f => td_boundedb k (snd f)) r && forallb (fun f => td_boundedb k (snd f)) o
  end.
