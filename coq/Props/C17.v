(* C17 — only code the filter admits, outside __main__, is ever recorded.
   Model: Model/Filter.v (default_code_filter over path components, the gate of CallTracer.__call__, the
   CallTraceStoreLogger).  The specification (under, real_source, stripped, filter_spec, dir_parts, suffix_free)
   is in Proofs/FilterSpec.v. *)
From Coq Require Import List Bool Arith String Ascii.
From MT Require Import Filter FilterSpec FilterStem FilterGate.
Import ListNotations.
Open Scope list_scope.

(* ---------------------------------------------------------------------------------------------------- *)
(* default_code_filter                                                                                   *)
(* ---------------------------------------------------------------------------------------------------- *)

(* For every tuple of library roots, every allow-list (unset or any list of names), every co_filename and every
   resolved path: the model — written after the source's control flow — answers True exactly when the code comes
   from a real source file and, without an allow-list, lies under no library root; with an allow-list, when a
   listed name equals the stem or a component of the path relative to the first library root it lies under. *)
Theorem default_filter_spec : forall roots allow raw file,
  default_filter roots allow raw (Some file) = Some true <->
    real_source raw /\
    match allow with
    | None => forall r, In r roots -> ~ under r file
    | Some ms => exists m rest, In m ms /\ stripped roots file rest /\ (stem rest = m \/ In m rest)
    end.
Proof. exact FilterSpec.default_filter_spec. Qed.
Print Assumptions default_filter_spec.

(* For listed names without a file suffix ("pkg", "mod"; not "mod.py") this is the reading "from a listed module
   or package wherever it is installed": the name is the file's stem or one of the directories above it. *)
Theorem default_filter_spec_modules : forall roots ms raw file, Forall suffix_free ms ->
  (default_filter roots (Some ms) raw (Some file) = Some true <->
   real_source raw /\ exists m rest, In m ms /\ stripped roots file rest /\
                                     (stem rest = m \/ In m (dir_parts rest))).
Proof. exact FilterStem.default_filter_spec_modules. Qed.
Print Assumptions default_filter_spec_modules.

(* A synthetic name ("", "<string>", "<frozen ...>") is rejected whatever else holds, without touching the file
   system; the filter raises only when resolve() is reached and raises. *)
Theorem default_filter_synthetic_and_errors : forall roots allow raw resolved,
  (~ real_source raw -> default_filter roots allow raw resolved = Some false)
  /\ (default_filter roots allow raw resolved = None <-> real_source raw /\ resolved = None).
Proof.
  exact (fun roots allow raw resolved =>
           conj (FilterSpec.synthetic_rejected roots allow raw resolved)
                (FilterSpec.default_filter_raises_iff roots allow raw resolved)).
Qed.
Print Assumptions default_filter_synthetic_and_errors.

(* The decision procedure the correspondence check evaluates on the implementation's answers decides that same
   specification, and the model computes the same function. *)
Theorem spec_decision_correct : forall roots allow raw file,
  (spec_b roots allow raw file = true <-> filter_spec roots allow raw file)
  /\ default_filter roots allow raw (Some file) = Some (spec_b roots allow raw file).
Proof.
  exact (fun roots allow raw file =>
           conj (FilterSpec.spec_b_iff roots allow raw file) (FilterSpec.model_eq_spec_b roots allow raw file)).
Qed.
Print Assumptions spec_decision_correct.

(* stem: "a.ext" with non-empty a and non-empty dot-free ext has stem a; any other name is its own stem *)
Theorem stem_name_spec :
  (forall a b, a <> EmptyString -> b <> EmptyString -> has_char "." b = false ->
               stem_name (a ++ String "." b)%string = a)
  /\ (forall name, (forall a b, name = (a ++ String "." b)%string -> has_char "." b = false ->
                                a = EmptyString \/ b = EmptyString) -> stem_name name = name).
Proof. exact (conj FilterStem.stem_name_suffix FilterStem.stem_name_other). Qed.
Print Assumptions stem_name_spec.

(* MONKEYTYPE_TRACE_MODULES.split(","): joining the names with "," gives the variable back, no name contains "," *)
Theorem split_comma_spec : forall s,
  join_comma (split_comma s) = s /\ Forall (fun m => has_char "," m = false) (split_comma s) /\ split_comma s <> [].
Proof.
  exact (fun s => conj (FilterStem.split_comma_join s)
                       (conj (FilterStem.split_comma_nocomma s) (FilterStem.split_comma_nonempty s))).
Qed.
Print Assumptions split_comma_spec.

(* ---------------------------------------------------------------------------------------------------- *)
(* CallTraceStoreLogger                                                                                  *)
(* ---------------------------------------------------------------------------------------------------- *)

(* For every list of logged traces: the batch handed to the store contains no trace whose function's module is
   __main__, and is exactly the other traces, in the order they were logged. *)
Theorem main_never_stored : forall ts,
  Forall (fun t => tr_module t <> Some "__main__"%string) (batch ts)
  /\ batch ts = filter (fun t => negb (is_main t)) ts.
Proof. exact FilterGate.main_never_stored. Qed.
Print Assumptions main_never_stored.

Theorem others_all_stored : forall ts t, In t ts -> tr_module t <> Some "__main__"%string -> In t (batch ts).
Proof. exact FilterGate.others_all_stored. Qed.
Print Assumptions others_all_stored.

(* For every interleaving of log and flush ending in a flush: the store received exactly the non-__main__ traces,
   in order, and the logger's buffer is empty. *)
Theorem logger_history : forall ops,
  let s := lrun slogger0 (ops ++ [Flush]) in
  List.concat (added s) = filter (fun t => negb (is_main t)) (logged_of ops) /\ buf s = [].
Proof. exact FilterGate.logger_history. Qed.
Print Assumptions logger_history.

(* ---------------------------------------------------------------------------------------------------- *)
(* the gate in CallTracer.__call__ (any tracer behind it, any tracer state, any code/frame representation) *)
(* ---------------------------------------------------------------------------------------------------- *)

(* One event: code the filter rejects leaves the tracer state unchanged and hands nothing to the logger; a
   supported event of admitted code (not named trace_types) is handed to the tracer behind the gate unchanged. *)
Theorem filter_gate : forall (code frame T : Type) (inner : T -> evkind -> code -> frame -> T * list trace)
                             (is_trace_types : code -> bool) (filt : option (code -> bool))
                             (s : T) (e : event code frame),
  (forall f, filt = Some f -> f (ev_code e) = false ->
             gate code frame T inner is_trace_types filt s e = (s, []))
  /\ (supported (ev_kind e) = true -> is_trace_types (ev_code e) = false ->
      (forall f, filt = Some f -> f (ev_code e) = true) ->
      gate code frame T inner is_trace_types filt s e = ungated code frame T inner s e).
Proof. exact FilterGate.gate_step. Qed.
Print Assumptions filter_gate.

(* Every history: the gated tracer behaves as the tracer behind the gate run on the sub-history of events that
   pass — rejected code has no effect at any point of any history, admitted code loses nothing. *)
Theorem filter_gate_history : forall (code frame T : Type) (inner : T -> evkind -> code -> frame -> T * list trace)
                                     (is_trace_types : code -> bool) (filt : option (code -> bool))
                                     (H : list (event code frame)) (s : T),
  run code frame T (gate code frame T inner is_trace_types filt) s H
  = run code frame T (ungated code frame T inner) s (filter (passes code frame is_trace_types filt) H).
Proof. exact FilterGate.gate_history. Qed.
Print Assumptions filter_gate_history.

(* Every history: whatever holds of every trace the tracer behind the gate emits while handling admitted code
   holds of everything the logger ever receives. *)
Theorem filter_gate_logged : forall (code frame T : Type) (inner : T -> evkind -> code -> frame -> T * list trace)
                                    (is_trace_types : code -> bool) (filt : option (code -> bool))
                                    (P : trace -> Prop),
  (forall s k c fr t, rejected code filt c = false -> In t (snd (inner s k c fr)) -> P t) ->
  forall (H : list (event code frame)) (s : T),
    Forall P (snd (run code frame T (gate code frame T inner is_trace_types filt) s H)).
Proof. exact FilterGate.logged_invariant. Qed.
Print Assumptions filter_gate_logged.

(* The whole pipeline (gate, a concrete tracer keeping live frames, logger, flush), every history without any
   well-formedness assumption: each row handed to the store belongs to code the filter admits and to a module
   other than __main__ ... *)
Theorem only_admitted_outside_main_stored :
  forall (resolve : nat -> option trace) (is_tt : nat -> bool) (filt : option (nat -> bool)) (H : list (event nat nat)),
  Forall (fun t => (exists c, resolve c = Some t /\ rejected nat filt c = false)
                   /\ tr_module t <> Some "__main__"%string)
         (pipeline_rows resolve is_tt filt H).
Proof. exact FilterGate.pipeline_rows_sound. Qed.
Print Assumptions only_admitted_outside_main_stored.

(* ... and a completed call of admitted, resolvable code outside __main__ is stored. *)
Theorem admitted_call_stored :
  forall (resolve : nat -> option trace) (is_tt : nat -> bool) (filt : option (nat -> bool)) c f t,
  resolve c = Some t -> rejected nat filt c = false -> is_tt c = false ->
  tr_module t <> Some "__main__"%string ->
  pipeline_rows resolve is_tt filt [Build_event KCall c f; Build_event KReturn c f] = [t].
Proof. exact FilterGate.pipeline_single_call_stored. Qed.
Print Assumptions admitted_call_stored.

(* ---------------------------------------------------------------------------------------------------- *)
(* non-vacuity                                                                                           *)
(* ---------------------------------------------------------------------------------------------------- *)
Definition ex_roots : list path :=
  [ ["/"; "opt"; "py"; "lib"; "python3.12"]; ["/"; "venv"; "lib"; "python3.12"; "site-packages"] ]%string.

Example ex_default_filter :
  let stdlib_json := ["/"; "opt"; "py"; "lib"; "python3.12"; "json"; "decoder.py"]%string in
  let user := ["/"; "home"; "u"; "proj"; "pkg"; "mod.py"]%string in
  default_filter ex_roots None "/opt/py/lib/python3.12/json/decoder.py" (Some stdlib_json) = Some false
  /\ default_filter ex_roots None "proj/pkg/mod.py" (Some user) = Some true
  /\ default_filter ex_roots None "x.py" (Some ["/"; "opt"; "py"; "lib"; "python3.12"]%string) = Some false
  /\ default_filter ex_roots None "<frozen importlib._bootstrap>" None = Some false
  /\ default_filter ex_roots None "" None = Some false
  /\ default_filter ex_roots None "loop/x.py" None = None
  /\ default_filter ex_roots (allow_of_env (Some "json,pkg"%string)) "d.py" (Some stdlib_json) = Some true
  /\ default_filter ex_roots (allow_of_env (Some "mod"%string)) "m.py" (Some user) = Some true
  /\ default_filter ex_roots (allow_of_env (Some "lib"%string)) "d.py" (Some stdlib_json) = Some false
  /\ default_filter ex_roots (allow_of_env (Some ""%string)) "m.py" (Some user) = Some false
  /\ stripped ex_roots stdlib_json ["json"; "decoder.py"]%string
  /\ filter_spec ex_roots (Some ["json"]%string) "d.py" stdlib_json
  /\ filter_spec ex_roots None "m.py" user
  /\ suffix_free "json" /\ ~ suffix_free "decoder.py".
Proof.
  cbn zeta. repeat match goal with |- _ /\ _ => split end; try (vm_compute; reflexivity).
  - apply FilterSpec.strip_first_root_stripped.
  - apply FilterSpec.spec_b_iff. vm_compute. reflexivity.
  - apply FilterSpec.spec_b_iff. vm_compute. reflexivity.
  - vm_compute. intro H. discriminate H.
Qed.

Example ex_main_never_stored :
  let t m q := {| tr_module := m; tr_qualname := q |} in
  batch [t (Some "__main__") "f"; t (Some "pkg.mod") "g"; t None "h"; t (Some "__main__") "K.m"; t (Some "__main__x") "i"]%string
  = [t (Some "pkg.mod") "g"; t None "h"; t (Some "__main__x") "i"]%string.
Proof. vm_compute. reflexivity. Qed.

Example ex_gate_pipeline :
  let tr m q := Some {| tr_module := Some m; tr_qualname := q |} in
  let resolve c := match c with 0 => tr "pkg.a" "f" | 1 => tr "pkg.a" "g" | 2 => tr "__main__" "main" | _ => None end%string in
  let filt := Some (fun c => negb (Nat.eqb c 1)) in           (* the filter rejects g *)
  let ev k c f := Build_event k c f in
  (* main calls f, f calls g (rejected), a builtin call in between *)
  let H := [ev KCall 2 10; ev KCall 0 11; ev KOther 0 11; ev KCall 1 12; ev KReturn 1 12; ev KReturn 0 11; ev KReturn 2 10] in
  snd (run nat nat mini_state (gate nat nat mini_state (mini_inner resolve) (fun _ => false) filt) [] H)
    = [{| tr_module := Some "pkg.a"; tr_qualname := "f" |}; {| tr_module := Some "__main__"; tr_qualname := "main" |}]%string
  /\ pipeline_rows resolve (fun _ => false) filt H = [{| tr_module := Some "pkg.a"; tr_qualname := "f" |}]%string
  /\ pipeline_rows resolve (fun _ => false) None H
     = [{| tr_module := Some "pkg.a"; tr_qualname := "g" |}; {| tr_module := Some "pkg.a"; tr_qualname := "f" |}]%string.
Proof. vm_compute. repeat split; reflexivity. Qed.
