(* Check/TracerCases.v — verdicts for the tracer tie (C02, C18; C17's gate rides along).
   A case = one program run: the recorded profile-event history (with ground truth `sem` from the program's own
   recorder and the RNG draws), what the REAL CallTracer logged (tagged with the frame being returned from),
   what it still held at the end, and ground truth of attribution / entry values. *)
From MT Require Export Tracer Common.

Record tcase := TCase {
  tc_rate : option nat;
  tc_H : list ev;
  tc_impl : list (N * trace);          (* real logger.log calls, in order *)
  tc_residue : list N;                 (* frames left in CallTracer.traces *)
  tc_truth : list (N * option N);      (* code id -> function that really owns the code *)
  tc_entries : list (N * list (string * ty))   (* frame -> types of the values bound to its parameters at entry *)
}.

Definition opt_corrb (a b : option ty) : bool :=
  match a, b with Some x, Some y => corrb x y | None, None => true | _, _ => false end.
Fixpoint args_eqb (a b : list (string * ty)) : bool :=
  match a, b with
  | [], [] => true
  | (n, x) :: a', (m, y) :: b' => String.eqb n m && corrb x y && args_eqb a' b'
  | _, _ => false
  end.
Definition trace_eqb (a b : trace) : bool :=
  N.eqb (t_func a) (t_func b) && args_eqb (t_args a) (t_args b) && opt_corrb (t_ret a) (t_ret b)
  && opt_corrb (t_yield a) (t_yield b).
Fixpoint list_eqb {A} (eq : A -> A -> bool) (a b : list A) : bool :=
  match a, b with [], [] => true | x :: a', y :: b' => eq x y && list_eqb eq a' b' | _, _ => false end.

Definition impl_for (f : N) (c : tcase) : list trace :=
  map snd (filter (fun p => N.eqb (fst p) f) (tc_impl c)).

Definition taken (rate : option nat) (es : list ev) : bool :=
  match first_draw es with Some d => negb (skipped_by_sampling rate d) | None => true end.

Definition expected_for (rate : option nat) (es : list ev) : list trace :=
  if taken rate es then expected_frame es else [].

(* ground truth beyond the event stream: attribution and entry values of the expected trace *)
Definition truth_ok (c : tcase) (f : N) (es : list ev) : bool :=
  match first_call es with
  | Some (cd, args) =>
      (match lookup (c_id cd) (tc_truth c), c_func cd with
       | Some (Some fn), Some fn' => N.eqb fn fn'        (* resolved to the function whose code ran *)
       | Some (Some fn), None => false                   (* a function reachable by name / class / enclosing frame was
                                                            not resolved: its calls go unlogged *)
       | _, _ => true end)
      && (match lookup f (tc_entries c) with
          | Some ent =>
              (* every logged (name, type) is the type of the value bound to that name at entry; *args / **kwargs are
                 bound names the tracer never looks at (co_varnames[:argcount+kwonly]), so the entry may have more *)
              forallb (fun a => match find (fun e => String.eqb (fst e) (fst a)) ent with
                                | Some e => corrb (snd a) (snd e) | None => false end) args
              || negb (taken (tc_rate c) es)
          | None => true end)
  | None => true
  end.

(* 0 ok | 2 property fails | 5 fails inside kf_raise_at_yield | 6 inside kf_resume_sampled_after_skip
   | 7 inside kf_async_generator *)
Definition frame_verdict (c : tcase) (f : N) : nat :=
  let es := proj f (tc_H c) in
  let rate := tc_rate c in
  let ok := list_eqb trace_eqb (impl_for f c) (expected_for rate es)
            && Bool.eqb (memN f (tc_residue c)) (taken rate es && pending_frame es)
            && truth_ok c f es in
  if ok then 0
  else if existsb kf_raise_at_yield es then 5
  else if kf_resume_sampled_after_skip rate es then 6
  else if existsb kf_async_generator es then 7
  else 2.

Definition env_ok (c : tcase) : bool :=
  forallb (fun f => wf_frame (proj f (tc_H c))) (frames_of (tc_H c))
  && forallb (fun e => ev_consistent e || kf_raise_at_yield e || kf_async_generator e) (tc_H c).

Definition model_ok (c : tcase) : bool :=
  let m := run (tc_rate c) (tc_H c) in
  list_eqb (fun a b => N.eqb (fst a) (fst b) && trace_eqb (snd a) (snd b)) (rev (logged m)) (tc_impl c)
  && forallb (fun f => memN f (tc_residue c)) (map fst (live m))
  && forallb (fun f => memN f (map fst (live m))) (tc_residue c).

Definition verdict_tracer (c : tcase) : nat :=
  if negb (env_ok c) then 4 else
  let fs := frames_of (tc_H c) in
  let vs := map (frame_verdict c) fs in
  if existsb (Nat.eqb 2) vs then 2
  else if negb (forallb (fun p => memN (fst p) fs) (tc_impl c)) then 2     (* a trace logged outside any program frame *)
  else if existsb (Nat.eqb 5) vs then 5
  else if existsb (Nat.eqb 6) vs then 6
  else if existsb (Nat.eqb 7) vs then 7
  else if negb (model_ok c) then 1 else 0.
