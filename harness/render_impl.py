"""C11 implementation runner (child process).  usage: render_impl.py <fixture dir> <cases.json> <out.json>

For every case: build the live typing objects, run the real FunctionDefinition / build_module_stubs /
ModuleStub.render(), then evaluate the stub in ITS OWN namespace: every import line executed on its own in an
empty namespace, generated class stubs registered, the target module's own classes and builtins added, every
annotation source segment evaluated with eval(), the result reified (forward references resolved through the
registered class stubs).  Emits the Gallina case term; all comparison happens in Coq."""
import ast
import collections
import collections.abc
import functools
import importlib
import json
import sys
import typing
from typing import Any, Callable, DefaultDict, Dict, Generator, Iterator, List, Set, Tuple, Type, Union


def main():
    fixture, cases_path, out_path = sys.argv[1:4]
    sys.path.insert(0, fixture)
    from harness import common, render_fixture as fx
    from harness.common import coq_list, coq_N, coq_opt, coq_bool

    def coq_str(s):
        # like common.coq_str but newlines stay literal (Coq string literals may span lines): the stub text is
        # compared byte for byte with the model's
        out = []
        for ch in s:
            o = ord(ch)
            if ch == '"':
                out.append('""')
            elif 32 <= o < 127 or ch == "\n":
                out.append(ch)
            else:
                out.append("\\u%04x" % o)
        return '"' + "".join(out) + '"%string'
    import mypy_extensions
    from monkeytype.stubs import (ExistingAnnotationStrategy, FunctionDefinition, build_module_stubs)
    from monkeytype.typing import make_typed_dict

    ct = common.ClassTable()
    live = [fx.resolve(m, q) for m, q in fx.POOL]
    for c in live:
        ct.of(c)
    # subscripted user generics are pseudo classes of the class table (see render_fixture.ALIASES): equal aliases are ==
    # and hash alike, so both the traced object and the object eval() produces from the stub text map to the same number
    live_alias = [fx.resolve_alias(i) for i in range(len(fx.ALIASES))]
    alias_code = {}
    for i, a in enumerate(live_alias):
        alias_code[a] = ct.next
        ct.next += 1
    alias_rows = [(alias_code[a], fx.ALIASES[i][0], fx.alias_text(i)[len(fx.ALIASES[i][0]) + 1:])
                  for i, a in enumerate(live_alias)]

    def alias_of(t):
        try:
            return alias_code.get(t)
        except TypeError:
            return None

    _reify_type = common.reify_type

    def reify_type_with_aliases(t, ctab):
        n = alias_of(t)
        if n is not None:
            return f"(TCls {coq_N(n)})"
        return _reify_type(t, ctab)
    common.reify_type = reify_type_with_aliases      # common.reify_type recurses through its module-level name

    def build(j):
        k = j[0]
        if k == "cls":
            return live[j[1]]
        if k == "alias":
            return live_alias[j[1]]
        if k == "any":
            return Any
        if k == "callable":
            return Callable
        if k == "list":
            return List[build(j[1])]
        if k == "set":
            return Set[build(j[1])]
        if k == "iter":
            return Iterator[build(j[1])]
        if k == "type":
            return Type[build(j[1])]
        if k == "dict":
            return Dict[build(j[1]), build(j[2])]
        if k == "ddict":
            return DefaultDict[build(j[1]), build(j[2])]
        if k == "tuple":
            return Tuple[tuple(build(x) for x in j[1])] if j[1] else Tuple[()]
        if k == "tuplevar":
            return Tuple[build(j[1]), ...]
        if k == "union":
            return Union[tuple(build(x) for x in j[1])]
        if k == "gen":
            return Generator[build(j[1]), build(j[2]), build(j[3])]
        if k == "td":
            return make_typed_dict(required_fields={n: build(x) for n, x in j[1]},
                                   optional_fields={n: build(x) for n, x in j[2]})
        raise ValueError(j)

    class TDStub:
        def __init__(self, name, base, total, fields):
            self.name, self.base, self.total, self.fields = name, base, total, fields

    def evaluate_stub(text, own, fuel_extra=2):
        """-> (imports_ok, [(key, slot, src, term|None)])"""
        tree = ast.parse(text)
        ns = {}
        imports_ok = True
        tdstubs = []
        funcs = []
        for node in tree.body:
            if isinstance(node, ast.ImportFrom):
                for alias in node.names:
                    stmt = f"from {'.' * node.level}{node.module} import {alias.name}"
                    try:
                        exec(stmt, ns)
                    except Exception:
                        imports_ok = False
            elif isinstance(node, ast.ClassDef) and (node.bases or node.keywords):
                total = True
                for kw in node.keywords:
                    if kw.arg == "total":
                        total = bool(ast.literal_eval(kw.value))
                base = ast.get_source_segment(text, node.bases[0]) if node.bases else ""
                fields = [(st.target.id, ast.get_source_segment(text, st.annotation))
                          for st in node.body if isinstance(st, ast.AnnAssign)]
                tdstubs.append(TDStub(node.name, base, total, fields))
            elif isinstance(node, ast.ClassDef):
                for st in node.body:
                    if isinstance(st, (ast.FunctionDef, ast.AsyncFunctionDef)):
                        funcs.append((node.name + "." + st.name, st))
            elif isinstance(node, (ast.FunctionDef, ast.AsyncFunctionDef)):
                funcs.append((node.name, node))
            else:
                imports_ok = False          # nothing else belongs in a stub
        ns.pop("__builtins__", None)
        for s in tdstubs:
            ns[s.name] = s
        for (m, q), c in zip(fx.POOL, live):
            if m == own and "." not in q:
                ns[q] = c
        fuel0 = fuel_extra + len(tdstubs)

        def ev(src):
            try:
                return True, eval(src, dict(ns))
            except Exception:
                return False, None

        def fields_of(s, fuel):
            out = []
            for n, src in s.fields:
                ok, obj = ev(src)
                if not ok:
                    return None
                t = reify(obj, fuel)
                if t is None:
                    return None
                out.append(f"({coq_str(n)}, {t})")
            return coq_list(out)

        def resolve_fwd(name, fuel):
            s = ns.get(name)
            if not isinstance(s, TDStub):
                return None
            b = ns.get(s.base)
            if b is mypy_extensions.TypedDict:
                own_f = fields_of(s, fuel - 1)
                if own_f is None:
                    return None
                return f"(TTypedDict {own_f} [])" if s.total else f"(TTypedDict [] {own_f})"
            if isinstance(b, TDStub) and b.total and ns.get(b.base) is mypy_extensions.TypedDict and not s.total:
                req = fields_of(b, fuel - 1)
                opt = fields_of(s, fuel - 1)
                if req is None or opt is None:
                    return None
                return f"(TTypedDict {req} {opt})"
            return None

        def reify(t, fuel):
            if fuel <= 0:
                return None
            if alias_of(t) is not None:
                return f"(TCls {coq_N(alias_of(t))})"
            if t is Any:
                return "TAny"
            if t is None:
                t = type(None)
            if isinstance(t, str):
                return resolve_fwd(t, fuel)
            if isinstance(t, typing.ForwardRef):
                return resolve_fwd(t.__forward_arg__, fuel)
            if t is typing.Callable:
                return "TCallable"
            origin = getattr(t, "__origin__", None)
            args = getattr(t, "__args__", None)
            if origin is not None and args is not None and not isinstance(t, type):
                def rs(xs):
                    out = [reify(x, fuel) for x in xs]
                    return None if any(o is None for o in out) else out
                if origin is tuple:
                    if args == () or args == ((),):
                        return "(TTuple [])"
                    if len(args) == 2 and args[1] is Ellipsis:
                        r = reify(args[0], fuel)
                        return None if r is None else f"(TTupleVar {r})"
                    r = rs(args)
                    return None if r is None else f"(TTuple {coq_list(r)})"
                r = rs(args)
                if r is None:
                    return None
                if origin is Union:
                    return f"(TUnion {coq_list(r)})"
                table = {list: ("TList", 1), set: ("TSet", 1), dict: ("TDict", 2),
                         collections.defaultdict: ("TDefaultDict", 2), type: ("TType", 1),
                         collections.abc.Iterator: ("TIterator", 1), collections.abc.Generator: ("TGenerator", 3)}
                if origin in table and table[origin][1] == len(r):
                    return f"({table[origin][0]} {' '.join(r)})"
                return None
            if isinstance(t, type):
                return f"(TCls {coq_N(ct.of(t))})"
            return None

        out = []
        for key, fn in funcs:
            # a decorator is a name the stub uses too: one that the stub's namespace does not provide is reported as a
            # slot of its own, which no expected annotation matches
            for dec in fn.decorator_list:
                src = ast.get_source_segment(text, dec)
                ok, _ = ev(src)
                if not ok:
                    out.append((key, "@" + src, src, None))
            extra = [x for x in (fn.args.vararg, fn.args.kwarg) if x is not None]
            for a in fn.args.posonlyargs + fn.args.args + fn.args.kwonlyargs + extra:
                if a.annotation is not None:
                    src = ast.get_source_segment(text, a.annotation)
                    ok, obj = ev(src)
                    out.append((key, a.arg, src, reify(obj, fuel0) if ok else None))
            if fn.returns is not None:
                src = ast.get_source_segment(text, fn.returns)
                ok, obj = ev(src)
                out.append((key, "return", src, reify(obj, fuel0) if ok else None))
        return imports_ok, out

    def fd_term(key, params, has_self, args, ret, yld):
        path = key.split(".")
        return "(Build_fdef %s %s %s %s %s %s %s)" % (
            coq_list(coq_str(p) for p in path[:-1]), coq_str(path[-1]), coq_bool(has_self),
            coq_list(f"({coq_str(n)}, {d})" for n, d in params),
            coq_list(f"({coq_str(n)}, {common.reify_type(t, ct)})" for n, t in args.items()),
            coq_opt(common.reify_type(ret, ct) if ret is not None else None),
            coq_opt(common.reify_type(yld, ct) if yld is not None else None))

    def run_history(case):
        """A StubIndexBuilder that is asked for its stubs after every session of traces; the stub after the last session
        is the implementation's output.  The types the annotations must denote are those of a FRESH builder that is given
        all traces at once and asked once; a difference between the two texts is reported as `rc_raised`.
        -> (fd terms, text, raised, unstable, function keys)"""
        import inspect
        from monkeytype.stubs import StubIndexBuilder
        from monkeytype.tracing import CallTrace
        own = case["own"]
        mod = importlib.import_module(own)

        def traces(sess):
            out = []
            for fn in sess:
                func = mod
                for part in fn["key"].split("."):
                    func = getattr(func, part)
                out.append(CallTrace(func, {n: build(t) for n, t in fn["args"]},
                                     build(fn["ret"]) if fn["ret"] is not None else None,
                                     build(fn["yield"]) if fn["yield"] is not None else None))
            return out
        try:
            inc = StubIndexBuilder(".*", 0)
            text = ""
            for sess in case["history"]:
                for tr in traces(sess):
                    inc.log(tr)
                got = inc.get_stubs()
                text = got[own].render() if own in got else ""
            fresh = StubIndexBuilder(".*", 0)
            for sess in case["history"]:
                for tr in traces(sess):
                    fresh.log(tr)
            fstubs = fresh.get_stubs()[own]
            fresh_text = fstubs.render()
        except Exception as e:
            return [], "", f"{type(e).__name__}: {e}", None, []
        unstable = None
        if text != fresh_text:
            unstable = ("generation after a later tracing session: StubIndexBuilder.get_stubs() differs from a fresh builder "
                        f"given the same traces; the fresh builder says: {fresh_text!r}")
        entries = [(name, st) for name, st in fstubs.function_stubs.items()]
        for cname, cs in fstubs.class_stubs.items():
            entries += [(cname + "." + name, st) for name, st in cs.function_stubs.items()]
        terms, keys = [], []
        for key, st in entries:
            params, has_self = fx.FUNC_SHAPES[key]
            sig = st.signature
            args = {n: p.annotation for n, p in sig.parameters.items() if p.annotation is not inspect.Parameter.empty}
            ret = sig.return_annotation if sig.return_annotation is not inspect.Signature.empty else None
            terms.append(fd_term(key, params, has_self, args, ret, None))
            keys.append(key)
        return terms, text, None, unstable, keys

    cases = json.load(open(cases_path))
    results = []
    for case in cases:
        # typing's parametrisation caches are keyed with ==, and Union[int, str] == Union[str, int]: an alias built
        # earlier in this process (another case) would decide the member order of Optional[...]/List[...] built now.
        # Every case starts from empty caches so that the rendered order depends on the case alone.
        for cleanup in typing._cleanups:
            cleanup()
        own = case["own"]
        mod = importlib.import_module(own)
        fd_terms, defs, traced = [], [], []
        raised = None
        hist = run_history(case) if case.get("history") else None
        for fn in (case["fns"] if hist is None else []):
            func = mod
            for part in fn["key"].split("."):
                func = getattr(func, part)
            if isinstance(func, functools.cached_property):
                func = func.func              # what the tracer would hand over: the function under the descriptor
            assert func.__module__ == own, (func.__module__, own)
            args = {n: build(t) for n, t in fn["args"]}
            ret = build(fn["ret"]) if fn["ret"] is not None else None
            yld = build(fn["yield"]) if fn["yield"] is not None else None
            path = fn["key"].split(".")
            fd_terms.append("(Build_fdef %s %s %s %s %s %s %s)" % (
                coq_list(coq_str(p) for p in path[:-1]), coq_str(path[-1]), coq_bool(fn["self"]),
                coq_list(f"({coq_str(n)}, {d})" for n, d in fn["params"]),
                coq_list(f"({coq_str(n)}, {common.reify_type(t, ct)})" for n, t in args.items()),
                coq_opt(common.reify_type(ret, ct) if ret is not None else None),
                coq_opt(common.reify_type(yld, ct) if yld is not None else None)))
            traced.append((func, args, ret, yld))
            try:
                defs.append(FunctionDefinition.from_callable_and_traced_types(
                    func, args, ret, yld, ExistingAnnotationStrategy.IGNORE))
            except Exception as e:
                raised = f"{type(e).__name__}: {e}"
        text, imports_ok, annos = "", True, []
        if hist is not None:
            fd_terms, text, raised, unstable_h, keys_h = hist
        if raised is None and hist is None:
            try:
                stubs = build_module_stubs(defs)
                text = stubs[own].render() if own in stubs else ""
            except Exception as e:
                raised = f"{type(e).__name__}: {e}"
        # history: the same module stub is generated again, twice, in this process (definitions rebuilt from the same
        # traced types, so the signatures are equal but not identical objects).  The stub must not depend on how often it
        # has been generated: the LAST generation is the one that is evaluated below, and any difference between
        # generations is reported to Coq as `rc_raised` (no repeatable stub exists for this input).
        unstable = None if hist is None else unstable_h
        if raised is None and hist is None:
            first = text
            for generation in (2, 3):
                try:
                    again = [FunctionDefinition.from_callable_and_traced_types(
                        func, args, ret, yld, ExistingAnnotationStrategy.IGNORE) for func, args, ret, yld in traced]
                    stubs = build_module_stubs(again)
                    text = stubs[own].render() if own in stubs else ""
                except Exception as e:
                    unstable = f"generation {generation} of the same stub in one process raised {type(e).__name__}: {e}"
                    break
                if text != first and unstable is None:
                    unstable = (f"generation {generation} of the same stub in one process differs from generation 1; "
                                f"generation 1 was: {first!r}")
        if raised is None:
            try:
                imports_ok, annos = evaluate_stub(text, own)
            except SyntaxError as e:
                imports_ok, annos = False, []
                raised_note = f"stub does not parse: {e}"
                case["parse_error"] = raised_note
        raised = raised or unstable
        table = collections.OrderedDict((k, []) for k in ([fn["key"] for fn in case["fns"]] if hist is None else keys_h))
        for key, slot, src, term in annos:
            table.setdefault(key, []).append(f"({coq_str(slot)}, ({coq_str(src)}, {coq_opt(term)}))")
        annos_term = coq_list(f"({coq_str(k)}, {coq_list(v)})" for k, v in table.items())
        term = "(Build_rcase the_ct %s %s %s %s %s %s)" % (
            coq_str(own), coq_list(fd_terms), "__RAISED__", coq_str(text),
            coq_bool(imports_ok), annos_term)
        results.append({"term": term, "text": text, "raised": raised, "imports_ok": imports_ok,
                        "parse_error": case.get("parse_error"),
                        "annos": [[k, s, src, t] for k, s, src, t in annos]})
    rows = []
    for c, n in sorted(ct.code.items(), key=lambda kv: kv[1]):
        rows.append(f"({coq_N(n)}, ({coq_str(c.__module__)}, {coq_str(c.__qualname__)}))")
    for n, m, q in alias_rows:
        rows.append(f"({coq_N(n)}, ({coq_str(m)}, {coq_str(q)}))")
    json.dump({"ct": coq_list(rows), "results": results}, open(out_path, "w"))


if __name__ == "__main__":
    main()
