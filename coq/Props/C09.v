(* C09 — the trace store returns exactly what was added: deduplicated, filtered, bounded.

   Model: Model/Store.v (state = committed rows; Add / AddAborted / Reopen / Filter / ListModules; the query of
   make_query with its qualname operator read from the regenerated Gen/Constants.v + Gen/StoreConstants.v).
   Specification vocabulary: Proofs/StoreSpec.v (`committed`, `starts_with`, `wanted`, `spec_run`).
   All theorems quantify over ALL histories `ops : list op` (proved by induction over the operation list).
   Atomicity / durability / serialisability of a *real* add() are SQLite's: they are the modelling assumptions
   `Add` = one step, `AddAborted` = no step, `Reopen` = identity, exercised on every run by the fault campaigns of
   harness/props/C09.py, not proved here. *)
From Coq Require Import List Bool NArith String Permutation.
From MT Require Import Store StoreSpec StoreFacts.
Import ListNotations.
Open Scope list_scope.

(* filter_spec.  An answer `out` to filter(m, p, n) is accepted by the model after history `ops` (the relation the
   correspondence check evaluates on the real answers) exactly when: its rows are pairwise distinct; each was
   committed by some add() that returned, has module exactly m and a qualified name that literally starts with p;
   and there are min(n, d) of them, d being the number of distinct such rows ever committed. *)
Theorem filter_spec :
  forall (ops : list op) (m : string) (p : option string) (n : N) (out : list row),
    filter_answerb (run ops) m p n out = true
    <->
    (NoDup out
     /\ (forall r, In r out ->
           committed ops r /\ r_module r = m
           /\ match p with None => True | Some p => starts_with p (r_qualname r) end)
     /\ (forall l, NoDup l ->
           (forall r, In r l <->
              (committed ops r /\ r_module r = m
               /\ match p with None => True | Some p => starts_with p (r_qualname r) end)) ->
           N.of_nat (List.length out) = N.min n (N.of_nat (List.length l)))).
Proof. exact filter_spec_l. Qed.
Print Assumptions filter_spec.

(* the relation is inhabited in every state: the query's own result set is an accepted answer when the limit does
   not cut it *)
Theorem filter_answer_exists :
  forall ops m p n D,
    sql_select (run ops) m p = Some D -> (N.of_nat (List.length D) <= n)%N ->
    filter_answerb (run ops) m p n D = true.
Proof. exact sql_select_accepted. Qed.
Print Assumptions filter_answer_exists.

(* the repaired operator `substr(qualname, 1, length(?)) == ?` is the prefix test ... *)
Theorem exact_prefix_is_prefix :
  forall p q, exact_prefix p q = true <-> starts_with p q.
Proof. exact exact_prefix_spec. Qed.
Print Assumptions exact_prefix_is_prefix.

(* ... whereas `qualname LIKE ? || '%'` keeps every row the prefix test keeps and more (ex_like_operator_refuted) *)
Theorem like_prefix_superset :
  forall p q, starts_with p q -> like_prefix p q = true.
Proof. exact StoreFacts.like_prefix_superset. Qed.
Print Assumptions like_prefix_superset.

(* modules_spec.  An accepted list_modules() answer is duplicate-free and lists exactly the non-empty module names
   that have a committed row. *)
Theorem modules_spec :
  forall (ops : list op) (ms : list string),
    modules_answerb (run ops) ms = true ->
    NoDup ms
    /\ (forall m, In m ms <-> (m <> EmptyString /\ exists r, committed ops r /\ r_module r = m)).
Proof. exact modules_spec_l. Qed.
Print Assumptions modules_spec.

Theorem modules_answer_exists :
  forall ops, modules_answerb (run ops) (list_modules (run ops)) = true.
Proof. exact list_modules_accepted. Qed.
Print Assumptions modules_answer_exists.

(* add_atomic.  After any history: an add() that returns appends the whole serialisable part of its batch (traces
   that fail to serialise are skipped, the others all land); an add() that does not return appends nothing; no other
   operation writes; and so the table is always the in-order concatenation of whole batches. *)
Theorem add_atomic :
  forall ops : list op,
    (forall b, run (ops ++ [Add b]) = run ops ++ serialisable b)
    /\ (forall b, run (ops ++ [AddAborted b]) = run ops)
    /\ (forall o, (forall b, o <> Add b) -> run (ops ++ [o]) = run ops)
    /\ run ops = List.concat (map serialisable (added ops)).
Proof. exact add_atomic_general. Qed.
Print Assumptions add_atomic.

Theorem add_not_torn :
  forall ops b r, In (Some r) b ->
    In r (run (ops ++ [Add b])) /\ (In r (run (ops ++ [AddAborted b])) <-> In r (run ops)).
Proof. exact batch_not_torn. Qed.
Print Assumptions add_not_torn.

(* history_refines_set.  The table, read as a set, is the abstract store obtained by folding the specification's
   step over the same history; and that set is `committed`. *)
Theorem history_refines_set :
  forall ops r, In r (run ops) <-> spec_run ops r.
Proof. exact history_refines_set_l. Qed.
Print Assumptions history_refines_set.

Theorem spec_is_committed :
  forall ops r, spec_run ops r <-> (exists b, In (Add b) ops /\ In (Some r) b).
Proof. exact spec_run_committed. Qed.
Print Assumptions spec_is_committed.

(* every serial order of the same operations is indistinguishable: whichever order SQLite's lock serialises 2..16
   concurrent writers in, the same answers are the correct ones *)
Theorem schedule_irrelevant :
  forall ops ops', Permutation ops ops' ->
    (forall r, In r (run ops) <-> In r (run ops'))
    /\ (forall m p n out, filter_answer_spec ops m p n out <-> filter_answer_spec ops' m p n out)
    /\ (forall ms, modules_answer_spec ops ms <-> modules_answer_spec ops' ms).
Proof. exact schedule_irrelevant_l. Qed.
Print Assumptions schedule_irrelevant.

(* ------------------------------------------------------------------------------------------------ *)
(* non-vacuity                                                                                      *)
(* ------------------------------------------------------------------------------------------------ *)
Open Scope string_scope.
Definition xr (m q : string) : row := mkRow m q "{}" (Some "int") None.
Definition ex_ops : list op :=
  [ Add [Some (xr "m" "my_func"); None; Some (xr "m" "myXfunc"); Some (xr "m" "MY_FUNC")];
    AddAborted [Some (xr "m" "my_func_lost")];
    Reopen;
    Filter "m" (Some "my") 1%N;
    Add [Some (xr "m" "my_func"); Some (xr "m" "Foo.bar"); None; Some (xr "M" "foo"); Some (xr "m" "a%b");
         Some (xr "m" "aXXb"); Some (xr "" "foo")];
    ListModules ].
Open Scope list_scope.

(* the code the model stands for has the shape the model assumes (checked against the regenerated constants) *)
Example ex_store_shape_recognised : store_shape_ok = true /\ code_matcher = Some exact_prefix.
Proof. split; reflexivity. Qed.

(* the relation accepts the right answers on the colliding alphabet and rejects the ones LIKE gives *)
Example ex_filter_spec_nonvacuous :
  filter_answerb (run ex_ops) "m" (Some "my_func"%string) 2000 [xr "m" "my_func"] = true
  /\ filter_answerb (run ex_ops) "m" (Some "my_func"%string) 2000
       [xr "m" "my_func"; xr "m" "myXfunc"; xr "m" "MY_FUNC"] = false
  /\ filter_answerb (run ex_ops) "m" (Some "foo"%string) 2000 [] = true
  /\ filter_answerb (run ex_ops) "m" (Some "foo"%string) 2000 [xr "m" "Foo.bar"] = false
  /\ filter_answerb (run ex_ops) "m" (Some "a%b"%string) 2000 [xr "m" "a%b"] = true
  /\ filter_answerb (run ex_ops) "m" (Some "a%b"%string) 2000 [xr "m" "a%b"; xr "m" "aXXb"] = false
  /\ filter_answerb (run ex_ops) "m" None 2 [xr "m" "aXXb"; xr "m" "MY_FUNC"] = true
  /\ filter_answerb (run ex_ops) "m" None 2 [xr "m" "aXXb"] = false
  /\ filter_answerb (run ex_ops) "m" None 2000 [xr "m" "my_func"; xr "m" "myXfunc"; xr "m" "MY_FUNC";
                                                xr "m" "Foo.bar"; xr "m" "a%b"; xr "m" "aXXb"] = true
  /\ filter_answerb (run ex_ops) "m" None 2000 [xr "m" "my_func"; xr "m" "my_func_lost"] = false
  /\ List.length (run ex_ops) = 9.
Proof. vm_compute. repeat split; reflexivity. Qed.

(* SQLite's LIKE on the same state: it accepts an answer the specification forbids - the defect of the unrepaired
   query, as a closed witness *)
Example ex_like_operator_refuted :
  let out := [xr "m" "my_func"; xr "m" "myXfunc"; xr "m" "MY_FUNC"] in
  answer_okb_with like_prefix (run ex_ops) "m" (Some "my_func"%string) 2000 out = true
  /\ ~ filter_answer_spec ex_ops "m" (Some "my_func"%string) 2000 out
  /\ like_prefix "foo" "Foo.bar" = true /\ starts_withb "foo" "Foo.bar" = false
  /\ like_prefix "a%b" "aXXb" = true /\ starts_withb "a%b" "aXXb" = false.
Proof.
  cbv zeta. split; [vm_compute; reflexivity|]. split; [|vm_compute; repeat split; reflexivity].
  intros [_ [H _]].
  specialize (H (xr "m" "myXfunc") (or_intror (or_introl eq_refl))).
  destruct H as [_ [_ H]]. apply starts_withb_spec in H. vm_compute in H. discriminate.
Qed.

Example ex_modules_spec_nonvacuous :
  modules_answerb (run ex_ops) ["M"; "m"]%string = true
  /\ modules_answerb (run ex_ops) ["m"]%string = false
  /\ modules_answerb (run ex_ops) ["m"; "M"; ""]%string = false
  /\ modules_answerb (run ex_ops) ["m"; "M"; "m"]%string = false.
Proof. vm_compute. repeat split; reflexivity. Qed.

Example ex_add_atomic_nonvacuous :
  run (ex_ops ++ [Add [None; Some (xr "m" "z"); None]]) = run ex_ops ++ [xr "m" "z"]
  /\ run (ex_ops ++ [AddAborted [None; Some (xr "m" "z"); None]]) = run ex_ops
  /\ List.length (added ex_ops) = 2
  /\ serialisable [None; Some (xr "m" "z"); None; Some (xr "m" "y")] = [xr "m" "z"; xr "m" "y"].
Proof. vm_compute. repeat split; reflexivity. Qed.

Example ex_history_refines_set_nonvacuous :
  spec_run ex_ops (xr "m" "aXXb") /\ ~ spec_run ex_ops (xr "m" "my_func_lost").
Proof.
  split.
  - apply spec_is_committed. eexists. split; [right; right; right; right; left; reflexivity|].
    vm_compute. tauto.
  - intro H. apply history_refines_set in H. apply memb_In in H. vm_compute in H. discriminate.
Qed.

Example ex_schedule_irrelevant_nonvacuous :
  Permutation ex_ops (rev ex_ops) /\ run ex_ops <> run (rev ex_ops).
Proof. split; [apply Permutation_rev | vm_compute; discriminate]. Qed.
