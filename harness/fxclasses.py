"""Fixture classes for value generation (importable, so the codec can resolve them)."""


class A:
    pass


class B(A):
    pass


class C(A):
    pass


class D(B, C):
    pass


class E:
    pass


class F(E):
    pass


class X:
    pass


class Y:
    pass


class XY1(X, Y):
    pass


class YX1(Y, X):
    pass


class MyList(list):
    pass


class MyDict(dict):
    pass


class MyInt(int):
    pass


class MyStr(str):
    pass


class FakeStr:
    """hashable object whose __class__ claims to be str (a lazy-string / mock(spec=str) style proxy); type() tells the truth"""
    def __init__(self, s=""):
        self.s = s

    __class__ = property(lambda self: str)

    def __hash__(self):
        return hash(("FakeStr", self.s))

    def __eq__(self, other):
        return type(other) is FakeStr and other.s == self.s

    def __repr__(self):
        return f"FakeStr({self.s!r})"


class _FalsyMeta(type):
    def __len__(cls):
        return 0


class Falsy(metaclass=_FalsyMeta):
    """a class OBJECT that is falsy (its metaclass defines __len__, as registries and record classes do); instances are truthy"""


class WithCall:
    """an ordinary class whose instances are callable: its class is WithCall, not Callable"""
    def __call__(self, *a):
        return 0


class MyTuple(tuple):
    pass


class Outer:
    class Inner:
        pass


def some_function(x):
    return x


def some_generator():
    yield 1


USER_CLASSES = [A, B, C, D, E, F, X, Y, XY1, YX1, MyList, MyDict, MyInt, MyStr, MyTuple, Outer, Outer.Inner]


def _named(n):
    return type(n, (), {"__module__": __name__})


# ordinary user classes whose bare names are those of typing forms and of the rewriters' own method suffixes: nothing may
# treat them as anything but classes
NAMED_LIKE_TYPING = [_named(n) for n in ("Union", "Generator", "TypedDict", "List", "Dict", "Tuple", "Set", "Any", "Optional",
                                         "container_type", "anonymous_TypedDict")]
for _c in NAMED_LIKE_TYPING:          # importable by name, like any other class of this module
    globals()[_c.__name__] = _c
