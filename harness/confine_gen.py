"""C16 helpers: fixture package, source/stub generator, ast -> Gallina reifier, staged runner of the real code.
Everything here is trusted harness code (see harness/props/C16.py TRUSTED_BASE)."""
import ast
import copy
import importlib
import os
import sys
import typing

from harness import common
from harness.common import coq_str, coq_list, coq_opt, coq_bool

# ------------------------------------------------------------------------------------------------
# fixture package (written under ctx.work/fx)
# ------------------------------------------------------------------------------------------------
FIXTURE = {
    "shapes.py": (
        "class Circle:\n    def __init__(self, r=1):\n        self.r = r\n    def __repr__(self):\n        return 'shapes.Circle(%r)' % (self.r,)\n"
        "class Square:\n    def __init__(self, side=1):\n        self.side = side\n        self.r = side\n    def __repr__(self):\n        return 'shapes.Square(%r)' % (self.side,)\n"
        "def area(c):\n    return c.r * c.r\n"),
    "geo/__init__.py": "",
    "geo/pts.py": (
        "class Point:\n    def __init__(self, x=0, y=0):\n        self.x = x\n        self.y = y\n    def __repr__(self):\n        return 'Point(%r, %r)' % (self.x, self.y)\n"),
    "other.py": (
        "class Circle:\n    def __init__(self, r=1):\n        self.r = r + 100\n    def __repr__(self):\n        return 'other.Circle(%r)' % (self.r,)\n"
        "class Thing:\n    def __init__(self, v=0):\n        self.v = v\n    def __repr__(self):\n        return 'Thing(%r)' % (self.v,)\n"),
    # user modules whose names merely start with the names of the two run-time modules
    "typings.py": "class Payload:\n    def __init__(self, v=0):\n        self.v = v\n    def __repr__(self):\n        return 'Payload(%r)' % (self.v,)\n",
    "typing_helpers.py": "class Helper:\n    def __init__(self, v=0):\n        self.v = v\n    def __repr__(self):\n        return 'Helper(%r)' % (self.v,)\n",
    "mypy_extensions_compat.py": "class Compat:\n    def __init__(self, v=0):\n        self.v = v\n    def __repr__(self):\n        return 'Compat(%r)' % (self.v,)\n",
}


PKG = "c16app.sub"          # generated package-mode targets live in this package


def _pkg_fixture():
    """package-relative modules whose tails coincide with the absolute fixture modules (other classes, same API)"""
    def variant(text, tag, off):
        return text.replace("'shapes.", f"'{tag}.shapes.").replace("self.r = r\n", f"self.r = r + {off}\n") \
                   .replace("'Point(", f"'{tag}.Point(").replace("self.x = x\n", f"self.x = x + {off}\n")
    return {
        "c16app/__init__.py": "",
        "c16app/shapes.py": variant(FIXTURE["shapes.py"], "c16app", 1000),
        "c16app/sub/__init__.py": "",
        "c16app/sub/shapes.py": variant(FIXTURE["shapes.py"], "c16app.sub", 2000),
        "c16app/sub/geo/__init__.py": "",
        "c16app/sub/geo/pts.py": variant(FIXTURE["geo/pts.py"], "c16app.sub.geo", 3000),
    }


def mod_path(root, modname):
    return os.path.join(root, *modname.split(".")) + ".py"


def write_fixture(root):
    for rel, text in list(FIXTURE.items()) + list(_pkg_fixture().items()):
        p = os.path.join(root, rel)
        os.makedirs(os.path.dirname(p), exist_ok=True)
        with open(p, "w") as f:
            f.write(text)


# (statement, runtime usage expression or None, allowed placements)
IMPORT_POOL = [
    ("import shapes", "shapes.area(shapes.Circle(3))", "tmfyYFISWl"),
    ("import shapes as sh", "sh.Square(2).side", "tmf"),
    ("from shapes import Circle", "Circle(1).r", "tmfcyYFIENKSWwLlHhTU"),
    ("from shapes import Circle as C", "C(2).r", "tmfccF"),
    ("from shapes import Square, Circle", "Square(1).side + Circle(1).r", "tmf"),
    ("from shapes import Circle as Ci, Square", "Ci(1).r + Square(2).side", "tmc"),
    ("from shapes import Square", "Square(5).side", "tmfcYES"),
    ("from shapes import *", "area(Square(2))", "tm"),
    ("import geo.pts", "geo.pts.Point(1, 2).x", "tmf"),
    ("import geo.pts as gp", "gp.Point(3, 4).y", "tmS"),
    ("import geo", None, "tm"),
    ("from geo import pts", "pts.Point(5, 6).x", "tmf"),
    ("from geo.pts import Point", "Point(7, 8).y", "tmfcyYFIENKSWwLlHhTU"),
    ("from geo.pts import Point as P", "P(9, 1).x", "tmfccY"),
    ("import os", "os.sep", "tmf"),
    ("import os.path", "os.path.basename('a/b')", "tm"),
    ("import os, shapes", "os.sep + str(shapes.area(shapes.Square(2)))", "tm"),
    ("from typing import List", "List is not None", "tm"),
    ("from typing import Dict as D, Optional", "D is not None and Optional is not None", "tm"),
    ("from typing import TYPE_CHECKING", "TYPE_CHECKING", "tmffy"),
    ("import typing", "typing.TYPE_CHECKING", "tm"),
    ("from typing import *", "Optional is not None", "tm"),
    ("from other import Circle", "Circle(4).r", "tmfc"),
    ("from other import Thing", "Thing(1).v", "tmfcYFENKWlhT"),
    ("from other import Thing as Circle", "Circle(1).v", "tfc"),
    ("import other", "other.Thing(2).v", "tmf"),
    ("from mypy_extensions import TypedDict", "TypedDict is not None", "tm"),
    ("import typings", "typings.Payload(1).v", "tmf"),
    ("from typings import Payload", "Payload(2).v", "tmfcYIENKSwLHU"),
    ("from typing_helpers import Helper as H", "H(3).v", "tmc"),
    ("import typing_helpers", "typing_helpers.Helper(4).v", "tm"),
    ("import typing_helpers as th", "th.Helper(6).v", "tm"),
    ("import shapes as shp, os", "shp.area(shp.Square(2))", "tm"),
    ("from mypy_extensions_compat import Compat", "Compat(5).v", "tmf"),
]

# bodies of module-level compound statements other than def / class / if / try-body (multi-line blocks and one-line suites)
BLOCK_SHAPES = {
    "W": "with memoryview(b''):\n    {st}",
    "w": "with memoryview(b''): {st}",
    "L": "for _i in range(1):\n    {st}",
    "l": "for _i in range(1): {st}",
    "H": "while True:\n    {st}\n    break",
    "h": "while True: {st}; break",
    "T": "try:\n    pass\nexcept ImportError:\n    pass\nelse:\n    {st}",
    "U": "try:\n    pass\nfinally:\n    {st}",
}

# relative imports: only for targets generated inside the package PKG
REL_POOL = [
    ("from .shapes import Circle", "Circle(1).r", "tmf"),
    ("from .shapes import Circle as C", "C(1).r", "tm"),
    ("from . import shapes", "shapes.area(shapes.Circle(2))", "tm"),
    ("from ..shapes import Circle", "Circle(1).r", "tmf"),
    ("from ..shapes import Square, Circle", "Square(1).side + Circle(1).r", "tm"),
    ("from .. import shapes", "shapes.area(shapes.Square(3))", "tm"),
    ("from .geo.pts import Point", "Point(1, 2).x", "tmf"),
    ("from .geo import pts", "pts.Point(1, 2).y", "tm"),
]

# hand-written stubs whose new imports carry aliases (MonkeyType's generator never emits them; the property is about the
# confinement step): function -> (import statement, signature)
ALIAS_STUBS = {
    "area_of": ("from shapes import Circle as Ci", "def area_of(c: Ci) -> int: ..."),
    "origin": ("import geo.pts as gp", "def origin(p: gp.Point) -> gp.Point: ..."),
    "thing": ("from other import Thing as T", "def thing(t: T) -> T: ..."),
    "helper": ("import typing_helpers as th", "def helper(h: th.Helper, n: int = ...) -> th.Helper: ..."),
    "payload": ("from typings import Payload as Pl", "def payload(p: Pl) -> int: ..."),
}


# ... and stubs that import the module itself, unaliased (the source may import it under an alias)
MODULE_STUBS = {
    "origin": ("import geo.pts", "def origin(p: geo.pts.Point) -> geo.pts.Point: ..."),
    "helper": ("import typing_helpers", "def helper(h: typing_helpers.Helper, n: int = ...) -> typing_helpers.Helper: ..."),
    "area_of": ("import shapes", "def area_of(c: shapes.Circle) -> int: ..."),
}


def alias_stub(funcs, table=None):
    imps, defs = [], []
    for nm in funcs:
        i, d = (table or ALIAS_STUBS)[nm]
        imps.append(i)
        defs.append(d)
    return "\n".join(sorted(imps)) + "\n\n\n" + "\n\n\n".join(defs) + "\n"


# functions the stub annotates: name -> (source text, argument types, return type, call in run())
def func_pool(fx):
    from monkeytype.typing import get_type
    List, Optional, Dict = typing.List, typing.Optional, typing.Dict
    return {
        "area_of": ("def area_of(c):\n    return c.r * 2\n",
                    {"c": fx["shapes"].Circle}, int, "area_of(_mk('shapes', 'Circle', 3))"),
        "pick": ("def pick(items, flag=None):\n    return items[0]\n",
                 {"items": List[fx["shapes"].Square], "flag": Optional[bool]}, fx["shapes"].Square,
                 "pick([_mk('shapes', 'Square', 4)])"),
        "origin": ("def origin(p):\n    # keeps the point\n    return p\n",
                   {"p": fx["geo.pts"].Point}, fx["geo.pts"].Point, "origin(_mk('geo.pts', 'Point', 1, 2))"),
        "total": ("def total(d, scale=1):\n    return d['a'] * scale\n",
                  {"d": get_type({"a": 1, "b": "x"}, 5), "scale": int}, int, "total({'a': 2, 'b': 'y'})"),
        "rows": ("def rows(ds):\n    return [d['k'] for d in ds]\n",
                 {"ds": List[get_type({"k": 1}, 5)]}, List[int], "rows([{'k': 1}])"),
        "thing": ("def thing(t):\n    return t\n",
                  {"t": fx["other"].Thing}, fx["other"].Thing, "thing(_mk('other', 'Thing', 7))"),
        "clash": ("def clash(c):\n    return c.r\n",
                  {"c": fx["other"].Circle}, int, "clash(_mk('other', 'Circle', 1))"),
        "both": ("def both(a, b):\n    return a.r + b.x\n",
                 {"a": fx["shapes"].Circle, "b": fx["geo.pts"].Point}, int,
                 "both(_mk('shapes', 'Circle', 1), _mk('geo.pts', 'Point', 2, 3))"),
        "payload": ("def payload(p):\n    return p.v\n",
                    {"p": fx["typings"].Payload}, int, "payload(_mk('typings', 'Payload', 3))"),
        "helper": ("def helper(h, n=0):\n    return h\n",
                   {"h": fx["typing_helpers"].Helper, "n": int}, fx["typing_helpers"].Helper,
                   "helper(_mk('typing_helpers', 'Helper', 5))"),
        "compat": ("def compat(xs):\n    return len(xs)\n",
                   {"xs": List[fx["mypy_extensions_compat"].Compat]}, int,
                   "compat([_mk('mypy_extensions_compat', 'Compat', 1)])"),
        "annotated": ("def annotated(n: int) -> int:\n    return n + 1\n", {"n": int}, int, "annotated(1)"),
    }


MK = ("def _mk(mod, cls, *a):\n    m = __import__(mod, fromlist=['_'])\n    return getattr(m, cls)(*a)\n")


def gen_source(rnd, fx, directed=None, funcs=None, minimal=False, package=False):
    """Returns dict(text, funcs=[names], desc).  `directed`: list of (statement, placement) forced in;
    `minimal`: nothing random besides."""
    pool = func_pool(fx)
    lines, helpers, usages, tc_block, tc_else, desc = [], [], [], [], [], []
    head = []
    import_pool = IMPORT_POOL + (REL_POOL * 3 if package else [])
    if not minimal and rnd.random() < 0.3:
        head.append('"""Module docstring."""')
        desc.append("docstring")
    fut = 1.0 if minimal else rnd.random()
    if fut < 0.2:
        head.append("from __future__ import division")
        desc.append("future-division")
    elif fut < 0.3:
        head.append("from __future__ import annotations")
        desc.append("future-annotations")
    picks = list(directed or [])
    for _ in range(0 if minimal else rnd.choice([0, 1, 1, 2, 2, 3, 4])):
        st, use, places = rnd.choice(import_pool)
        picks.append((st, rnd.choice(places)))
    if not minimal:
        rnd.shuffle(picks)
    top, mid = [], []
    need_tc = False
    use_of = {st: use for st, use, _ in IMPORT_POOL + REL_POOL}
    for n, (st, place) in enumerate(picks):
        use = use_of.get(st)
        desc.append(f"{place}:{st}")
        if place == "t":
            top.append(st)
            if use:
                usages.append(use)
        elif place == "m":
            mid.append(st)
            if use:
                usages.append(use)
        elif place == "f":
            body = f"    {st}\n" + (f"    return {use}\n" if use and rnd.random() < 0.8 else "")
            helpers.append(f"def _h{n}():\n{body}")
            usages.append(f"_h{n}()")
        elif place == "c":
            tc_block.append(st)
        elif place in BLOCK_SHAPES:     # run-time import inside a module-level with / for / while / try-else / try-finally
            mid.append(BLOCK_SHAPES[place].format(st=st))
            if use:
                usages.append(use)
        elif place == "N":      # a TYPE_CHECKING block local to a function body
            helpers.append(f"def _h{n}():\n    if TYPE_CHECKING:\n        {st}\n    return {n}\n")
            usages.append(f"_h{n}()")
            need_tc = True
        elif place == "K":      # a TYPE_CHECKING block local to a class body
            helpers.append(f"class Holder{n}:\n    if TYPE_CHECKING:\n        {st}\n    tag = {n}\n")
            usages.append(f"Holder{n}.tag")
            need_tc = True
        elif place == "S":      # several small statements on one line, the import not first
            shape = rnd.choice(["import os; {st}", "import os; {st}; SEMI{n} = {n}", "SEMI{n} = {n}; {st}"])
            (top if rnd.random() < 0.6 else mid).append(shape.format(st=st, n=n))
            if use:
                usages.append(use)
        elif place == "E":      # run-time fallback in the else branch of the TYPE_CHECKING statement
            tc_else.append(st)
            if use:
                usages.append(use)
        elif place == "y":
            nm = st.split()[-1]
            mid.append(f"try:\n    {st}\nexcept ImportError:\n    {nm} = None")
            if use:
                usages.append(use)
        # one-line compound statements (libcst: SimpleStatementSuite instead of IndentedBlock)
        elif place == "Y":
            nm = st.split()[-1]
            mid.append(f"try: {st}\nexcept ImportError: {nm} = None")
            if use:
                usages.append(use)
        elif place == "F":
            helpers.append(f"def _h{n}(): {st}; return {use}\n" if use else f"def _h{n}(): {st}\n")
            usages.append(f"_h{n}()")
        elif place == "I":
            mid.append(f"if LIMIT: {st}")
            if use:
                usages.append(use)
    if tc_block or tc_else:
        if rnd.random() < 0.5:
            top.append("from typing import TYPE_CHECKING")
            tc_head = "if TYPE_CHECKING:"
        else:
            top.append("import typing")
            tc_head = "if typing.TYPE_CHECKING:"
    if need_tc and "from typing import TYPE_CHECKING" not in top:
        top.append("from typing import TYPE_CHECKING")
    lines += head + top
    if mid or (not minimal and rnd.random() < 0.3):
        lines.append("LIMIT = 10")
    lines += mid
    if tc_block or tc_else:
        stmt = tc_head + "\n" + "\n".join("    " + s for s in (tc_block or ["pass"]))
        if tc_else:
            if len(tc_else) > 1 and rnd.random() < 0.4:
                stmt += "\nelif LIMIT:\n    " + tc_else[0] + "\nelse:\n" + "\n".join("    " + s for s in tc_else[1:])
                if not mid:
                    lines.append("LIMIT = 10")
            else:
                stmt += "\nelse:\n" + "\n".join("    " + s for s in tc_else)
        lines.append(stmt)
    if funcs is not None:
        names = list(funcs)
    else:
        names = rnd.sample(sorted(pool), rnd.choice([1, 1, 2, 2, 3]))
        if "clash" in names:
            # a stub importing Circle from two modules is ambiguous in itself (property C11); libcst rejects it
            names = [x for x in names if x not in ("area_of", "both")]
        if rnd.random() < 0.08:
            names = ["annotated"]
    funcs = []
    for nm in names:
        lines.append(pool[nm][0])
        funcs.append(nm)
    if not minimal and rnd.random() < 0.3:
        lines.append("class Local:\n    x = 1\n")
    lines += helpers
    lines.append(MK)
    calls = [pool[nm][3] for nm in funcs] + usages
    lines.append("def run():\n    out = []\n" + "".join(f"    out.append(repr({c}))\n" for c in calls) + "    return out\n")
    return {"text": "\n".join(lines) + "\n", "funcs": funcs, "desc": desc}


def make_stub(modname, fx_root, src, rnd, fx, k):
    """Render the stub with MonkeyType's own stub builder from synthetic call traces of the source's functions."""
    from monkeytype.tracing import CallTrace
    from monkeytype.stubs import build_module_stubs_from_traces
    path = mod_path(fx_root, modname)
    with open(path, "w") as f:
        f.write(src["text"])
    importlib.invalidate_caches()
    mod = importlib.import_module(modname)
    pool = func_pool(fx)
    traces = []
    for nm in src["funcs"]:
        _, args, ret, _ = pool[nm]
        traces.append(CallTrace(getattr(mod, nm), args, ret))
    stubs = build_module_stubs_from_traces(traces, max_typed_dict_size=k)
    sys.modules.pop(modname, None)
    os.unlink(path)
    return stubs[modname].render()


# ------------------------------------------------------------------------------------------------
# the real code, staged
# ------------------------------------------------------------------------------------------------
def apply_only(stub, source, overwrite):
    """Mirror of the first half of cli.apply_stub_using_libcst with confinement on (libcst only)."""
    from libcst import parse_module
    from libcst.codemod import CodemodContext
    from libcst.codemod.visitors import ApplyTypeAnnotationsVisitor
    stub_module = parse_module(stub)
    source_module = parse_module(source)
    context = CodemodContext()
    ApplyTypeAnnotationsVisitor.store_stub_in_context(context, stub_module, overwrite, use_future_annotations=True)
    return ApplyTypeAnnotationsVisitor(context).transform_module(source_module).code


def real_newly(stub, source):
    from libcst import parse_module
    from monkeytype.cli import get_newly_imported_items
    return get_newly_imported_items(parse_module(stub), parse_module(source))


def real_confined(stub, source, overwrite):
    from monkeytype.cli import apply_stub_using_libcst
    return apply_stub_using_libcst(stub, source, overwrite, confine_new_imports_in_type_checking_block=True)


# ------------------------------------------------------------------------------------------------
# ast -> Gallina
# ------------------------------------------------------------------------------------------------
class Unreifiable(Exception):
    pass


def _name(a):
    return f"({coq_str(a.name)}, {coq_opt(coq_str(a.asname) if a.asname else None)})"


def reify_imp(node):
    if isinstance(node, ast.Import):
        return "(IImport %s)" % coq_list(_name(a) for a in node.names)
    md = "." * (node.level or 0) + (node.module or "")
    if len(node.names) == 1 and node.names[0].name == "*":
        return f"(IStar {coq_str(md)})"
    return "(IFrom %s %s)" % (coq_str(md), coq_list(_name(a) for a in node.names))


def _is_tc_test(t):
    return (isinstance(t, ast.Name) and t.id == "TYPE_CHECKING") or \
           (isinstance(t, ast.Attribute) and t.attr == "TYPE_CHECKING" and isinstance(t.value, ast.Name))


def _nested_imports(node, ctx, out):
    """imports below `node` in document order, each with the context it is executed in"""
    for field, value in ast.iter_fields(node):
        children = value if isinstance(value, list) else [value]
        for ch in children:
            if not isinstance(ch, ast.AST):
                continue
            if isinstance(ch, (ast.Import, ast.ImportFrom)):
                out.append((ctx, ch))
            elif isinstance(ch, (ast.FunctionDef, ast.AsyncFunctionDef, ast.ClassDef, ast.Lambda)):
                _nested_imports(ch, "CLocal", out)
            elif isinstance(ch, ast.If) and _is_tc_test(ch.test) and ctx != "CLocal":
                for b in ch.body:
                    if isinstance(b, (ast.Import, ast.ImportFrom)):
                        out.append(("CTC", b))
                    else:
                        _nested_imports(b, "CTC", out)
                for b in ch.orelse:
                    if isinstance(b, (ast.Import, ast.ImportFrom)):
                        out.append((ctx, b))
                    else:
                        _nested_imports(b, ctx, out)
            else:
                _nested_imports(ch, ctx, out)


class _Erase(ast.NodeTransformer):
    """drop annotations of parameters / returns, import statements and `pass`, so that the token of a compound
    statement is what apply and confinement must leave untouched"""

    def _body(self, body):
        return [s for s in body if not isinstance(s, (ast.Import, ast.ImportFrom, ast.Pass))]

    def generic_visit(self, node):
        super().generic_visit(node)
        for f in ("body", "orelse", "finalbody"):
            v = getattr(node, f, None)
            if isinstance(v, list) and (not v or isinstance(v[0], ast.stmt)):
                setattr(node, f, self._body(v))
        return node

    def visit_arg(self, node):
        node.annotation = None
        return node

    def visit_FunctionDef(self, node):
        node.returns = None
        return self.generic_visit(node)

    visit_AsyncFunctionDef = visit_FunctionDef


def _tok(node):
    n = _Erase().visit(copy.deepcopy(node))
    return coq_str(common.digest(ast.dump(n)))


def _header_names(cls):
    seen = []
    for part in list(cls.bases) + [k.value for k in cls.keywords] + list(cls.decorator_list):
        for n in ast.walk(part):
            if isinstance(n, ast.Name) and isinstance(n.ctx, ast.Load) and n.id not in seen:
                seen.append(n.id)
    return seen


def reify_module(text, flags=None):
    """`flags["inexact"]` is set when small statements share a line (`a; b`): each is then abstracted as a statement of
    its own, which is exact for the specification's clauses but not for libcst's notion of the leading import block,
    so such cases are compared with the specification only, not with the model."""
    tree = ast.parse(text)
    out = []
    prev_line = None
    for idx, st in enumerate(tree.body):
        if prev_line is not None and st.lineno <= prev_line:
            if flags is None:
                raise Unreifiable("two statements on one line")
            flags["inexact"] = True
        prev_line = st.end_lineno
        if idx == 0 and isinstance(st, ast.Expr) and isinstance(st.value, ast.Constant) and isinstance(st.value.value, str):
            out.append(f"SDoc {_tok(st)}")
        elif idx == 0 and isinstance(st, ast.Assign) and len(st.targets) == 1 and isinstance(st.targets[0], ast.Name) \
                and st.targets[0].id == "__strict__":
            out.append(f"SDoc {_tok(st)}")
        elif isinstance(st, (ast.Import, ast.ImportFrom)):
            out.append(f"SImp {reify_imp(st)}")
        elif isinstance(st, ast.If) and _is_tc_test(st.test) and not st.orelse and \
                all(isinstance(b, (ast.Import, ast.ImportFrom, ast.Pass)) for b in st.body):
            out.append("SIfTC %s" % coq_list(reify_imp(b) for b in st.body if not isinstance(b, ast.Pass)))
        elif isinstance(st, ast.If) and _is_tc_test(st.test) and st.orelse and \
                all(isinstance(b, (ast.Import, ast.ImportFrom, ast.Pass)) for b in st.body):
            # `if TYPE_CHECKING: <imports> else/elif: ...` is abstracted as the block followed by a compound statement
            # holding what the other branches import (nothing is ever inserted between two non-import statements)
            out.append("SIfTC %s" % coq_list(reify_imp(b) for b in st.body if not isinstance(b, ast.Pass)))
            body = []
            for b in st.orelse:
                if isinstance(b, (ast.Import, ast.ImportFrom)):
                    body.append(("CRun", b))
                else:
                    _nested_imports(b, "CRun", body)
            out.append("SComp %s %s" % (_tok(st), coq_list(f"({c}, {reify_imp(i)})" for c, i in body)))
        elif isinstance(st, ast.ClassDef):
            body = []
            _nested_imports(st, "CLocal", body)
            out.append("SClass %s %s %s %s" % (coq_str(st.name), coq_list(coq_str(n) for n in _header_names(st)), _tok(st),
                                               coq_list(f"({c}, {reify_imp(i)})" for c, i in body)))
        elif isinstance(st, (ast.FunctionDef, ast.AsyncFunctionDef, ast.If, ast.Try, ast.With, ast.AsyncWith, ast.For,
                             ast.AsyncFor, ast.While, ast.Match)) or hasattr(ast, "TryStar") and isinstance(st, ast.TryStar):
            body = []
            if isinstance(st, (ast.FunctionDef, ast.AsyncFunctionDef)):
                _nested_imports(st, "CLocal", body)
            else:
                # wrap so that a top-level `if TYPE_CHECKING:` with other content is classified by the same rule
                _nested_imports(ast.Module(body=[st], type_ignores=[]), "CRun", body)
            out.append("SComp %s %s" % (_tok(st), coq_list(f"({c}, {reify_imp(i)})" for c, i in body)))
        else:
            out.append(f"SOther {_tok(st)}")
    return coq_list(out)


def reify_item(it):
    if getattr(it, "relative", 0):
        return f'(Item {coq_str("?relative:" + it.module_name)} None None)'
    return "(Item %s %s %s)" % (coq_str(it.module_name), coq_opt(coq_str(it.obj_name) if it.obj_name else None),
                                coq_opt(coq_str(it.alias) if it.alias else None))
