"""C08 helpers: JSON text -> Gallina `json` term, looked-up Python object -> Gallina `pyobj` term, the live
name-resolution environment as a table, rebuilding a type with every TypedDict's fields reversed.
Everything fails closed: an unrecognised thing becomes a constructor no model output equals."""
import importlib
import json
import types
import typing

from harness import common
from harness.common import coq_list, coq_N, coq_str

EXN = {"AttributeError", "KeyError", "TypeError", "NameLookupError", "InvalidTypeError"}


def exn_term(e: BaseException) -> str:
    n = type(e).__name__
    return f"(Raises {n})" if n in EXN else "(Raises OtherError)"


class Interner:
    """Frequent strings become short Definitions in the shard header (keeps case files small)."""

    def __init__(self):
        self.names = {}

    def s(self, x: str) -> str:
        if x not in self.names:
            self.names[x] = f"s{len(self.names)}_"
        return self.names[x]

    def header(self) -> str:
        return "\n".join(f"Definition {n} : string := {coq_str(x)}." for x, n in self.names.items())


def json_term(x, it: Interner) -> str:
    """Result of json.loads -> Gallina json (object keys in the order of the text)."""
    if x is None:
        return "JNull"
    if x is True or x is False:
        return f"(JBool {common.coq_bool(x)})"
    if isinstance(x, str):
        return f"(JStr {it.s(x)})"
    if isinstance(x, list):
        return f"(JArr {coq_list(json_term(e, it) for e in x)})"
    if isinstance(x, dict):
        return "(JObj %s)" % coq_list(f"({it.s(k)}, {json_term(v, it)})" for k, v in x.items())
    return "JOpaque"


def json_text_term(text: str, it: Interner) -> str:
    return json_term(json.loads(text), it)


def walk_names(x, out: set):
    """Every (module, qualname) pair of strings that a decoder could look up in this tree."""
    if isinstance(x, dict):
        m, q = x.get("module"), x.get("qualname")
        if isinstance(m, str) and isinstance(q, str):
            out.add((m, q))
        for v in x.values():
            walk_names(v, out)
    elif isinstance(x, list):
        for v in x:
            walk_names(v, out)


class FuncTable:
    """Numbers function objects by identity."""

    def __init__(self):
        self.by_id = {}
        self.objs = []

    def of(self, f) -> int:
        if id(f) not in self.by_id:
            self.by_id[id(f)] = len(self.objs)
            self.objs.append(f)
        return self.by_id[id(f)]

    def name_table(self) -> str:
        rows = []
        for i, f in enumerate(self.objs):
            m = getattr(f, "__module__", None)
            q = getattr(f, "__qualname__", None)
            m = m if isinstance(m, str) else "?no-module"
            q = q if isinstance(q, str) else "?no-qualname"
            rows.append(f"({coq_N(i)}, ({coq_str(m)}, {coq_str(q)}))")
        return coq_list(rows)


_GENERICS = None


def _generics():
    global _GENERICS
    if _GENERICS is None:
        _GENERICS = [(typing.Union, "GUnion"), (typing.List, "GList"), (typing.Set, "GSet"), (typing.Dict, "GDict"),
                     (typing.DefaultDict, "GDefaultDict"), (typing.Tuple, "GTuple"), (typing.Type, "GType"),
                     (typing.Iterator, "GIterator"), (typing.Generator, "GGenerator"), (typing.Callable, "GCallable")]
    return _GENERICS


def _is_generic(o) -> bool:
    # the definition of compat.is_generic, restated (not imported: this is the oracle side)
    return o is typing.Union or isinstance(o, (typing._GenericAlias, typing._SpecialGenericAlias))


def _own_qualname(o) -> str:
    """getattr(o, "__qualname__", <absent>) as an option string (a non-str value equals no recorded name)"""
    try:
        q = o.__qualname__
    except AttributeError:
        return "None"
    except Exception:
        return f"(Some {coq_str('?unreadable-qualname')})"
    return f"(Some {coq_str(q if isinstance(q, str) else '?non-str-qualname')})"


def obj_term(o, ct: common.ClassTable, ft: FuncTable, depth=0) -> str:
    """A Python object found by name -> Gallina pyobj, in the order the code under test inspects it."""
    if depth > 20:
        return f"(OOther {_own_qualname(o)})"
    if o is typing.Any:
        return "OAny"
    for g, name in _generics():
        if o is g:
            return f"(OGen {name})"
    if _is_generic(o):
        nm = getattr(o, "_name", None) or "?anonymous-generic"
        return f"(OGen (GOther {coq_str('?' + str(nm))}))"
    if isinstance(o, type):
        return f"(OClass {coq_N(ct.of(o))})"
    try:
        wrapped = o.__wrapped__
        has = True
    except AttributeError:
        has = False
    except Exception:
        return f"(OOther {_own_qualname(o)})"
    if has:
        return f"(OWrapper {_own_qualname(o)} {obj_term(wrapped, ct, ft, depth + 1)})"
    if isinstance(o, types.MethodType):
        return f"(OBound {obj_term(o.__func__, ct, ft, depth + 1)})"
    if isinstance(o, property):
        fget = "None" if o.fget is None else f"(Some {obj_term(o.fget, ct, ft, depth + 1)})"
        return f"(OProperty {fget} {common.coq_bool(o.fset is not None)} {common.coq_bool(o.fdel is not None)})"
    if isinstance(o, types.FunctionType):
        return f"(OFunc {coq_N(ft.of(o))})"
    if isinstance(o, types.BuiltinFunctionType):
        return f"(OBuiltin {coq_N(ft.of(o))})"
    return f"(OOther {_own_qualname(o)})"


def resolve_live(module: str, qualname: str):
    """importlib + getattr walk, written independently of util.get_name_in_module.
    Returns ('nomodule'|'noattr'|'found', obj)."""
    try:
        obj = importlib.import_module(module)
    except ModuleNotFoundError:
        return "nomodule", None
    except Exception:
        return "unknown", None
    for part in qualname.split("."):
        try:
            obj = getattr(obj, part)
        except AttributeError:
            return "noattr", None
        except Exception:
            return "unknown", None
    return "found", obj


def env_table(names, ct: common.ClassTable, ft: FuncTable) -> str:
    rows = []
    for m, q in sorted(names):
        kind, obj = resolve_live(m, q)
        if kind == "nomodule":
            l = "LNoModule"
        elif kind == "noattr":
            l = "LNoAttr"
        elif kind == "found":
            l = f"(LFound {obj_term(obj, ct, ft)})"
        else:
            l = "LUnknown"
        rows.append(f"({coq_str(m)}, {coq_str(q)}, {l})")
    return coq_list(rows)


def class_name_table(ct: common.ClassTable) -> str:
    rows = []
    for c, n in sorted(ct.code.items(), key=lambda kv: kv[1]):
        m = getattr(c, "__module__", None)     # what encoding.py reads (type.__dict__["__module__"] is a descriptor)
        q = getattr(c, "__qualname__", None)
        m = m if isinstance(m, str) else "?no-module"
        q = q if isinstance(q, str) else "?no-qualname"
        rows.append(f"({coq_N(n)}, ({coq_str(m)}, {coq_str(q)}))")
    return coq_list(rows)


def hidden_table(ct: common.ClassTable) -> str:
    from monkeytype import encoding
    return coq_list(f"({coq_str(k)}, {coq_N(ct.of(v))})" for k, v in encoding._HIDDEN_BUILTIN_TYPES.items())


# ------------------------------------------------------------------------------------------------
def _is_td(t):
    from mypy_extensions import _TypedDictMeta
    return isinstance(t, _TypedDictMeta)


def has_td(t) -> bool:
    if _is_td(t):
        return True
    return any(has_td(a) for a in (getattr(t, "__args__", None) or ()) if a is not Ellipsis and a != ())


def td_sites(t, out: set):
    if _is_td(t):
        out.add(t.__module__)
        for a in t.__annotations__.values():
            td_sites(a, out)
        return
    for a in (getattr(t, "__args__", None) or ()):
        if a is not Ellipsis and a != ():
            td_sites(a, out)


def reverse_fields(t):
    """A structurally identical type in which every anonymous TypedDict lists its fields in reverse
    order, built by monkeytype.typing.make_typed_dict (so: same construction site as a fresh type)."""
    from monkeytype.typing import make_typed_dict
    if _is_td(t):
        ann = t.__annotations__
        if t.__name__ == "DUMMY_NAME" and set(ann) == {"required_fields", "optional_fields"}:
            req = ann["required_fields"].__annotations__
            opt = ann["optional_fields"].__annotations__
            return make_typed_dict(required_fields={k: reverse_fields(v) for k, v in reversed(list(req.items()))},
                                   optional_fields={k: reverse_fields(v) for k, v in reversed(list(opt.items()))})
        raise ValueError("not an anonymous TypedDict")
    args = getattr(t, "__args__", None)
    origin = getattr(t, "__origin__", None)
    if origin is None or args is None or isinstance(t, type) or not has_td(t):
        return t
    new = tuple(a if (a is Ellipsis or a == ()) else reverse_fields(a) for a in args)
    return t.copy_with(new)
