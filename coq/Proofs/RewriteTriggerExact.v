(* Proofs/RewriteTriggerExact.v — C07, last clause, the converse direction: for RemoveEmptyContainers,
   RewriteConfigDict, RewriteLargeUnion and RewriteGenerator the trigger at a visited position (fires) is
   not only necessary but sufficient for the type to change; hence on normal types
        rw r t = t  <->  fires r t = false.
   For RewriteMostSpecificCommonBase the trigger ("all members are classes") is necessary only: two
   classes whose only common base is object are left alone (ex_msb_trigger_not_sufficient). *)
From MT Require Import Types Rewrite RewriteTrigger Hier TypesFacts UnionFacts RewriteMono RewriteTriggerFacts.
From Coq Require Import Lia.
Open Scope list_scope.

(* ---------- list helpers ---------- *)
Lemma map_id_In_inv {A} (f : A -> A) l : map f l = l -> forall x, In x l -> f x = x.
Proof.
  induction l as [|a l IH]; cbn [map]; intros E x Hx; [destruct Hx|].
  injection E as E1 E2. destruct Hx as [<-|Hx]; [exact E1|apply IH; assumption].
Qed.

Lemma fields_map_id_inv (f : ty -> ty) (fs : list (string * ty)) :
  map (fun fd => (fst fd, f (snd fd))) fs = fs -> forall x, In x fs -> f (snd x) = snd x.
Proof.
  intros E x Hx. pose proof (map_id_In_inv _ _ E x Hx) as Q. destruct x as [s t]. cbn [fst snd] in *.
  injection Q as Q. exact Q.
Qed.

Lemma existsb_false_intro {A} (p : A -> bool) l : (forall x, In x l -> p x = false) -> existsb p l = false.
Proof.
  intros H. destruct (existsb p l) eqn:E; [|reflexivity].
  apply existsb_exists in E. destruct E as [x [Hx Px]]. rewrite (H x Hx) in Px. discriminate Px.
Qed.

Lemma filter_length_le {A} (p : A -> bool) l : List.length (filter p l) <= List.length l.
Proof. induction l as [|a l IH]; cbn [filter List.length]; [lia|]. destruct (p a); cbn [List.length]; lia. Qed.

Lemma filter_length_lt {A} (p : A -> bool) l x : In x l -> p x = false -> List.length (filter p l) < List.length l.
Proof.
  induction l as [|a l IH]; intros Hx Px; [destruct Hx|]. cbn [filter List.length]. destruct Hx as [->|Hx].
  - rewrite Px. pose proof (filter_length_le p l). lia.
  - specialize (IH Hx Px). destruct (p a); cbn [List.length]; lia.
Qed.

(* ---------- dedup that drops nothing ---------- *)
Lemma dedup_length_le ts : forall seen, List.length (dedup seen ts) <= List.length ts.
Proof.
  induction ts as [|t r IH]; intros seen; cbn [dedup List.length]; [lia|].
  destruct (negb (has_td t) && existsb (py_eqb t) seen); [specialize (IH seen); lia|].
  cbn [List.length]. specialize (IH (t :: seen)). lia.
Qed.

Lemma dedup_full ts : forall seen, List.length (dedup seen ts) = List.length ts -> dedup seen ts = ts.
Proof.
  induction ts as [|t r IH]; intros seen; cbn [dedup List.length]; [reflexivity|].
  destruct (negb (has_td t) && existsb (py_eqb t) seen).
  - intros E. pose proof (dedup_length_le r seen). lia.
  - cbn [List.length]. intros E. rewrite IH; [reflexivity|lia].
Qed.

(* union_mk of Union-free members yields the Union of xs only by keeping (a prefix-deduplicated copy of) them *)
Lemma union_mk_eq_union l xs :
  forallb (fun t => negb (is_tunion t)) l = true -> union_mk l = TUnion xs ->
  List.length xs <= List.length l /\ (List.length xs = List.length l -> l = xs).
Proof.
  intros NU. unfold union_mk. rewrite (flatten_no_union _ NU).
  pose proof (dedup_length_le l []) as LE. pose proof (dedup_full l []) as FU.
  pose proof (dedup_incl [] l) as IN.
  destruct (dedup [] l) as [|a [|b d]] eqn:D; intros E.
  - injection E as <-. split; [cbn [List.length]; lia|]. intros L. symmetry. apply FU. exact L.
  - subst a. exfalso. assert (Q : In (TUnion xs) l) by (apply IN; left; reflexivity).
    rewrite forallb_forall in NU. specialize (NU _ Q). discriminate NU.
  - injection E as <-. split; [exact LE|]. intros L. symmetry. apply FU. exact L.
Qed.

Section Exact.
Variable h : hierarchy.
Variable bt : bases_table.
Notation rw := (rw h bt).

(* RemoveEmptyContainers and RewriteGenerator never turn a non-Union into a Union *)
Lemma rw_not_union r x : r = RRemoveEmpty \/ r = RGenerator -> is_tunion x = false -> is_tunion (rw r x) = false.
Proof.
  intros [-> | ->] H; destruct x; try reflexivity; try discriminate H.
  cbn [Rewrite.rw]. repeat (match goal with |- context [match ?x with _ => _ end] => destruct x end); reflexivity.
Qed.

Lemma map_rw_not_union r xs : r = RRemoveEmpty \/ r = RGenerator ->
  forallb (fun t => negb (is_tunion t)) xs = true -> forallb (fun t => negb (is_tunion t)) (map (rw r) xs) = true.
Proof.
  intros Hr H. rewrite forallb_forall in *. intros y Hy. apply in_map_iff in Hy. destruct Hy as [x [<- Hx]].
  specialize (H x Hx). rewrite (rw_not_union r x Hr); [reflexivity|]. destruct (is_tunion x); [discriminate H|reflexivity].
Qed.

(* a same-length union_mk of rewritten Union-free members equal to the original means no member changed *)
Lemma union_mk_map_fixed r xs : r = RRemoveEmpty \/ r = RGenerator ->
  forallb (fun t => negb (is_tunion t)) xs = true ->
  union_mk (map (rw r) xs) = TUnion xs -> forall x, In x xs -> rw r x = x.
Proof.
  intros Hr NU E. destruct (union_mk_eq_union _ _ (map_rw_not_union r xs Hr NU) E) as [_ Q].
  apply map_id_In_inv. apply Q. rewrite map_length. reflexivity.
Qed.


Lemma rw_id_fires_aux r :
  r = RRemoveEmpty \/ r = RConfigDict \/ (exists n, r = RLargeUnion n) \/ r = RGenerator ->
  forall p, (forall t, fires r t = p t) ->
  forall t, normal t = true -> rw r t = t ->
  (* the Generator and Union cases are supplied by the caller *)
  (forall a b c, (normal a = true -> rw r a = a -> p a = false) -> (normal b = true -> rw r b = b -> p b = false) ->
                 (normal c = true -> rw r c = c -> p c = false) ->
                 normal (TGenerator a b c) = true -> rw r (TGenerator a b c) = TGenerator a b c ->
                 p (TGenerator a b c) = false) ->
  (forall xs, (forall x, In x xs -> normal x = true -> rw r x = x -> p x = false) ->
              normal (TUnion xs) = true -> rw r (TUnion xs) = TUnion xs -> p (TUnion xs) = false) ->
  (forall x, p (TList x) = p x) -> (forall x, p (TSet x) = p x) -> (forall x, p (TTupleVar x) = p x) ->
  (forall k v, p (TDict k v) = p k || p v) -> (forall xs, p (TTuple xs) = existsb p xs) ->
  (forall rq op, p (TTypedDict rq op) = existsb (fun f => p (snd f)) rq || existsb (fun f => p (snd f)) op) ->
  (forall t, match t with TAny | TCls _ | TCallable | TFwd _ | TType _ | TIterator _ | TDefaultDict _ _ => p t = false
                     | _ => True end) ->
  p t = false.
Proof.
  intros Hr p Hp t N E HG HU PL PS PV PD PT PTD P0.
  revert N E.
  induction t as [ | c | x IH | | x IH | x IH | x IH | k v0 IHk IHv | k v0 IHk IHv | xs IH | x IH
                 | a1 a2 a3 IH1 IH2 IH3 | xs IH | rq op IHr IHo | s ] using ty_ind'; intros N E;
    try exact (P0 TAny); try exact (P0 (TCls c)); try exact (P0 TCallable); try exact (P0 (TFwd s));
    try exact (P0 (TType x)); try exact (P0 (TIterator x)); try exact (P0 (TDefaultDict k v0)).
  - rewrite PL. apply IH; [exact N|].
    destruct Hr as [->|[->|[[n ->]| ->]]]; cbn [Rewrite.rw] in E; injection E as E; exact E.
  - rewrite PS. apply IH; [exact N|].
    destruct Hr as [->|[->|[[n ->]| ->]]]; cbn [Rewrite.rw] in E; injection E as E; exact E.
  - rewrite PD. cbn [normal] in N. apply andb_prop in N. destruct N as [N1 N2].
    assert (E' : rw r k = k /\ rw r v0 = v0).
    { destruct Hr as [->|[->|[[n ->]| ->]]]; cbn [Rewrite.rw] in E; injection E as E1 E2; split; assumption. }
    destruct E' as [E1 E2]. rewrite IHk, IHv; auto.
  - rewrite PT. cbn [normal] in N.
    assert (E' : map (rw r) xs = xs).
    { destruct Hr as [->|[->|[[n ->]| ->]]]; cbn [Rewrite.rw] in E; injection E as E; exact E. }
    rewrite Forall_forall in IH. apply existsb_false_intro. intros x Hx. apply IH;
      [exact Hx|apply (forallb_true_In _ _ N x Hx)|apply (map_id_In_inv _ _ E' x Hx)].
  - rewrite PV. apply IH; [exact N|].
    destruct Hr as [->|[->|[[n ->]| ->]]]; cbn [Rewrite.rw] in E; injection E as E; exact E.
  - apply HG; auto.
  - apply HU; auto. rewrite Forall_forall in IH. exact IH.
  - rewrite PTD. cbn [normal] in N. apply andb_prop in N. destruct N as [N1 N2].
    assert (E' : map (fun f => (fst f, rw r (snd f))) rq = rq /\ map (fun f => (fst f, rw r (snd f))) op = op).
    { destruct Hr as [->|[->|[[n ->]| ->]]]; cbn [Rewrite.rw] in E; injection E as E1 E2; split; assumption. }
    destruct E' as [E1 E2]. rewrite Forall_forall in IHr, IHo.
    apply orb_false_intro; apply existsb_false_intro; intros x Hx.
    + apply IHr; [exact Hx|apply (forallb_true_In _ _ N1 x Hx)|apply (fields_map_id_inv _ _ E1 x Hx)].
    + apply IHo; [exact Hx|apply (forallb_true_In _ _ N2 x Hx)|apply (fields_map_id_inv _ _ E2 x Hx)].
Qed.

Ltac split_norm :=
  repeat match goal with
         | H : _ && _ = true |- _ => apply andb_prop in H; destruct H
         end.

(* the Generator case of the three rewriters that traverse Generator[...] *)
Lemma gen_case r p : r = RRemoveEmpty \/ r = RConfigDict \/ (exists n, r = RLargeUnion n) ->
  (forall a b c, p (TGenerator a b c) = p a || p b || p c) ->
  forall a b c, (normal a = true -> rw r a = a -> p a = false) -> (normal b = true -> rw r b = b -> p b = false) ->
                 (normal c = true -> rw r c = c -> p c = false) ->
                 normal (TGenerator a b c) = true -> rw r (TGenerator a b c) = TGenerator a b c ->
                 p (TGenerator a b c) = false.
Proof.
  intros Hr PG a b c I1 I2 I3 N E. rewrite PG. cbn [normal] in N. split_norm.
  assert (E' : rw r a = a /\ rw r b = b /\ rw r c = c).
  { destruct Hr as [->|[->|[n ->]]]; cbn [Rewrite.rw] in E; injection E as E1 E2 E3; repeat split; assumption. }
  destruct E' as [E1 [E2 E3]]. rewrite I1, I2, I3; auto.
Qed.

Theorem rw_id_fires r t : r <> RCommonBase -> normal t = true -> rw r t = t -> fires r t = false.
Proof.
  intros NR N E. destruct r; try (exfalso; apply NR; reflexivity); try reflexivity; clear NR.
  - (* RemoveEmptyContainers *)
    apply (rw_id_fires_aux RRemoveEmpty (or_introl eq_refl) (fires RRemoveEmpty) (fun _ => eq_refl) t N E);
      try reflexivity; [apply gen_case; [tauto|reflexivity]| |intros []; exact I || reflexivity].
    intros xs IH N' E'.
    cbn [normal] in N'. apply andb_prop in N'. destruct N' as [NM NA]. pose proof (forallb_true_In _ _ NA) as NA'.
    pose proof NM as NM'. unfold normal_members in NM'. apply andb_prop in NM'. destruct NM' as [NM' _].
    apply andb_prop in NM'. destruct NM' as [LN NU].
    cbn [fires fires_union]. cbn [andb]. rewrite rw_rme_union in E'.
    destruct (here_rme xs) eqn:HR.
    + (* a member is dropped: the result has fewer members than xs *)
      exfalso. unfold here_rme in HR. apply existsb_exists in HR. destruct HR as [e [He Pe]].
      assert (Ke : keep xs e = false) by (unfold keep; rewrite Pe; reflexivity).
      pose proof (filter_length_lt (keep xs) xs e He Ke) as LT.
      apply andb_prop in Pe. destruct Pe as [_ Pe]. unfold has_nonempty_sibling in Pe.
      apply existsb_exists in Pe. destruct Pe as [s [Hs Ps]]. apply andb_prop in Ps. destruct Ps as [_ Ps].
      assert (Ks : In s (filter (keep xs) xs)).
      { apply filter_In. split; [exact Hs|]. unfold keep. destruct (is_empty s); [discriminate Ps|reflexivity]. }
      assert (NUk : forallb (fun t => negb (is_tunion t)) (filter (keep xs) xs) = true).
      { rewrite forallb_forall in *. intros y Hy. apply filter_In in Hy. apply NU. tauto. }
      assert (E'' : union_mk (map (rw RRemoveEmpty) (filter (keep xs) xs)) = TUnion xs).
      { destruct (filter (keep xs) xs); [destruct Ks|exact E']. }
      destruct (union_mk_eq_union _ _ (map_rw_not_union RRemoveEmpty _ (or_introl eq_refl) NUk) E'') as [Q _].
      rewrite map_length in Q. lia.
    + cbn [orb]. rewrite (rme_keep_all _ HR) in E'.
      assert (E'' : union_mk (map (rw RRemoveEmpty) xs) = TUnion xs) by (destruct xs; [cbn in LN; discriminate LN|exact E']).
      apply existsb_false_intro. intros x Hx. apply IH; [exact Hx|apply NA'; exact Hx|].
      apply (union_mk_map_fixed RRemoveEmpty xs (or_introl eq_refl) NU E'' x Hx).
  - (* RewriteConfigDict *)
    apply (rw_id_fires_aux RConfigDict (or_intror (or_introl eq_refl)) (fires RConfigDict) (fun _ => eq_refl) t N E);
      try reflexivity; [apply gen_case; [tauto|reflexivity]| |intros []; exact I || reflexivity].
    intros xs _ _ E'. cbn [Rewrite.rw fires fires_union] in *. cbn [andb]. rewrite orb_false_r.
    destruct (here_rcd xs) eqn:HR; [|reflexivity]. exfalso.
    destruct (proj2 (rcd_union_local xs) HR) as [k0 [v0 Q]]. rewrite Q in E'. discriminate E'.
  - (* RewriteLargeUnion *)
    apply (rw_id_fires_aux (RLargeUnion n) (or_intror (or_intror (or_introl (ex_intro _ n eq_refl))))
             (fires (RLargeUnion n)) (fun _ => eq_refl) t N E);
      try reflexivity; [apply gen_case; [right; right; exists n; reflexivity|reflexivity]| |intros []; exact I || reflexivity].
    intros xs _ _ E'. cbn [Rewrite.rw fires fires_union] in *. cbn [andb]. rewrite orb_false_r.
    destruct (here_rlu n xs) eqn:HR; [|reflexivity]. exfalso.
    pose proof (proj2 (rlu_union_local h n xs) HR) as Q. rewrite E' in Q. discriminate Q.
  - (* RewriteGenerator *)
    apply (rw_id_fires_aux RGenerator (or_intror (or_intror (or_intror eq_refl))) (fires RGenerator) (fun _ => eq_refl) t N E);
      try reflexivity; [| |intros []; exact I || reflexivity].
    + intros a b c _ _ _ _ E'. cbn [Rewrite.rw fires any_gen_none] in *.
      repeat (match goal with |- context [match ?x with _ => _ end] => destruct x end); try reflexivity; discriminate E'.
    + intros xs IH N' E'.
      cbn [normal] in N'. apply andb_prop in N'. destruct N' as [NM NA]. pose proof (forallb_true_In _ _ NA) as NA'.
      unfold normal_members in NM. apply andb_prop in NM. destruct NM as [NM _].
      apply andb_prop in NM. destruct NM as [LN NU].
      cbn [fires any_gen_none]. cbn [Rewrite.rw] in E'.
      apply existsb_false_intro. intros x Hx. apply IH; [exact Hx|apply NA'; exact Hx|].
      apply (union_mk_map_fixed RGenerator xs (or_intror eq_refl) NU E' x Hx).
Qed.

(* the trigger is exact for the four rewriters of the default chain *)
Corollary rw_changes_iff_fires r t : r <> RCommonBase -> normal t = true ->
  (rw r t <> t <-> fires r t = true).
Proof.
  intros NR N. split.
  - intros C. destruct (fires r t) eqn:F; [reflexivity|]. exfalso. apply C. apply rw_fires_id; assumption.
  - intros F E. rewrite (rw_id_fires r t NR N E) in F. discriminate F.
Qed.

End Exact.

Print Assumptions rw_id_fires.
Print Assumptions rw_changes_iff_fires.

(* non-vacuity: the hypotheses hold of a type that really changes, and of one that does not *)
Example ex_exact_nonvacuous :
  let t1 := TUnion [TList TAny; TList (TCls 2%N); TCls 1%N] in
  let t0 := TUnion [TList TAny; TSet (TCls 2%N)] in
  RRemoveEmpty <> RCommonBase /\ normal t1 = true /\ fires RRemoveEmpty t1 = true
  /\ rw ex_h ex_bt RRemoveEmpty t1 = TUnion [TList (TCls 2%N); TCls 1%N]
  /\ normal t0 = true /\ fires RRemoveEmpty t0 = false /\ rw ex_h ex_bt RRemoveEmpty t0 = t0.
Proof. split; [discriminate|]. vm_compute. repeat split. Qed.
