(* Model/Apply.v — abstract-syntax model of `monkeytype apply` without confinement
   (cli.py:165-225 driving libcst 1.9.0's ApplyTypeAnnotationsVisitor + AddImportsVisitor).
   Executable definitions only.  libcst is third party: modelled here, not verified.

   A module is a list of [stmt].  Everything that is not a def / class / compound block / import /
   assignment is an opaque token (the harness uses ast.unparse text).  An annotation is a token
   list in which (dotted) names are visible, because libcst rewrites names inside annotations.

   [apply] returns [None] outside the modelled fragment (see [in_fragment]): inputs on which
   libcst starts to *qualify* names (source has `import m` for a module the stub from-imports, or
   binds a stub symbol from another module), stubs with aliased / plain imports, duplicate stub
   class names.  Theorems are stated for [apply ... = Some out]. *)
From Coq Require Import List Bool Arith String Ascii.
Import ListNotations.
Open Scope list_scope.

Definition tok := string.
Inductive atom := AName (p : list string) | ATok (s : string).
Definition anno := list atom.
Inductive pkind := PosOnly | PosOrKw | VarPos | KwOnly | VarKw.
Record param := mkParam { p_name : string; p_kind : pkind; p_anno : option anno; p_default : option tok }.
(* one imported name: `import m [as a]` has i_obj = None; `from m import o [as a]`; star is o = "*" *)
Record item := mkItem { i_mod : string; i_obj : option string; i_alias : option string }.
Record defhdr := mkDef { d_name : string; d_async : bool; d_decos : list tok;
                         d_params : list param; d_ret : option anno }.
Inductive stmt :=
| Def (h : defhdr) (body : list stmt)
| Class (name : string) (decos : list tok) (bases : anno) (body : list stmt)
| Block (head : tok) (body : list stmt)          (* if/else/for/while/with/try... suites; no new scope name *)
| Import (it : item)
| StrExpr (t : tok)                              (* expression statement that is one string literal *)
| Assign (targets : list string) (t : tok)       (* targets = plain-name targets *)
| AnnAssign (target : tok) (a : anno) (value : option tok)
| Other (t : tok).

(* ---------------------------------------------------------------- decidable equality *)
Definition option_eq_dec {A} (d : forall x y : A, {x = y} + {x <> y}) (x y : option A) : {x = y} + {x <> y}.
Proof. decide equality. Defined.
Definition atom_eq_dec (x y : atom) : {x = y} + {x <> y}.
Proof. decide equality; [apply (list_eq_dec string_dec) | apply string_dec]. Defined.
Definition anno_eq_dec : forall x y : anno, {x = y} + {x <> y} := list_eq_dec atom_eq_dec.
Definition pkind_eq_dec (x y : pkind) : {x = y} + {x <> y}.
Proof. decide equality. Defined.
Definition param_eq_dec (x y : param) : {x = y} + {x <> y}.
Proof. decide equality; [apply (option_eq_dec string_dec) | apply (option_eq_dec anno_eq_dec)
                         | apply pkind_eq_dec | apply string_dec]. Defined.
Definition item_eq_dec (x y : item) : {x = y} + {x <> y}.
Proof. decide equality; try apply (option_eq_dec string_dec); apply string_dec. Defined.
Definition defhdr_eq_dec (x y : defhdr) : {x = y} + {x <> y}.
Proof. decide equality; [apply (option_eq_dec anno_eq_dec) | apply (list_eq_dec param_eq_dec)
                         | apply (list_eq_dec string_dec) | apply bool_dec | apply string_dec]. Defined.
Fixpoint stmt_eq_dec (x y : stmt) {struct x} : {x = y} + {x <> y}.
Proof.
  decide equality;
    try apply (list_eq_dec stmt_eq_dec); try apply defhdr_eq_dec; try apply anno_eq_dec;
    try apply (list_eq_dec string_dec); try apply string_dec; try apply item_eq_dec;
    try apply (option_eq_dec string_dec).
Defined.
Definition stmts_eq_dec : forall x y : list stmt, {x = y} + {x <> y} := list_eq_dec stmt_eq_dec.

Definition pkind_eqb (a b : pkind) : bool := if pkind_eq_dec a b then true else false.
Definition str_in (x : string) (l : list string) : bool := existsb (String.eqb x) l.
Definition strs_eqb (a b : list string) : bool := if list_eq_dec string_dec a b then true else false.

(* ---------------------------------------------------------------- erasure of annotations *)
Definition erase_param (p : param) : param := mkParam (p_name p) (p_kind p) None (p_default p).
Definition erase_hdr (h : defhdr) : defhdr :=
  mkDef (d_name h) (d_async h) (d_decos h) (map erase_param (d_params h)) None.
Fixpoint erase_stmt (s : stmt) : stmt :=
  match s with
  | Def h body => Def (erase_hdr h) (map erase_stmt body)
  | Class n d b body => Class n d b (map erase_stmt body)
  | Block t body => Block t (map erase_stmt body)
  | _ => s
  end.

(* ---------------------------------------------------------------- the stub, as libcst's TypeCollector reads it *)
Section Lookup.
Context {A : Type}.
Fixpoint assoc (k : string) (l : list (string * A)) : option A :=
  match l with [] => None | (k', v) :: r => if String.eqb k k' then Some v else assoc k r end.
End Lookup.

Definition join_dots (p : list string) : string := String.concat "." p.

(* stub from-imports: bound name -> module (plain, unaliased from-imports only; see in_fragment) *)
Fixpoint stub_symbols (ss : list stmt) : list (string * string) :=
  match ss with
  | [] => []
  | Import (mkItem m (Some o) None) :: r => (o, m) :: stub_symbols r
  | _ :: r => stub_symbols r
  end.

(* _TypeCollectorDequalifier on one annotation (no-qualification fragment):
   bare names stay and may need `from m import x`; ANY dotted name a.b.c is replaced by its last
   component and `from <resolved a.b> import c` is requested; nothing inside Type[...] is visited. *)
Definition is_type_name (simp : list (string * string)) (x : string) : bool :=
  String.eqb x "Type" && match assoc x simp with None => true | Some m => String.eqb m "typing" end.

Fixpoint resolve_go (simp : list (string * string)) (skip : nat) (prev_type : bool) (a : anno)
  : anno * list (string * string) :=
  match a with
  | [] => ([], [])
  | at1 :: r =>
    match skip with
    | S k =>
      let skip' := match at1 with
                   | ATok "[" => S (S k)
                   | ATok "]" => k
                   | _ => S k
                   end in
      let (r', n) := resolve_go simp skip' false r in (at1 :: r', n)
    | O =>
      match at1 with
      | ATok "[" => if prev_type
                    then let (r', n) := resolve_go simp 1 false r in (at1 :: r', n)
                    else let (r', n) := resolve_go simp 0 false r in (at1 :: r', n)
      | ATok _ => let (r', n) := resolve_go simp 0 false r in (at1 :: r', n)
      | AName [] => let (r', n) := resolve_go simp 0 false r in (at1 :: r', n)
      | AName [x] =>
        let need := match assoc x simp with
                    | Some m => if String.eqb m "builtins" then [] else [(m, x)]
                    | None => [] end in
        let (r', n) := resolve_go simp 0 (is_type_name simp x) r in (at1 :: r', need ++ n)
      | AName (h :: rest) =>
        let q := match assoc h simp with Some m => m :: h :: rest | None => h :: rest end in
        let target := last q ""%string in
        let modname := join_dots (removelast q) in
        let (r', n) := resolve_go simp 0 false r in (AName [target] :: r', (modname, target) :: n)
      end
    end
  end.
Definition resolve (simp : list (string * string)) (a : anno) : anno := fst (resolve_go simp 0 false a).
Definition resolve_needs (simp : list (string * string)) (a : anno) : list (string * string) :=
  snd (resolve_go simp 0 false a).

(* _handle_Parameters dequalifies only `parameters.params` (positional-or-keyword) *)
Definition resolve_param (simp : list (string * string)) (p : param) : param :=
  match p_kind p with
  | PosOrKw => mkParam (p_name p) (p_kind p) (option_map (resolve simp) (p_anno p)) (p_default p)
  | _ => p
  end.
Definition param_needs (simp : list (string * string)) (p : param) : list (string * string) :=
  match p_kind p, p_anno p with
  | PosOrKw, Some a => resolve_needs simp a
  | _, _ => []
  end.
Definition opt_needs (simp : list (string * string)) (o : option anno) : list (string * string) :=
  match o with Some a => resolve_needs simp a | None => [] end.

(* functions of the stub, keyed by qualified path; libcst does not look inside function bodies *)
Fixpoint stub_funs (path : list string) (s : stmt) : list (list string * defhdr) :=
  match s with
  | Def h _ => [(path ++ [d_name h], h)]
  | Class n _ _ body =>
      (fix go (ss : list stmt) := match ss with [] => [] | x :: r => stub_funs (path ++ [n]) x ++ go r end) body
  | Block _ body =>
      (fix go (ss : list stmt) := match ss with [] => [] | x :: r => stub_funs path x ++ go r end) body
  | _ => []
  end.
Definition stub_funs_list (ss : list stmt) : list (list string * defhdr) := flat_map (stub_funs []) ss.

(* classes of the stub in visiting order (class_definitions is keyed by the simple name) *)
Definition cdef := (string * list tok * anno * list stmt)%type.
Definition cdef_name (c : cdef) : string := match c with (n, _, _, _) => n end.
Fixpoint stub_classes (s : stmt) : list cdef :=
  match s with
  | Class n d b body =>
      (n, d, b, body) :: (fix go (ss : list stmt) := match ss with [] => [] | x :: r => stub_classes x ++ go r end) body
  | Block _ body =>
      (fix go (ss : list stmt) := match ss with [] => [] | x :: r => stub_classes x ++ go r end) body
  | _ => []
  end.
Definition stub_classes_list (ss : list stmt) : list cdef := flat_map stub_classes ss.

(* every import request the TypeCollector makes while reading the whole stub *)
Fixpoint stub_needs (simp : list (string * string)) (s : stmt) : list (string * string) :=
  match s with
  | Def h _ => opt_needs simp (d_ret h) ++ flat_map (param_needs simp) (d_params h)
  | Class _ _ bases body =>
      resolve_needs simp bases ++
      (fix go (ss : list stmt) := match ss with [] => [] | x :: r => stub_needs simp x ++ go r end) body
  | Block _ body =>
      (fix go (ss : list stmt) := match ss with [] => [] | x :: r => stub_needs simp x ++ go r end) body
  | AnnAssign _ a _ => resolve_needs simp a
  | _ => []
  end.

(* ---------------------------------------------------------------- the source, as the visitor reads it *)
(* names of classes the transformer visits (not inside function bodies), in leave order *)
Fixpoint classes_in (s : stmt) : list string :=
  match s with
  | Class n _ _ body =>
      (fix go (ss : list stmt) := match ss with [] => [] | x :: r => classes_in x ++ go r end) body ++ [n]
  | Block _ body =>
      (fix go (ss : list stmt) := match ss with [] => [] | x :: r => classes_in x ++ go r end) body
  | _ => []
  end.
Definition classes_in_list (ss : list stmt) : list string := flat_map classes_in ss.

(* GatherGlobalNamesVisitor: module-scope assignment targets and class names *)
Fixpoint global_names (s : stmt) : list string :=
  match s with
  | Class n _ _ _ => [n]
  | Block _ body =>
      (fix go (ss : list stmt) := match ss with [] => [] | x :: r => global_names x ++ go r end) body
  | Assign ts _ => ts
  | AnnAssign t _ _ => [t]
  | _ => []
  end.
Definition global_names_list (ss : list stmt) : list string := flat_map global_names ss.

(* all import items anywhere in the source (GatherImportsVisitor walks everything) *)
Fixpoint all_items (s : stmt) : list item :=
  match s with
  | Def _ body | Class _ _ _ body | Block _ body =>
      (fix go (ss : list stmt) := match ss with [] => [] | x :: r => all_items x ++ go r end) body
  | Import it => [it]
  | _ => []
  end.
Definition all_items_list (ss : list stmt) : list item := flat_map all_items ss.
Definition bound_name (it : item) : string :=
  match i_alias it with Some a => a | None => match i_obj it with Some o => o | None => i_mod it end end.

(* ---------------------------------------------------------------- annotating one function header *)
Definition names_of_kind (k : pkind) (ps : list param) : list string :=
  map p_name (filter (fun p => pkind_eqb (p_kind p) k) ps).
Definition has_kind (k : pkind) (ps : list param) : bool := existsb (fun p => pkind_eqb (p_kind p) k) ps.
Fixpoint remove1 (x : string) (l : list string) : option (list string) :=
  match l with
  | [] => None
  | y :: r => if String.eqb x y then Some r else option_map (cons y) (remove1 x r)
  end.
Fixpoint perm_eqb (a b : list string) : bool :=
  match a with
  | [] => match b with [] => true | _ => false end
  | x :: r => match remove1 x b with Some b' => perm_eqb r b' | None => false end
  end.
(* FunctionKey equality *)
Definition key_eqb (pa : list string) (a : list param) (pb : list string) (b : list param) : bool :=
  strs_eqb pa pb
  && Nat.eqb (List.length (names_of_kind PosOrKw a)) (List.length (names_of_kind PosOrKw b))
  && perm_eqb (names_of_kind KwOnly a) (names_of_kind KwOnly b)
  && Nat.eqb (List.length (names_of_kind PosOnly a)) (List.length (names_of_kind PosOnly b))
  && Bool.eqb (has_kind VarPos a) (has_kind VarPos b)
  && Bool.eqb (has_kind VarKw a) (has_kind VarKw b).
(* _match_signatures with strict_posargs_matching (names must agree position-wise);
   annotation clashes never make a signature incompatible (strict_annotation_matching is off) *)
Definition names_match (a b : list param) : bool :=
  strs_eqb (names_of_kind PosOrKw a) (names_of_kind PosOrKw b)
  && strs_eqb (names_of_kind PosOnly a) (names_of_kind PosOnly b).
(* the dict keeps the LAST stub function with a given key *)
Fixpoint find_last (path : list string) (ps : list param) (fs : list (list string * defhdr)) : option defhdr :=
  match fs with
  | [] => None
  | (p, h) :: r =>
    match find_last path ps r with
    | Some h' => Some h'
    | None => if key_eqb path ps p (d_params h) then Some h else None
    end
  end.

Definition quote (vis gl : list string) (a : anno) : anno :=
  match a with
  | [AName [x]] => if str_in x gl && negb (str_in x vis) then [ATok ("'" ++ x ++ "'")] else a
  | _ => a
  end.

(* annotation the stub offers for source parameter p: looked up by NAME within the same kind group;
   *args / **kwargs are never looked at by libcst's _update_parameters *)
Fixpoint stub_param_anno (name : string) (k : pkind) (sps : list param) : option anno :=
  match sps with
  | [] => None
  | sp :: r =>
    match stub_param_anno name k r with     (* dict comprehension: the last same-named wins *)
    | Some a => Some a
    | None => if String.eqb (p_name sp) name && pkind_eqb (p_kind sp) k then p_anno sp else None
    end
  end.
Definition star_kind (k : pkind) : bool := match k with VarPos | VarKw => true | _ => false end.

Record env := mkEnv { e_ow : bool; e_simp : list (string * string);
                      e_funs : list (list string * defhdr); e_globals : list string }.

Definition offered (e : env) (sh : defhdr) (p : param) : option anno :=
  if star_kind (p_kind p) then None
  else stub_param_anno (p_name p) (p_kind p) (map (resolve_param (e_simp e)) (d_params sh)).
Definition takes (e : env) (cur : option anno) : bool :=
  e_ow e || match cur with None => true | Some _ => false end.

Definition annotate_param (e : env) (vis : list string) (sh : defhdr) (p : param) : param :=
  match offered e sh p with
  | Some a => if takes e (p_anno p) then mkParam (p_name p) (p_kind p) (Some (quote vis (e_globals e) a)) (p_default p)
              else p
  | None => p
  end.
Definition offered_ret (e : env) (sh : defhdr) : option anno := option_map (resolve (e_simp e)) (d_ret sh).
Definition annotate_ret (e : env) (vis : list string) (sh : defhdr) (cur : option anno) : option anno :=
  match offered_ret e sh with
  | Some a => if takes e cur then Some (quote vis (e_globals e) a) else cur
  | None => cur
  end.
Definition matching (e : env) (path : list string) (h : defhdr) : option defhdr :=
  match find_last (path ++ [d_name h]) (d_params h) (e_funs e) with
  | Some sh => if names_match (d_params h) (d_params sh) then Some sh else None
  | None => None
  end.
Definition annotate (e : env) (vis path : list string) (h : defhdr) : defhdr :=
  match matching e path h with
  | Some sh => mkDef (d_name h) (d_async h) (d_decos h)
                     (map (annotate_param e vis sh) (d_params h)) (annotate_ret e vis sh (d_ret h))
  | None => h
  end.
(* does the visitor count an applied annotation here? (annotation_counts) *)
Definition touches_hdr (e : env) (path : list string) (h : defhdr) : bool :=
  match matching e path h with
  | Some sh =>
      existsb (fun p => match offered e sh p with Some _ => takes e (p_anno p) | None => false end) (d_params h)
      || match offered_ret e sh with Some _ => takes e (d_ret h) | None => false end
  | None => false
  end.

(* the walk: function bodies are not entered; classes extend the qualifier; [vis] = classes already left *)
Fixpoint walk (e : env) (vis path : list string) (s : stmt) : stmt :=
  match s with
  | Def h body => Def (annotate e vis path h) body
  | Class n d b body =>
      Class n d b ((fix go (vis : list string) (ss : list stmt) :=
                      match ss with [] => [] | x :: r => walk e vis (path ++ [n]) x :: go (vis ++ classes_in x) r end)
                     vis body)
  | Block t body =>
      Block t ((fix go (vis : list string) (ss : list stmt) :=
                  match ss with [] => [] | x :: r => walk e vis path x :: go (vis ++ classes_in x) r end)
                 vis body)
  | _ => s
  end.
Fixpoint walk_list (e : env) (vis path : list string) (ss : list stmt) : list stmt :=
  match ss with [] => [] | x :: r => walk e vis path x :: walk_list e (vis ++ classes_in x) path r end.

Fixpoint touches (e : env) (path : list string) (s : stmt) : bool :=
  match s with
  | Def h _ => touches_hdr e path h
  | Class n _ _ body =>
      (fix go (ss : list stmt) := match ss with [] => false | x :: r => touches e (path ++ [n]) x || go r end) body
  | Block _ body =>
      (fix go (ss : list stmt) := match ss with [] => false | x :: r => touches e path x || go r end) body
  | _ => false
  end.

(* ---------------------------------------------------------------- AddImportsVisitor *)
Definition is_import (s : stmt) : bool := match s with Import _ => true | _ => false end.
Definition is_from_import (s : stmt) : bool :=
  match s with Import it => match i_obj it with Some _ => true | None => false end | _ => false end.
Fixpoint span_imports (ss : list stmt) : list stmt * list stmt :=
  match ss with
  | s :: r => if is_import s then let (a, b) := span_imports r in (s :: a, b) else ([], ss)
  | [] => ([], [])
  end.
(* (docstring?, leading import block, rest) *)
Definition split_top (ss : list stmt) : list stmt * list stmt * list stmt :=
  match ss with
  | StrExpr t :: r => let (b, rest) := span_imports r in ([StrExpr t], b, rest)
  | _ => let (b, rest) := span_imports ss in ([], b, rest)
  end.

Fixpoint insert_sorted (x : string) (l : list string) : list string :=
  match l with
  | [] => [x]
  | y :: r => if String.eqb x y then l else if String.leb x y then x :: l else y :: insert_sorted x r
  end.
Definition sort_dedup (l : list string) : list string := fold_right insert_sorted [] l.

Definition block_objs (m : string) (block : list stmt) : list string :=
  flat_map (fun s => match s with
                     | Import (mkItem m' (Some o) None) => if String.eqb m m' then [o] else []
                     | _ => [] end) block.
Definition from_of (m : string) (s : stmt) : bool :=
  match s with
  | Import (mkItem m' (Some o) _) => String.eqb m m' && negb (String.eqb o "*")
  | _ => false
  end.
Fixpoint merge_before (m : string) (new : list stmt) (block : list stmt) : option (list stmt) :=
  match block with
  | [] => None
  | s :: r => if from_of m s then Some (new ++ block) else option_map (cons s) (merge_before m new r)
  end.
(* one module's worth of requested names *)
Definition add_module (m : string) (objs : list string) (acc : list stmt * list stmt) : list stmt * list stmt :=
  let (block, fresh) := acc in
  let have := block_objs m block in
  if str_in "*" have then acc else
  let todo := filter (fun o => negb (str_in o have)) objs in
  match todo with
  | [] => acc
  | _ => let new := map (fun o => Import (mkItem m (Some o) None)) todo in
         match merge_before m new block with
         | Some block' => (block', fresh)
         | None => (block, fresh ++ new)
         end
  end.
Definition objs_for (m : string) (needs : list (string * string)) : list string :=
  sort_dedup (flat_map (fun mo => if String.eqb (fst mo) m then [snd mo] else []) needs).
Definition add_imports (needs : list (string * string)) (ss : list stmt) : list stmt :=
  let '(pre, block, rest) := split_top ss in
  let mods := sort_dedup (map fst needs) in
  let (block', fresh) := fold_left (fun acc m => add_module m (objs_for m needs) acc) mods (block, []) in
  pre ++ block' ++ fresh ++ rest.

(* leave_Module: classes of the stub the source never defined go after the LAST top-level
   from-import (position 0 when there is none) *)
Fixpoint after_last_from (ss : list stmt) : nat :=
  match ss with
  | [] => 0
  | s :: r => match after_last_from r with
              | S k => S (S k)
              | O => if is_from_import s then 1 else 0
              end
  end.
Definition insert_at (n : nat) (new ss : list stmt) : list stmt := firstn n ss ++ new ++ skipn n ss.
Definition fresh_class (simp : list (string * string)) (seen : list string) (c : cdef) : list stmt :=
  match c with
  | (n, d, b, body) => if str_in n seen then [] else [Class n d (resolve simp b) body]   (* bases are dequalified *)
  end.
Definition fresh_classes (simp : list (string * string)) (stub src : list stmt) : list stmt :=
  flat_map (fresh_class simp (classes_in_list src)) (stub_classes_list stub).

(* ---------------------------------------------------------------- the modelled fragment *)
Fixpoint nodup_strs (l : list string) : bool :=
  match l with [] => true | x :: r => negb (str_in x r) && nodup_strs r end.
Definition plain_from (s : stmt) : bool :=
  match s with
  | Import (mkItem _ (Some o) None) => negb (String.eqb o "*")
  | Import _ => false
  | _ => true
  end.
Fixpoint no_nested_imports (s : stmt) : bool :=
  match s with
  | Def _ body | Class _ _ _ body | Block _ body =>
      (fix go (ss : list stmt) := match ss with [] => true | x :: r => negb (is_import x) && no_nested_imports x && go r end) body
  | _ => true
  end.
Definition in_fragment (stub src : list stmt) : bool :=
  let simp := stub_symbols stub in
  let items := all_items_list src in
  let bound := map bound_name items in
  let needs := flat_map (stub_needs simp) stub in
  forallb plain_from stub && forallb no_nested_imports stub
  && nodup_strs (map cdef_name (stub_classes_list stub))
  && nodup_strs (map fst simp)
  (* no module the stub imports from (or would import from) is a name bound by a source import *)
  && forallb (fun om => negb (str_in (snd om) bound)) simp
  && forallb (fun mo => negb (str_in (fst mo) bound)) needs
  (* no stub symbol is bound by a source import from another module *)
  && forallb (fun om => forallb (fun it => negb (String.eqb (bound_name it) (fst om))
                                           || String.eqb (i_mod it) (snd om)) items) simp
  (* a stub symbol is not also defined by the stub itself *)
  && forallb (fun om => negb (str_in (fst om) (map cdef_name (stub_classes_list stub)))) simp.

Definition mk_env (ow : bool) (stub src : list stmt) : env :=
  mkEnv ow (stub_symbols stub) (stub_funs_list stub) (global_names_list src).

Definition apply (ow : bool) (stub src : list stmt) : option (list stmt) :=
  if in_fragment stub src then
    let e := mk_env ow stub src in
    let simp := e_simp e in
    let mid := walk_list e [] [] src in
    let fresh := fresh_classes simp stub src in
    let touched := existsb (touches e []) src || negb (match fresh with [] => true | _ => false end) in
    if touched then
      let withimp := add_imports (flat_map (stub_needs simp) stub) mid in
      Some (insert_at (after_last_from withimp) fresh withimp)
    else Some mid     (* nothing applied: libcst returns the tree it was given (mid = src then) *)
  else None.

(* ---------------------------------------------------------------- erase (the property's observer) *)
(* statements `apply` may add at module level: import items, classes the source does not define,
   and (with confinement) an `if TYPE_CHECKING:` suite of imports *)
Definition top_class_names (ss : list stmt) : list string :=
  flat_map (fun s => match s with Class n _ _ _ => [n] | _ => [] end) ss.
Definition addable (srcnames : list string) (s : stmt) : bool :=
  match s with
  | Import _ => true
  | Class n _ _ _ => negb (str_in n srcnames)
  | Block head body => String.eqb head "if TYPE_CHECKING" && forallb is_import body
  | _ => false
  end.
(* greedy alignment of a result against the (annotation-erased) source: keeps the result statements
   that correspond to source statements, drops added ones, keeps anything else (so a foreign change
   stays visible) *)
Fixpoint align (names : list string) (s : list stmt) (r : list stmt) : list stmt :=
  match r with
  | [] => []
  | x :: r' =>
    match s with
    | y :: s' => if stmt_eq_dec (erase_stmt x) y then x :: align names s' r'
                 else if addable names x then align names s r' else x :: align names s r'
    | [] => if addable names x then align names [] r' else x :: align names [] r'
    end
  end.
Definition core (src out : list stmt) : list stmt := align (top_class_names src) (map erase_stmt src) out.
Definition erase (src out : list stmt) : list stmt := map erase_stmt (core src out).

(* ---------------------------------------------------------------- per-position observers of the property *)
(* position-wise comparison of a source tree with the corresponding result tree ([core src out]) *)
Section Zip.
Context (P : list string -> defhdr -> defhdr -> bool).
Fixpoint zip_defs (path : list string) (s r : stmt) : bool :=
  match s, r with
  | Def h _, Def h' _ => P path h h'
  | Class n _ _ b, Class _ _ _ b' =>
      (fix go (ss rs : list stmt) := match ss, rs with
                                     | x :: s', y :: r' => zip_defs (path ++ [n]) x y && go s' r'
                                     | [], [] => true
                                     | _, _ => false end) b b'
  | Block _ b, Block _ b' =>
      (fix go (ss rs : list stmt) := match ss, rs with
                                     | x :: s', y :: r' => zip_defs path x y && go s' r'
                                     | [], [] => true
                                     | _, _ => false end) b b'
  | _, _ => true
  end.
Fixpoint zip_list (path : list string) (ss rs : list stmt) : bool :=
  match ss, rs with
  | x :: s', y :: r' => zip_defs path x y && zip_list path s' r'
  | [], [] => true
  | _, _ => false
  end.
End Zip.
Fixpoint forallb2 {A B} (f : A -> B -> bool) (a : list A) (b : list B) : bool :=
  match a, b with
  | x :: a', y :: b' => f x y && forallb2 f a' b'
  | [], [] => true
  | _, _ => false
  end.
Definition oanno_eqb (a b : option anno) : bool := if option_eq_dec anno_eq_dec a b then true else false.
Definition anno_eqb (a b : anno) : bool := if anno_eq_dec a b then true else false.

(* existing annotations are kept *)
Definition keeps (cur res : option anno) : bool := match cur with Some _ => oanno_eqb cur res | None => true end.
Definition respects_hdr (_ : list string) (h h' : defhdr) : bool :=
  forallb2 (fun p q => keeps (p_anno p) (p_anno q)) (d_params h) (d_params h') && keeps (d_ret h) (d_ret h').
Definition respectsb (src res : list stmt) : bool := zip_list respects_hdr [] src res.

(* the stub's own (unrewritten) annotation for a source position; star parameters are matched by kind *)
Definition raw_offer (sh : defhdr) (p : param) : option anno :=
  if star_kind (p_kind p)
  then match filter (fun sp => pkind_eqb (p_kind sp) (p_kind p)) (d_params sh) with sp :: _ => p_anno sp | [] => None end
  else stub_param_anno (p_name p) (p_kind p) (d_params sh).
(* "present": the annotation itself, or its forward-reference quotation *)
Definition quoted_form (a : anno) : anno := match a with [AName [x]] => [ATok ("'" ++ x ++ "'")] | _ => a end.
(* the same name, possibly written with the module it is imported from in the stub (libcst qualifies a name
   when the source already has `import <module>`) *)
Definition atom_equiv (simp : list (string * string)) (x y : atom) : bool :=
  if atom_eq_dec x y then true else
  match x, y with
  | AName [n], AName q =>
      match assoc n simp with
      | Some m => String.eqb (last q ""%string) n && String.eqb (join_dots (removelast q)) m
      | None => false
      end
  | _, _ => false
  end.
Definition present (simp : list (string * string)) (a : anno) (res : option anno) : bool :=
  match res with Some b => forallb2 (atom_equiv simp) a b || anno_eqb (quoted_form a) b | None => false end.
(* finding classes of C15 (exact boolean predicates on a position: kind (None = return) and stub annotation) *)
Definition kf_star_param (k : option pkind) : bool := match k with Some k => star_kind k | None => false end.
Definition kf_dotted_name (simp : list (string * string)) (k : option pkind) (a : anno) : bool :=
  match k with
  | Some PosOrKw | None => negb (anno_eqb (resolve simp a) a)
  | _ => false
  end.
Definition complete_pos (simp : list (string * string)) (excl : option pkind -> anno -> bool) (k : option pkind)
           (offer cur res : option anno) : bool :=
  match offer, cur with
  | Some a, None => excl k a || present simp a res
  | _, _ => true
  end.
Definition complete_hdr (e : env) (excl : option pkind -> anno -> bool) (path : list string) (h h' : defhdr) : bool :=
  match matching e path h with
  | Some sh =>
      forallb2 (fun p q => complete_pos (e_simp e) excl (Some (p_kind p)) (raw_offer sh p) (p_anno p) (p_anno q))
               (d_params h) (d_params h')
      && complete_pos (e_simp e) excl None (d_ret sh) (d_ret h) (d_ret h')
  | None => true
  end.
Definition completeb (e : env) (excl : option pkind -> anno -> bool) (src res : list stmt) : bool :=
  zip_list (complete_hdr e excl) [] src res.
Definition excl_none (_ : option pkind) (_ : anno) : bool := false.
Definition excl_star (k : option pkind) (_ : anno) : bool := kf_star_param k.
Definition excl_dotted (simp : list (string * string)) (k : option pkind) (a : anno) : bool := kf_dotted_name simp k a.
Definition excl_known (simp : list (string * string)) (k : option pkind) (a : anno) : bool :=
  kf_star_param k || kf_dotted_name simp k a.

(* a stub generated from this very source fits it: every function of the stub finds, under the same
   qualified path, a source function with the same FunctionKey and the same positional names — otherwise
   libcst silently skips the function and none of its annotations is applied *)
Definition stub_fits (stub src : list stmt) : bool :=
  let sdefs := stub_funs_list src in
  forallb (fun ph => existsb (fun qh => key_eqb (fst qh) (d_params (snd qh)) (fst ph) (d_params (snd ph))
                                        && names_match (d_params (snd qh)) (d_params (snd ph))) sdefs)
          (stub_funs_list stub).
