(* Proofs/TdBoundedE2EStore.v — C06 across the store: the correspondence relation corrb (what a store round trip
   preserves, C08) preserves "every TypedDict node has between 1 and k fields" and "contains a TypedDict";
   hence both survive encode + decode, and with limit 0 neither the stored JSON nor the decoded type holds a
   TypedDict. *)
From MT Require Import Types Infer TypesFacts TdBounded Encode EncodeSort EncodeRoundtrip PipelineCorr Pipeline.
From Coq Require Import Lia.
Open Scope list_scope.

Lemma bool_eq_iff (a b : bool) : (a = true <-> b = true) -> a = b.
Proof.
  destruct a, b; intros [H1 H2]; try reflexivity.
  - symmetry. apply H1. reflexivity.
  - apply H2. reflexivity.
Qed.

(* ---------- a boolean property of types that corresponding components share is shared by the lists ---------- *)
Section Pointwise.
Variable f : ty -> bool.
Variable Q : ty -> Prop.
Let agree (x : ty) : Prop := forall y, Q x -> corrb x y = true -> f x = f y.

Lemma forallb2_pointwise xs : forall ys,
  Forall agree xs -> Forall Q xs -> forallb2 corrb xs ys = true ->
  forallb f xs = forallb f ys /\ existsb f xs = existsb f ys.
Proof.
  induction xs as [|x xs IH]; intros [|y ys] HA HQ E; cbn [forallb2] in E; try discriminate E; [split; reflexivity|].
  apply andb_prop in E. destruct E as [E1 E2].
  inversion HA as [|? ? A1 A2]; subst. inversion HQ as [|? ? Q1 Q2]; subst.
  destruct (IH ys A2 Q2 E2) as [F X]. cbn [forallb existsb]. rewrite (A1 y Q1 E1), F, X. split; reflexivity.
Qed.

Lemma perm_c_pointwise xs ys :
  Forall agree xs -> Forall Q xs -> perm_c xs ys = true ->
  forallb f xs = forallb f ys /\ existsb f xs = existsb f ys.
Proof.
  intros HA HQ E. rewrite Forall_forall in HA, HQ. split; apply bool_eq_iff; split; intros H.
  - apply forallb_forall. intros y Hy. destruct (perm_c_bwd _ _ E y Hy) as [x [Hx C]].
    rewrite <- (HA x Hx y (HQ x Hx) C). rewrite forallb_forall in H. apply H. exact Hx.
  - apply forallb_forall. intros x Hx. destruct (perm_c_fwd _ _ E x Hx) as [y [Hy C]].
    rewrite (HA x Hx y (HQ x Hx) C). rewrite forallb_forall in H. apply H. exact Hy.
  - apply existsb_exists in H. destruct H as [x [Hx Fx]]. destruct (perm_c_fwd _ _ E x Hx) as [y [Hy C]].
    apply existsb_exists. exists y. split; [exact Hy|]. rewrite <- (HA x Hx y (HQ x Hx) C). exact Fx.
  - apply existsb_exists in H. destruct H as [y [Hy Fy]]. destruct (perm_c_bwd _ _ E y Hy) as [x [Hx C]].
    apply existsb_exists. exists x. split; [exact Hx|]. rewrite (HA x Hx y (HQ x Hx) C). exact Fy.
Qed.

(* TypedDict fields: same number of fields, distinct names on the left, every left field has a corresponding
   right field of the same name *)
Lemma fields_pointwise (xs ys : list (string * ty)) :
  Forall (fun g => agree (snd g)) xs -> Forall (fun g => Q (snd g)) xs ->
  NoDup (map fst xs) -> List.length xs = List.length ys -> fsub_c xs ys = true ->
  forallb (fun g => f (snd g)) xs = forallb (fun g => f (snd g)) ys.
Proof.
  intros HA HQ ND L E. rewrite Forall_forall in HA, HQ. apply bool_eq_iff; split; intros H.
  - apply forallb_forall. intros [s y] Hy. cbn [snd].
    destruct (fsub_c_bwd _ _ ND L E s y Hy) as [x [Hx C]].
    rewrite <- (HA (s, x) Hx y (HQ (s, x) Hx) C). rewrite forallb_forall in H. apply (H (s, x) Hx).
  - apply forallb_forall. intros g Hg. unfold fsub_c in E. rewrite forallb_forall in E. specialize (E g Hg).
    destruct (lookup_f (fst g) ys) as [y|] eqn:LK; [|discriminate E].
    rewrite (HA g Hg y (HQ g Hg) E). apply lookup_f_In in LK. rewrite forallb_forall in H. apply (H (fst g, y) LK).
Qed.
End Pointwise.

(* ---------- corrb preserves "contains a TypedDict" (no premise) ---------- *)
Lemma has_td_corrb a : forall b, corrb a b = true -> has_td a = has_td b.
Proof.
  induction a as [ | c | x IH | | x IH | x IH | x IH | k v0 IHk IHv | k v0 IHk IHv | xs IH | x IH
                 | a1 a2 a3 IH1 IH2 IH3 | xs IH | r o IHr IHo | s ] using ty_ind';
    intros b E; destruct b; cbn [corrb] in E; try discriminate E; cbn [has_td]; try reflexivity;
    try (apply IH; exact E).
  - apply andb_prop in E. destruct E as [E1 E2]. rewrite (IHk _ E1), (IHv _ E2). reflexivity.
  - apply andb_prop in E. destruct E as [E1 E2]. rewrite (IHk _ E1), (IHv _ E2). reflexivity.
  - change (corrb (TTuple xs) (TTuple ts) = true) in E. rewrite corrb_tuple in E.
    apply (forallb2_pointwise has_td (fun _ => True) xs ts); [|apply Forall_forall; intros; exact I|exact E].
    eapply Forall_impl; [|exact IH]. intros x Hx y _ C. apply Hx. exact C.
  - apply andb_prop in E. destruct E as [E E3]. apply andb_prop in E. destruct E as [E1 E2].
    rewrite (IH1 _ E1), (IH2 _ E2), (IH3 _ E3). reflexivity.
  - change (corrb (TUnion xs) (TUnion ts) = true) in E. rewrite corrb_union in E.
    apply (perm_c_pointwise has_td (fun _ => True) xs ts); [|apply Forall_forall; intros; exact I|exact E].
    eapply Forall_impl; [|exact IH]. intros x Hx y _ C. apply Hx. exact C.
Qed.

(* ---------- corrb preserves the size bound of every TypedDict node, for well-formed types.
   Without wf_ty the statement is false: see ex_bd_corrb_needs_wf below. ---------- *)
Lemma bd_corrb k a : forall b, wf_ty a -> corrb a b = true -> td_boundedb k a = td_boundedb k b.
Proof.
  induction a as [ | c | x IH | | x IH | x IH | x IH | kk v0 IHk IHv | kk v0 IHk IHv | xs IH | x IH
                 | a1 a2 a3 IH1 IH2 IH3 | xs IH | r o IHr IHo | s ] using ty_ind';
    intros b W E; destruct b; cbn [corrb] in E; try discriminate E; cbn [td_boundedb]; try reflexivity;
    try (cbn [wf_ty] in W; apply IH; assumption).
  - cbn [wf_ty] in W. destruct W as [W1 W2]. apply andb_prop in E. destruct E as [E1 E2].
    rewrite (IHk _ W1 E1), (IHv _ W2 E2). reflexivity.
  - cbn [wf_ty] in W. destruct W as [W1 W2]. apply andb_prop in E. destruct E as [E1 E2].
    rewrite (IHk _ W1 E1), (IHv _ W2 E2). reflexivity.
  - change (corrb (TTuple xs) (TTuple ts) = true) in E. rewrite corrb_tuple in E. apply wf_TTuple in W.
    apply (forallb2_pointwise (td_boundedb k) wf_ty xs ts); [|exact W|exact E].
    eapply Forall_impl; [|exact IH]. intros x Hx y Wx C. apply Hx; assumption.
  - cbn [wf_ty] in W. destruct W as [W1 [W2 W3]].
    apply andb_prop in E. destruct E as [E E3]. apply andb_prop in E. destruct E as [E1 E2].
    rewrite (IH1 _ W1 E1), (IH2 _ W2 E2), (IH3 _ W3 E3). reflexivity.
  - change (corrb (TUnion xs) (TUnion ts) = true) in E. rewrite corrb_union in E. apply wf_TUnion in W.
    apply (perm_c_pointwise (td_boundedb k) wf_ty xs ts); [|exact W|exact E].
    eapply Forall_impl; [|exact IH]. intros x Hx y Wx C. apply Hx; assumption.
  - change (corrb (TTypedDict r o) (TTypedDict req opt) = true) in E. rewrite corrb_td in E.
    apply wf_TTypedDict in W. destruct W as [ND [Wr Wo]].
    apply andb_prop in E. destruct E as [E Eo]. apply andb_prop in E. destruct E as [E Elo].
    apply andb_prop in E. destruct E as [Elr Er]. apply Nat.eqb_eq in Elr, Elo.
    pose proof (NoDup_app_l _ _ ND) as NDr. pose proof (NoDup_app_r _ _ ND) as NDo.
    rewrite <- Elr, <- Elo.
    rewrite (fields_pointwise (td_boundedb k) wf_ty r req); [|
      eapply Forall_impl; [|exact IHr]; intros g Hg y Wg C; apply Hg; assumption | exact Wr | exact NDr | exact Elr | exact Er].
    rewrite (fields_pointwise (td_boundedb k) wf_ty o opt); [|
      eapply Forall_impl; [|exact IHo]; intros g Hg y Wg C; apply Hg; assumption | exact Wo | exact NDo | exact Elo | exact Eo].
    reflexivity.
Qed.

(* wf_ty is needed: a duplicate field name on the left lets the right side carry an unrelated field *)
Example ex_bd_corrb_needs_wf :
  let big := TTypedDict [("p", TAny); ("q", TAny); ("r", TAny)]%string [] in
  let a := TTypedDict [("x", TAny); ("x", TAny)]%string [] in
  let b := TTypedDict [("x", TAny); ("y", big)]%string [] in
  corrb a b = true /\ td_boundedb 2 a = true /\ td_boundedb 2 b = false.
Proof. vm_compute. repeat split; reflexivity. Qed.

(* ---------- wf_tyb (Model/Encode.v) is wf_ty ---------- *)
Lemma wf_tyb_wf_ty t : wf_tyb t = true -> wf_ty t.
Proof.
  induction t as [ | c | x IH | | x IH | x IH | x IH | a b IHa IHb | a b IHa IHb | xs IH | x IH
                 | a1 a2 a3 IH1 IH2 IH3 | xs IH | r o IHr IHo | s ] using ty_ind';
    intros W; cbn [wf_tyb] in W; cbn [wf_ty]; auto.
  - apply andb_prop in W. destruct W. split; auto.
  - apply andb_prop in W. destruct W. split; auto.
  - apply wf_TTuple. rewrite forallb_forall in W. rewrite Forall_forall in *. auto.
  - apply andb_prop in W. destruct W as [W W3]. apply andb_prop in W. destruct W as [W1 W2]. repeat split; auto.
  - apply wf_TUnion. rewrite forallb_forall in W. rewrite Forall_forall in *. auto.
  - apply wf_TTypedDict. apply andb_prop in W. destruct W as [W Wo]. apply andb_prop in W. destruct W as [ND Wr].
    rewrite forallb_forall in Wr, Wo. rewrite Forall_forall in IHr, IHo.
    split; [apply nodup_strb_NoDup; exact ND|]. split; apply Forall_forall; intros g Hg; auto.
Qed.

Lemma inferable_wf t : inferable t -> wf_ty t.
Proof. intros [_ [_ W]]. apply wf_tyb_wf_ty. exact W. Qed.

(* ---------- what is written to the store: does a JSON tree hold an encoded TypedDict (an object with the
   key "is_typed_dict", typed_dict_to_dict's marker)? ---------- *)
Fixpoint json_has_td (j : json) : bool :=
  match j with
  | JArr l => existsb json_has_td l
  | JObj kvs => existsb (fun kv => String.eqb (fst kv) k_istd || json_has_td (snd kv)) kvs
  | _ => false
  end.

Section Store.
Variable cname : cls -> string * string.
Variable site : string.
Variable env : string -> string -> lookup.
Variable hidden : string -> option cls.
Notation good := (good cname env hidden).
Notation enc0 := (enc0 cname site).

Lemma json_has_td_jtype m q elems :
  json_has_td (jtype m q elems) = match elems with Some l => existsb json_has_td l | None => false end.
Proof. destruct elems; cbn; rewrite ?orb_false_r; reflexivity. Qed.

Lemma json_has_td_jtd name fields : json_has_td (jtd site name fields) = true.
Proof. unfold jtd. cbn. rewrite orb_true_r. reflexivity. Qed.

Lemma existsb_map_enc0 ts :
  Forall (fun x => json_has_td (enc0 x) = has_td x) ts -> existsb json_has_td (map enc0 ts) = existsb has_td ts.
Proof. induction 1 as [|x r Hx _ IH]; [reflexivity|]. cbn [map existsb]. rewrite Hx, IH. reflexivity. Qed.

Lemma json_has_td_enc0 t : good t -> json_has_td (enc0 t) = has_td t.
Proof.
  induction t as [ | c | x IH | | x IH | x IH | x IH | a b IHa IHb | a b IHa IHb | xs IH | x IH
                 | a1 a2 a3 IH1 IH2 IH3 | xs IH | r o IHr IHo | s ] using ty_ind';
    intros G; inversion G; subst; cbn [EncodeRoundtrip.enc0 has_td];
    rewrite ?json_has_td_jtype, ?json_has_td_jtd; try reflexivity; cbn [existsb]; rewrite ?orb_false_r.
  - apply IH; assumption.
  - apply IH; assumption.
  - apply IH; assumption.
  - apply IH; assumption.
  - rewrite IHa, IHb by assumption. reflexivity.
  - rewrite IHa, IHb by assumption. reflexivity.
  - apply existsb_map_enc0. eapply Forall_mp; eassumption.
  - rewrite IH1, IH2, IH3 by assumption. rewrite orb_assoc. reflexivity.
  - apply existsb_map_enc0. eapply Forall_mp; eassumption.
Qed.

(* one type through the store: the decoded copy has the same TypedDict sizes, holds a TypedDict exactly when
   the original does, and so does the JSON in between *)
Theorem store_keeps_td k t j t' :
  typing_ok env -> inferable t /\ Forall (importable cname env hidden) (classes t) ->
  type_to_json cname site t = Ok j -> type_from_json env hidden j = Ok t' ->
  td_boundedb k t' = td_boundedb k t /\ has_td t' = has_td t /\ json_has_td j = has_td t.
Proof.
  intros TOK [[E [N W]] I] EJ DJ.
  pose proof (good_of_bools cname site env hidden t E N W I) as G.
  destruct (type_roundtrip_good cname site env hidden t TOK G) as [H1 [H2 C]].
  rewrite EJ in H1. injection H1 as ->. rewrite DJ in H2. injection H2 as ->.
  split; [symmetry; apply bd_corrb; [apply wf_tyb_wf_ty; exact W|exact C]|].
  pose proof (has_td_corrb _ _ C) as HT. split; [symmetry; exact HT|].
  rewrite json_has_td_enc0 by (apply good_canon; exact G). symmetry. exact HT.
Qed.

Theorem td_survives_store k t j t' :
  typing_ok env -> inferable t /\ Forall (importable cname env hidden) (classes t) ->
  td_boundedb k t = true ->
  type_to_json cname site t = Ok j -> type_from_json env hidden j = Ok t' ->
  td_boundedb k t' = true.
Proof.
  intros TOK OK B EJ DJ. destruct (store_keeps_td k t j t' TOK OK EJ DJ) as [H _]. rewrite H. exact B.
Qed.

Theorem no_td_survives_store t j t' :
  typing_ok env -> inferable t /\ Forall (importable cname env hidden) (classes t) ->
  has_td t = false ->
  type_to_json cname site t = Ok j -> type_from_json env hidden j = Ok t' ->
  json_has_td j = false /\ has_td t' = false.
Proof.
  intros TOK OK B EJ DJ. destruct (store_keeps_td 0 t j t' TOK OK EJ DJ) as [_ [H1 H2]].
  rewrite H1, H2. split; exact B.
Qed.

(* the round trip as a function (Proofs/Pipeline.v: store_rt), over a list of types *)
Lemma store_rt_keeps k t d :
  typing_ok env -> inferable t /\ Forall (importable cname env hidden) (classes t) ->
  store_rt cname site env hidden t = Some d ->
  td_boundedb k d = td_boundedb k t /\ has_td d = has_td t /\ wf_ty d.
Proof.
  intros TOK OK E. apply decoded_copy_iff in E. pose proof (decoded_copy_corr _ _ _ _ _ _ TOK OK E) as C.
  destruct E as [j [EJ DJ]]. destruct (store_keeps_td k t j d TOK OK EJ DJ) as [H1 [H2 _]].
  split; [exact H1|]. split; [exact H2|]. eapply corrb_wf; [|exact C]. apply inferable_wf. apply OK.
Qed.

Lemma store_rt_list k ts ds :
  typing_ok env -> Forall (fun t => inferable t /\ Forall (importable cname env hidden) (classes t)) ts ->
  mapM (store_rt cname site env hidden) ts = Some ds ->
  forallb (td_boundedb k) ds = forallb (td_boundedb k) ts /\ existsb has_td ds = existsb has_td ts
  /\ Forall wf_ty ds.
Proof.
  intros TOK OK HM. apply InferFacts.mapM_Forall2 in HM.
  induction HM as [|t d ts ds Hd _ IH]; [repeat split; constructor|].
  inversion OK as [|? ? O1 O2]; subst. destruct (IH O2) as [A [B C]].
  destruct (store_rt_keeps k t d TOK O1 Hd) as [A1 [B1 C1]].
  cbn [forallb existsb]. rewrite A, B, A1, B1. repeat split. constructor; assumption.
Qed.
End Store.

Print Assumptions bd_corrb.
Print Assumptions has_td_corrb.
Print Assumptions store_keeps_td.
Print Assumptions store_rt_list.
