"""C09 helpers: the colliding alphabet, trace construction, a rig that drives real SQLiteStore objects over several
connections on a scratch file, fault injection, and reification of histories into Gallina terms
(coq/Check/StoreCases.v).  The Python `RefModel` below is used only to *describe* failures and to count
distribution statistics; every verdict is computed in Coq."""
import json
import logging
import os
import sqlite3

from harness import common

QUALNAMES = ["my_func", "myXfunc", "MY_FUNC", "Foo.bar", "foo", "a%b", "aXXb"]
# names with GLOB / regex metacharacters (a prefix test must treat them literally)
GLOB_QUALNAMES = ["a[b", "a[b]c", "a*b", "a?c", "aXc", "a\\b"]
# names that are the immediate successor of a queried prefix (prefix with its last character incremented): a range
# test `BETWEEN prefix AND successor` would return them although they do not start with the prefix
SUCC_QUALNAMES = ["my_fund", "fop", "Fop", "b", "Foo.bas", "a%c"]
MODULES = ["m", "M"]
PREFIXES = [None, "", "my_func", "my_", "MY_FUNC", "my", "foo", "Foo", "FOO", "Foo.bar", "foo.", "a%b", "a_", "a", "%", "_",
            "aXXb", "my_funcX", "a[", "a[b]", "a*", "a?c", "a?", "*", "[", "a\\"]
LIMITS = [0, 1, 2, 3, 2000]
TABLE = "monkeytype_call_traces"


def quiet():
    """serialize_traces logs a traceback per skipped trace; keep the check's output readable"""
    lg = logging.getLogger("monkeytype.encoding")
    lg.addHandler(logging.NullHandler())
    lg.propagate = False


# ------------------------------------------------------------------------------------------------
# traces
# ------------------------------------------------------------------------------------------------
class Evil:
    """a 'type' whose serialisation raises a BaseException (escapes serialize_traces' `except Exception`)"""

    def __getattr__(self, name):
        if name == "__qualname__":
            raise KeyboardInterrupt("evil trace")
        raise AttributeError(name)


_FUNCS = {}


def _func(module, qualname):
    """one function object per (module, qualname): two traces built from the same spec are equal (CallTrace.__eq__)
    and hash alike, i.e. a batch can hold exact duplicates"""
    if (module, qualname) not in _FUNCS:
        def f(a):
            pass
        f.__module__ = module
        f.__qualname__ = qualname
        _FUNCS[(module, qualname)] = f
    return _FUNCS[(module, qualname)]


def _variant(v, tag):
    from typing import Dict, List, Optional
    a = tag or "a"
    if v == 0:
        return {a: int}, int, None
    if v == 1:
        return {a: str}, None, None
    if v == 2:
        return {}, None, int
    if v == 3:
        return {a: List[int], "b": Optional[str]}, Dict[str, int], None
    # 6..10: rows that differ from variant 0 ({a: int} -> int, no yield) in exactly ONE column
    if v == 6:
        return {a: str}, int, None            # only arg_types differs
    if v == 7:
        return {a: int}, str, None            # only return_type differs
    if v == 8:
        return {a: int}, int, int             # only yield_type differs (NULL vs text)
    if v == 9:
        return {a: int}, None, None           # only return_type differs (text vs NULL)
    if v == 10:
        return {a: int}, int, str             # differs from 8 only in yield_type (text vs text)
    if v == 11:
        return {a: int}, str, int             # differs from 8 only in return_type, yield_type not NULL
    if v == 4:   # a wide row (spill campaigns)
        return {f"{a}_{i}": Dict[str, List[int]] for i in range(4)}, int, None
    raise ValueError(v)


def build_trace(spec):
    """spec: ["t", module, qualname, variant, tag|None] | ["bad", kind] | ["evil"]"""
    from monkeytype.tracing import CallTrace
    if spec[0] == "t":
        _, m, q, v, tag = spec
        args, ret, yld = _variant(v, tag)
        return CallTrace(_func(m, q), args, ret, yld)
    if spec[0] == "bad":
        kind = spec[1]
        if kind == "arg":
            return CallTrace(_func("m", "bad_arg"), {"a": 3}, int)          # 3 has no __qualname__
        if kind == "arg_of":     # an unserialisable trace of a function that also has good traces: ["bad", "arg_of", m, q]
            return CallTrace(_func(spec[2], spec[3]), {"a": 3}, int)
        if kind == "ret":
            return CallTrace(_func("m", "bad_ret"), {"a": int}, "not a type")
        if kind == "yield":      # unserialisable only through its yield type
            return CallTrace(_func("m", "bad_yield"), {"a": int}, int, 3.5)
        if kind == "func":
            return CallTrace(object(), {"a": int}, int)                       # no __qualname__ on the callable
        # unserialisable AND unhashable (hash(trace) raises TypeError): a list / dict / set where a type belongs
        if kind == "unhash_arg":
            return CallTrace(_func("m", "bad_unhash_arg"), {"a": [int]}, int)
        if kind == "unhash_ret":
            return CallTrace(_func("m", "bad_unhash_ret"), {"a": int}, {"x": 1})
        if kind == "unhash_set":
            return CallTrace(_func("m", "bad_unhash_set"), {"a": int, "b": {1, 2}}, None, [str])
        raise ValueError(kind)
    if spec[0] == "evil":
        return CallTrace(_func("m", "evil"), {"a": Evil()}, int)
    raise ValueError(spec)


def expected_row(spec):
    """the row the trace serialises to, or None when serialize_traces skips it (same try/except as the code)"""
    from monkeytype.encoding import CallTraceRow
    if spec[0] == "bad":
        # unserialisable by construction (a non-type where a type belongs): whatever the tree's encoder makes of it,
        # the reference has no row for it - a store that commits something for such a trace stores what was not added
        return None
    try:
        r = CallTraceRow.from_trace(build_trace(spec))
    except Exception:
        return None
    return (r.module, r.qualname, r.arg_types, r.return_type, r.yield_type)


_ROW_CACHE = {}


def row_of(spec):
    k = json.dumps(spec)
    if k not in _ROW_CACHE:
        _ROW_CACHE[k] = expected_row(spec)
    return _ROW_CACHE[k]


CONTAINERS = ["list", "tuple", "gen", "iter", "dictkeys"]


def container_of(op):
    """how an `add` op hands its batch to add(traces: Iterable[CallTrace]): optional 5th element of the op"""
    return op[4] if op[0] == "add" and len(op) > 4 and op[4] else "list"


def effective_specs(op):
    """the traces add() is given, in order.  A dict view cannot hold equal keys twice: equal traces collapse there
    (first occurrence stays); a batch with an unhashable trace cannot be a dict view and is passed as an iterator."""
    specs = list(op[2])
    if container_of(op) != "dictkeys":
        return specs
    try:
        seen = {}
        for i, sp in enumerate(specs):
            seen.setdefault(build_trace(sp), i)
    except TypeError:
        return specs
    return [specs[i] for i in sorted(seen.values())]


def make_batch(op):
    """the object passed to add()"""
    kind = container_of(op)
    specs = effective_specs(op)
    traces = [build_trace(sp) for sp in specs]
    if kind == "tuple":
        return tuple(traces)
    if kind == "gen":
        return (t for t in traces)
    if kind == "iter":
        return iter(traces)
    if kind == "dictkeys":
        try:
            d = dict.fromkeys(traces)
        except TypeError:
            return iter(traces)
        if len(d) != len(traces):       # object() callables of "bad func" traces never compare equal; be safe
            return iter(traces)
        return d.keys()
    return traces


def op_rows(op):
    """[row | None] the model's batch of an add / add_fault op"""
    return batch_rows(effective_specs(op) if op[0] == "add" else op[2])


def batch_rows(specs):
    """[row | None] in batch order; evil traces count as None (the whole add aborts anyway)"""
    return [None if s[0] == "evil" else row_of(s) for s in specs]


# ------------------------------------------------------------------------------------------------
# independent observation
# ------------------------------------------------------------------------------------------------
def read_table_or_fail(path, timeout=1.0, table=None):
    """read_table, but an unreadable database is an observation (no rows, not ok), not a harness crash"""
    try:
        return read_table(path, timeout, table or TABLE)
    except sqlite3.Error as e:
        return [("?unreadable", f"{type(e).__name__}: {e}", "", None, None)], False


def read_table(path, timeout=5.0, table=TABLE):
    """(rows in rowid order, ok) through a fresh sqlite3 connection; ok = integrity_check says ok and every
    created_at is a well-formed timestamp"""
    c = sqlite3.connect(path, timeout=timeout)
    try:
        rows = c.execute(f"SELECT module, qualname, arg_types, return_type, yield_type, created_at FROM {table} "
                         f"ORDER BY rowid").fetchall()
        ic = c.execute("PRAGMA integrity_check").fetchall()
    finally:
        c.close()
    ok = ic == [("ok",)]
    import datetime
    for r in rows:
        try:
            datetime.datetime.fromisoformat(r[5])
        except Exception:
            ok = False
    return [tuple(r[:5]) for r in rows], ok


# ------------------------------------------------------------------------------------------------
# rig: several real stores on one file
# ------------------------------------------------------------------------------------------------
class clock_on_day:
    """SQLiteStore.add stamps rows with datetime.datetime.now(); inside this context that clock (as seen by
    monkeytype.db.sqlite only) stands `day` days away from a fixed noon.  day=None leaves the real clock."""

    def __init__(self, day):
        self.day = day

    def __enter__(self):
        if self.day is None:
            return self
        import datetime as real
        import types
        import monkeytype.db.sqlite as sq
        stamp = real.datetime(2024, 3, 10, 12, 0, 0) + real.timedelta(days=self.day)

        class _DT(real.datetime):
            @classmethod
            def now(cls, tz=None):
                return stamp
        self.sq, self.saved = sq, sq.datetime
        sq.datetime = types.SimpleNamespace(datetime=_DT)
        return self

    def __exit__(self, *exc):
        if self.day is not None:
            self.sq.datetime = self.saved
        return False


def read_config(conn):
    """the settings the atomicity / durability argument rests on, read through the store's own connection"""
    try:
        return {"k": "config",
                "journal_mode": str(conn.execute("PRAGMA journal_mode").fetchone()[0]).lower(),
                "synchronous": str(conn.execute("PRAGMA synchronous").fetchone()[0]),
                "locking_mode": str(conn.execute("PRAGMA locking_mode").fetchone()[0]).lower(),
                "isolation_level": "None" if conn.isolation_level is None else str(conn.isolation_level),
                "autocommit": str(getattr(conn, "autocommit", -1))}
    except Exception as e:
        return {"k": "config", "journal_mode": f"?{type(e).__name__}", "synchronous": "?", "locking_mode": "?",
                "isolation_level": "?", "autocommit": "?"}


CONFIG_KEYS = ("journal_mode", "synchronous", "locking_mode", "isolation_level", "autocommit")


def config_ok(obs):
    return (obs["journal_mode"] in ("delete", "truncate", "persist", "wal") and obs["synchronous"] in ("1", "2", "3")
            and obs["locking_mode"] == "normal" and obs["isolation_level"] in ("", "DEFERRED", "IMMEDIATE", "EXCLUSIVE")
            and obs["autocommit"] in ("-1", "False"))


class Rig:
    """conn 0 is SQLiteStore.make_store(path) literally; the others are the same construction with a short busy
    timeout so that an injected lock conflict does not wait 5 s."""

    def __init__(self, path, nconn=3, tables=None):
        self.path = path
        self.tables = list(tables) if tables else [TABLE] * nconn     # table name of each connection's store
        self.stores = [self._open(i) for i in range(len(self.tables))]

    def _open(self, i):
        from monkeytype.db.sqlite import SQLiteStore, create_call_trace_table
        t = self.tables[i]
        if i == 0 and t == TABLE:
            return SQLiteStore.make_store(self.path)
        conn = sqlite3.connect(self.path, timeout=0.02)
        if t == TABLE:
            create_call_trace_table(conn)
            return SQLiteStore(conn)
        create_call_trace_table(conn, t)        # a store on a table of its own in the same file
        return SQLiteStore(conn, t)

    def close(self):
        for s in self.stores:
            try:
                s.conn.close()
            except Exception:
                pass

    def reopen(self, i):
        self.stores[i].conn.close()
        self.stores[i] = self._open(i)

    def do(self, op):
        """execute one op, return the observation dict; an sqlite3 error that escapes the operation's own handling
        (e.g. a store whose connection is unusable) is an observation, not a harness crash"""
        try:
            return self._do(op)
        except sqlite3.Error as e:
            out = {"k": "raised", "err": f"{type(e).__name__}: {e}"}
            if op[0] == "add_fault":
                rows, ok = read_table_or_fail(self.path, table=self.tables[op[1]])
                out.update({"table": rows, "ok": ok, "vm_steps": 0})
            return out

    def _do(self, op):
        kind = op[0]
        if kind == "add":
            ci, specs = op[1], op[2]
            day = op[3] if len(op) > 3 else None       # optional 4th element: the calendar day the add happens on
            try:
                with clock_on_day(day):
                    self.stores[ci].add(make_batch(op))
                return {"k": "none"}
            except Exception as e:
                return {"k": "raised", "err": f"{type(e).__name__}: {e}"}
        if kind == "add_fault":
            _, ci, specs, fault = op
            store = self.stores[ci]
            traces = [build_trace(s) for s in specs]
            blocker = None
            calls = [0]
            if fault[0] == "interrupt":
                k = fault[1]

                def handler():
                    calls[0] += 1
                    return 1 if calls[0] == k else 0
                store.conn.set_progress_handler(handler, 1)
            elif fault[0] == "locked":
                if ci == 0:
                    raise ValueError("lock faults only on short-timeout connections")
                blocker = sqlite3.connect(self.path, timeout=0.02)
                try:
                    blocker.execute("BEGIN IMMEDIATE")
                except sqlite3.OperationalError:      # somebody already holds the write lock: that will do
                    blocker.close()
                    blocker = None
            elif fault[0] == "evil":
                traces.insert(fault[1], build_trace(["evil"]))
            try:
                store.add(traces)
                out = {"k": "none"}
            except BaseException as e:   # KeyboardInterrupt from the evil trace included
                out = {"k": "raised", "err": f"{type(e).__name__}: {e}"}
            finally:
                if fault[0] == "interrupt":
                    store.conn.set_progress_handler(None, 1)
                if blocker is not None:
                    blocker.rollback()
                    blocker.close()
            out["vm_steps"] = calls[0]
            rows, ok = read_table_or_fail(self.path, table=self.tables[ci])
            out["table"] = rows
            out["ok"] = ok
            return out
        if kind == "reopen":
            try:
                self.reopen(op[1])
                return {"k": "none"}
            except Exception as e:
                return {"k": "raised", "err": f"{type(e).__name__}: {e}"}
        if kind == "filter":
            _, ci, m, p, n = op
            try:
                rs = self.stores[ci].filter(m, p, n)
                return {"k": "rows", "rows": [(r.module, r.qualname, r.arg_types, r.return_type, r.yield_type) for r in rs]}
            except Exception as e:
                return {"k": "raised", "err": f"{type(e).__name__}: {e}"}
        if kind == "modules":
            try:
                return {"k": "mods", "mods": list(self.stores[op[1]].list_modules())}
            except Exception as e:
                return {"k": "raised", "err": f"{type(e).__name__}: {e}"}
        if kind == "table":
            rows, ok = read_table_or_fail(self.path, table=op[1] if len(op) > 1 else TABLE)
            return {"k": "table", "table": rows, "ok": ok}
        if kind == "config":
            return read_config(self.stores[op[1]].conn)
        raise ValueError(op)


def split_head(ops):
    """a history may start with the pseudo-operation ["tables", [name per connection]] -> (tables | None, real ops)"""
    if ops and ops[0][0] == "tables":
        return list(ops[0][1]), list(ops[1:])
    return None, list(ops)


def table_of(op, tables):
    """the table an operation touches; None = all (reopen)"""
    if op[0] in ("add", "add_fault", "filter", "modules"):
        return tables[op[1]] if tables else TABLE
    if op[0] == "table":
        return op[1] if len(op) > 1 else TABLE
    return None


def project(steps, tables, t):
    """the sub-history that concerns table t (each table of a file is a store of its own)"""
    return [(op, obs) for op, obs in steps if table_of(op, tables) in (None, t)]


def run_history(path, ops, nconn=3):
    """fresh file -> [(op, obs)] (the ["tables", ...] head, if any, configures the rig and is not a step)"""
    tables, ops = split_head(ops)
    for suffix in ("", "-journal", "-wal", "-shm"):
        if os.path.exists(path + suffix):
            os.remove(path + suffix)
    rig = Rig(path, nconn, tables)
    try:
        return [(op, rig.do(op)) for op in ops]
    finally:
        rig.close()
        for suffix in ("", "-journal"):
            if os.path.exists(path + suffix):
                os.remove(path + suffix)


# ------------------------------------------------------------------------------------------------
# reference constants: the code shape the theorems were proved for.  Used only to evaluate the (shape-independent)
# property predicate when a source extractor fails closed on a changed sqlite.py, so that the search for a
# concrete failing history still runs; the proof obligation is reported broken by the driver in that case anyway.
# ------------------------------------------------------------------------------------------------
_ALL5 = '["module"; "qualname"; "arg_types"; "return_type"; "yield_type"]'
REFERENCE_CONSTANTS_V = f"""From Coq Require Import List String NArith.
Import ListNotations.
Open Scope string_scope.
Definition query_qualname_operator : string := "ExactPrefix".
Definition query_select_columns : list string := {_ALL5}.
Definition query_group_columns : list string := {_ALL5}.
Definition config_query_limit : N := 2000%N.
"""
REFERENCE_STORE_CONSTANTS_V = f"""From Coq Require Import List String.
Import ListNotations.
Open Scope string_scope.
Definition store_table_columns : list string := ["created_at"; "module"; "qualname"; "arg_types"; "return_type"; "yield_type"].
Definition store_insert_values : list string := ["<now>"; "module"; "qualname"; "arg_types"; "return_type"; "yield_type"].
Definition store_add_shape : string := "SerialiseThenOneTransaction".
Definition store_serialise_shape : string := "SkipOnException".
Definition store_qualname_operator : string := "ExactPrefix".
Definition store_select_columns : list string := {_ALL5}.
Definition store_group_columns : list string := {_ALL5}.
Definition store_filter_shape : string := "AllRowsPositional".
Definition store_list_modules_drops_falsy : bool := true.
"""


def build_reference_coq(workdir):
    """private -Q root with Gen/{Constants,StoreConstants}.v = the reference shape, Model/Store.v, Check/StoreCases.v"""
    import shutil
    import subprocess
    root = os.path.join(workdir, "coqref")
    for d in ("Gen", "Model", "Check"):
        os.makedirs(os.path.join(root, d), exist_ok=True)
    with open(os.path.join(root, "Gen", "Constants.v"), "w") as f:
        f.write(REFERENCE_CONSTANTS_V)
    with open(os.path.join(root, "Gen", "StoreConstants.v"), "w") as f:
        f.write(REFERENCE_STORE_CONSTANTS_V)
    shutil.copy(os.path.join(common.COQ, "Model", "Store.v"), os.path.join(root, "Model", "Store.v"))
    shutil.copy(os.path.join(common.COQ, "Check", "StoreCases.v"), os.path.join(root, "Check", "StoreCases.v"))
    for rel in ("Gen/Constants.v", "Gen/StoreConstants.v", "Model/Store.v", "Check/StoreCases.v"):
        p = subprocess.run(["timeout", "300", "coqc", "-q", "-Q", root, "MT", os.path.join(root, rel)],
                           capture_output=True, text=True, cwd=root)
        if p.returncode != 0:
            raise RuntimeError(f"reference build failed on {rel}: " + (p.stdout + p.stderr)[-1500:])
    return root


# ------------------------------------------------------------------------------------------------
# reification
# ------------------------------------------------------------------------------------------------
def _s(x):
    return common.coq_str(x)


def _opt(x):
    if x is None:
        return "None"
    if not isinstance(x, str):
        return f'(Some {_s("?non-text:" + repr(x))})'
    return f"(Some {_s(x)})"


class Interner:
    """rows, batches and query ops get short names defined once in the shard header"""

    def __init__(self):
        import threading
        self.rows = {}
        self.batches = {}
        self.queries = {}
        self.defs = []
        self.lock = threading.RLock()

    def row(self, t):
        with self.lock:
            return self._row(t)

    def batch(self, rows):
        with self.lock:
            return self._batch(rows)

    def _row(self, t):
        t = tuple(t)
        if t not in self.rows:
            name = f"w{len(self.rows)}"
            m, q, a, r, y = t
            # fail closed: a non-text module/qualname/args becomes a string no model row has
            fm = m if isinstance(m, str) else "?non-text:" + repr(m)
            fq = q if isinstance(q, str) else "?non-text:" + repr(q)
            fa = a if isinstance(a, str) else "?non-text:" + repr(a)
            # the JSON texts repeat across rows: one definition per distinct string keeps the file small
            ro = "None" if r is None else f"(Some {self._str(r)})" if isinstance(r, str) else _opt(r)
            yo = "None" if y is None else f"(Some {self._str(y)})" if isinstance(y, str) else _opt(y)
            self.defs.append(f"Definition {name} : row := mkRow {_s(fm)} {_s(fq)} {self._str(fa)} {ro} {yo}.")
            self.rows[t] = name
        return self.rows[t]

    def _str(self, x):
        if not hasattr(self, "strs"):
            self.strs = {}
        if x not in self.strs:
            name = f"s{len(self.strs)}"
            self.defs.append(f"Definition {name} : string := {_s(x)}.")
            self.strs[x] = name
        return self.strs[x]

    @staticmethod
    def _periodic(seq):
        """(block, k) when seq is k >= 3 repetitions of a block of >= 20 elements (row-major campaign batches)"""
        n = len(seq)
        if n < 60:
            return None
        try:
            p = seq.index(seq[0], 1)
        except ValueError:
            return None
        if p < 20 or n % p or n // p < 3 or seq != seq[:p] * (n // p):
            return None
        return seq[:p], n // p

    def rows_term(self, rows):
        with self.lock:
            rows = [tuple(r) for r in rows]
            per = self._periodic(rows)
            if per:
                blk = common.coq_list(self._row(r) for r in per[0])
                return f"(List.concat (List.repeat {blk} {per[1]}))"
            return common.coq_list(self._row(r) for r in rows)

    def _batch(self, rows):
        """rows: [tuple | None]"""
        key = tuple(rows)
        if key not in self.batches:
            name = f"b{len(self.batches)}"
            per = self._periodic(list(rows))
            if per:
                blk = common.coq_list("None" if r is None else f"Some {self.row(r)}" for r in per[0])
                body = f"List.concat (List.repeat {blk} {per[1]})"
            else:
                body = common.coq_list("None" if r is None else f"Some {self.row(r)}" for r in rows)
            self.defs.append(f"Definition {name} : batch := {body}.")
            self.batches[key] = name
        return self.batches[key]

    def query(self, m, p, n):
        key = (m, p, n)
        if key not in self.queries:
            name = f"q{len(self.queries)}"
            pt = "None" if p is None else f"(Some {_s(p)})"
            self.defs.append(f"Definition {name} : op := Filter {_s(m)} {pt} {common.coq_N(n)}.")
            self.queries[key] = name
        return self.queries[key]

    def header(self):
        return "From MT Require Import StoreCases.\nOpen Scope list_scope.\n" + "\n".join(self.defs) + "\n"

    def compile_defs(self, workdir, name="c09defs"):
        """compile the definitions once into <workdir>/<name>.vo; returns the header the case shards start with"""
        workdir = os.path.join(workdir, name + "_lib")      # its own -Q root (workdir itself may hold other roots)
        os.makedirs(workdir, exist_ok=True)
        path = os.path.join(workdir, name + ".v")
        with open(path, "w") as f:
            f.write(self.header())
        import subprocess
        p = subprocess.run(["coqc", "-q", "-Q", common.COQ, "MT", "-Q", workdir, "C09W", path], capture_output=True,
                           text=True, timeout=600, cwd=workdir)
        if p.returncode != 0:
            raise RuntimeError(f"coqc failed on {path}:\n{(p.stdout + p.stderr)[-3000:]}")
        return (f'From MT Require Import StoreCases.\nSet Warnings "-deprecated".\nAdd LoadPath "{workdir}" as C09W.\n'
                f"Require Import C09W.{name}.\nOpen Scope list_scope.\n")


def step_term(it: Interner, op, obs):
    kind = op[0]
    if kind == "add":
        b = it.batch(op_rows(op))
        return f"COp (Add {b}) {'ONone' if obs['k'] == 'none' else 'ORaised'}"
    if kind == "add_fault":
        specs = list(op[2])
        b = it.batch(batch_rows(specs))      # an evil trace contributes no row; its position is irrelevant to the model
        if obs["k"] == "none":
            # the fault did not fire (interrupt point beyond the end): an ordinary add, followed by the table read
            return [f"COp (Add {b}) ONone", f"CTable {it.rows_term(obs['table'])} {common.coq_bool(obs['ok'])}"]
        return f"CAddRaised {b} {it.rows_term(obs['table'])} {common.coq_bool(obs['ok'])}"
    if kind == "reopen":
        return f"COp Reopen {'ONone' if obs['k'] == 'none' else 'ORaised'}"
    if kind == "filter":
        q = it.query(op[2], op[3], op[4])
        if obs["k"] == "rows":
            return f"COp {q} (ORows {it.rows_term(obs['rows'])})"
        return f"COp {q} ORaised"
    if kind == "modules":
        if obs["k"] == "mods":
            ms = common.coq_list(_s(m) if isinstance(m, str) else _s("?non-text:" + repr(m)) for m in obs["mods"])
            return f"COp ListModules (OMods {ms})"
        return "COp ListModules ORaised"
    if kind == "table":
        return f"CTable {it.rows_term(obs['table'])} {common.coq_bool(obs['ok'])}"
    if kind == "config":
        return "CConfig " + " ".join(_s(obs[k]) for k in CONFIG_KEYS)
    raise ValueError(op)


def hist_term(it: Interner, pre_batches, steps):
    """pre_batches: [[row|None]]; steps: [(op, obs)]"""
    terms = []
    for op, obs in steps:
        t = step_term(it, op, obs)
        terms += t if isinstance(t, list) else [t]
    pre = common.coq_list(it.batch(b) for b in pre_batches)
    return f"CHist {pre} {common.coq_list(terms)}"


def step_index_map(steps):
    """Coq step index -> python step index (an un-fired fault expands to two Coq steps)"""
    out = []
    for i, (op, obs) in enumerate(steps):
        out.append(i)
        if op[0] == "add_fault" and obs["k"] == "none":
            out.append(i)
    return out


# ------------------------------------------------------------------------------------------------
# reference (descriptions and statistics only)
# ------------------------------------------------------------------------------------------------
class RefModel:
    def __init__(self, pre=()):
        self.rows = [r for b in pre for r in b if r is not None]

    def apply(self, op, obs):
        if op[0] == "add" and obs["k"] == "none":
            self.rows += [r for r in op_rows(op) if r is not None]
        elif op[0] == "add_fault":
            self.rows = list(obs["table"]) if obs["k"] != "none" else self.rows + [r for r in batch_rows(op[2]) if r is not None]

    def wanted(self, m, p):
        return {r for r in self.rows if r[0] == m and (p is None or (isinstance(r[1], str) and r[1].startswith(p)))}

    def describe_filter(self, op, obs):
        """None when the answer satisfies the property, else a sentence"""
        _, _, m, p, n = op
        if obs["k"] != "rows":
            return f"filter({m!r}, {p!r}, {n}) raised {obs.get('err')}"
        want = self.wanted(m, p)
        out = obs["rows"]
        extra = [r for r in out if r not in want]
        if extra:
            return (f"filter({m!r}, {p!r}, limit={n}) returned qualname(s) {sorted({r[1] for r in extra})} which do not "
                    f"start with {p!r} in module {m!r} (returned {sorted(r[1] for r in out)}, "
                    f"correct set {sorted(r[1] for r in want)})")
        if len(set(out)) != len(out):
            return f"filter({m!r}, {p!r}, limit={n}) returned duplicate rows"
        if len(out) != min(n, len(want)):
            return f"filter({m!r}, {p!r}, limit={n}) returned {len(out)} rows, expected min({n}, {len(want)})"
        return None


# ------------------------------------------------------------------------------------------------
# deterministic batches for the multi-process campaigns (parent and workers compute the same specs)
# ------------------------------------------------------------------------------------------------
def writer_batch(wid, j, size=4):
    """batch j of writer wid: rows tagged w<wid>_b<j> (so rows identify their batch), colliding qualnames, both
    modules, one unserialisable trace at a rotating position"""
    tag = f"w{wid}_b{j}"
    specs = []
    for k in range(size):
        q = QUALNAMES[(wid * 3 + j * 5 + k) % len(QUALNAMES)]
        m = MODULES[(wid + j + k) % 2]
        specs.append(["t", m, q, (wid + k) % 3 if (wid + k) % 3 != 2 else 0, tag])
    pos = (wid + j) % (size + 2)
    if pos <= size:
        specs.insert(pos, ["bad", ["arg", "ret", "func"][(wid + j) % 3]])
    return specs


def kill_batches(wide, n_rows):
    """(A, B): A is committed before the fault, B is the batch being written when the process dies.  B cycles through
    14 distinct rows, so a long transaction stays a short Gallina term."""
    v = 4 if wide else 0
    a = [["t", "m", QUALNAMES[i % 7], v, "A%d" % i] for i in range(3)]
    b = []
    for i in range(n_rows):
        b.append(["t", MODULES[i % 2], QUALNAMES[i % 7], v, "B%d" % (i % 14)])
        if i % 5 == 2 and i < 40:
            b.append(["bad", "arg"])
    return a, b


SPILL_MODULES = ["spill_m%03d" % k for k in range(200)]


def spill_batches(n_small=100, n_big=300):
    """(A, B) for the spill kill: row-major over 200 modules, so that consecutive rows go to different leaves of the
    module index; A is committed first, B (several MB: more than the page cache) is the batch the writer dies in.
    Rows of one module are identical (400 distinct rows in all), which keeps the Gallina terms small."""
    a = [["t", m, "small", 0, "A0"] for _ in range(n_small) for m in SPILL_MODULES]
    b = [["t", m, "big", 0, "B0"] for _ in range(n_big) for m in SPILL_MODULES]      # 60000 rows: about 8 MB with the index
    return a, b


def many_modules_batch(n=2100):
    """more distinct modules than any plausible listing limit"""
    # names that differ in their first characters (the Coq side compares strings from the front, quadratically often)
    return [["t", chr(97 + i % 26) + chr(97 + (i // 26) % 26) + "_gen%d" % i, "f", 0, None] for i in range(n)]


def row_cap_batch(n_blocks=501):
    """100 distinct rows repeated: more raw rows than any plausible retention cap once added twice"""
    block = [["t", MODULES[i % 2], QUALNAMES[i % 7], [0, 1, 6, 7][i % 4], "R%d" % (i % 25)] for i in range(100)]
    return block * n_blocks


def batch_of_row(row):
    """the id of the campaign batch a row belongs to, read off its tagged argument name: 'w<wid>_b<j>' for writer
    batches, 'A' / 'B' for the kill campaigns; None when the row carries no tag"""
    import re
    try:
        keys = list(json.loads(row[2]))
    except Exception:
        return None
    for k in keys:
        m = re.match(r"^(w\d+_b\d+)$|^([AB])\d+(_\d+)?$", k)
        if m:
            return m.group(1) or m.group(2)
    return None
