"""Fail-closed `ast` translator for C03: which primitive operations the tracer applies to PROGRAM OBJECTS while it
collects a trace - type collection (monkeytype/typing.py: get_type and what it calls), function lookup
(monkeytype/tracing.py: get_func and what it calls) and the two event handlers (CallTracer.handle_call /
handle_return) - written to coq/Gen/EffectsConstants.v.  Model/Effects.v classifies each primitive as hook-free or
hook-invoking; the theorems of Props/C03.v are statements about these regenerated lists.

The description of a primitive depends neither on the NAME of a local, nor on the function a statement happens to
live in, nor on the order of the statements, so that behaviour-preserving refactorings (renamed / annotated locals,
walrus, early returns, a private helper for a few statements, a comprehension for a loop, code motion) regenerate the
same file, while every change of WHAT is applied to WHICH object changes it (or aborts the extraction).

A primitive is a tuple of five strings  (op, on, arg, guard, gon):
  op     what is applied:  a statically resolved callee `builtin:type`, `import:inspect.getattr_static`,
         `import:typing.cast`, `func:shrink_types`, `class:CallTrace`, `global:x` | `.m` (call of the attribute m of
         `on`) | `()` (call of `on` itself) | `iter` (a for loop / comprehension / yield from iterating `on`)
  on     the ORIGIN of the object it is applied to (first positional argument of a static callee; receiver of a
         method; the iterated object), "" when there is none.  Origins are resolved by reaching definitions over the
         normal form of harness/ast_canon.py and through the calls of helper functions (arguments to parameters,
         return / yield values to call results):
             param:<p>  parameter of a ROOT function        self       receiver of a root method
             builtin:/import:/func:/class:/global:<x>       statically resolved names
             const:<repr>   new:<list|dict|set|tuple>   computed (result of an operator)
             O.<attr>   O[]   O[:]                          attribute / item / slice of O
             call(O)                                        result of calling O (O = static callee, or receiver.m)
             elem(O)   gen(O)                               element yielded by iterating O; a generator yielding O
             <loop>.<...>                                   value carried around a loop (x = x.f_back)
         An operation whose object has several possible origins is listed once per origin.
  arg    for getattr / hasattr / setattr / delattr / isinstance: the constant attribute name or the statically
         resolved class (tuple) given as second argument, else ""
  guard  the exact-builtin-type test the operation sits under: `list` for code only reached when
         `type(G) is list` (also inherited by a helper from its call site), and  gon = the origin of that G.
The lists are emitted sorted and without duplicates: every theorem over them is a `forallb` / `filter`-equals-a-sorted-
list statement, insensitive to order and multiplicity.

Which functions are walked THROUGH (their calls are not primitives, their bodies are visited with the parameters bound
to the arguments of each call): private functions / methods of the same module (the conditions of ast_canon [A1,A4])
and the fixed public helpers in TRANSPARENT, provided nothing else in the package refers to them.  Everything that
cannot be resolved raises ExtractError (nothing is written)."""
import ast
import os

from harness import ast_canon, common
from harness.extract_constants import ExtractError, _parse, _find_func, _find_class, _cs

BUILTIN_EXACT = {"builtin:list": "list", "builtin:set": "set", "builtin:dict": "dict", "builtin:tuple": "tuple",
                 "import:collections.defaultdict": "defaultdict"}
# public functions that are steps of one of the roots (walked through like private helpers)
TRANSPARENT = {"get_dict_type", "get_func_in_mro", "get_previous_frames", "get_locals_from_previous_frames"}
ARG_OPS = {"builtin:getattr", "builtin:hasattr", "builtin:setattr", "builtin:delattr", "builtin:isinstance"}
LOOP = "<loop>"


def _universe():
    out = {}
    for d, _dirs, files in sorted(os.walk(os.path.join(common.REPO, "monkeytype"))):
        for f in sorted(files):
            if f.endswith(".py"):
                rel = os.path.relpath(os.path.join(d, f), common.REPO)
                out[rel] = _parse(rel)
    return out


class _Def:
    """One definition of a local name."""
    __slots__ = ("kind", "unit", "name", "expr", "pos")

    def __init__(self, kind, unit, name, expr=None, pos=None):
        self.kind, self.unit, self.name, self.expr, self.pos = kind, unit, name, expr, pos


def Def(kind, unit, name, expr=None, pos=None):
    """the same definition site is the same object (the loop fixpoints compare sets of definitions)"""
    key = (kind, name if expr is None else None, id(expr) if expr is not None else None, pos)
    if key not in unit.defs:
        unit.defs[key] = _Def(kind, unit, name, expr, pos)
    return unit.defs[key]


class Unit:
    """One function in normal form, with reaching definitions for every name it loads."""

    def __init__(self, mod, fn, cls, is_root):
        self.mod, self.cls, self.is_root = mod, cls, is_root
        self.name = fn.name
        try:
            canon, _cx = ast_canon.canonical_function(mod.info, fn, cls, ())
            # unparse / parse: every node of the tree is a distinct object (the canonicaliser may share sub-trees)
            self.fn = ast.parse(ast.unparse(canon)).body[0]
        except Exception as e:      # the canonicaliser is total on valid Python; anything else fails closed
            raise ExtractError(f"canonicaliser failed on {fn.name}: {type(e).__name__}: {e}")
        if not isinstance(self.fn, ast.FunctionDef) or self.fn.decorator_list:
            raise ExtractError(f"{fn.name}: not a plain function")
        self.fi = ast_canon.FuncInfo(self.fn)
        self.cx = ast_canon.Ctx(mod.info, self.fi, cls)
        a = self.fn.args
        if a.vararg or a.kwarg:
            raise ExtractError(f"{fn.name}: *args / **kwargs")
        self.params = list(self.fi.params)
        self.defs = {}
        self.use = {}           # id(Name load node) -> frozenset of Def  (None: not a local)
        self.returns, self.yields = [], []
        self.falls_off = False
        self._breaks, self._conts = [], []
        env = {p: frozenset([Def("param", self, p)]) for p in self.params}
        out = self._block(self.fn.body, env)
        if out is not None:
            self.falls_off = True
        self.is_gen = bool(self.yields)

    # ---- reaching definitions over the structured statements -------------------------------------------------
    @staticmethod
    def _join(*envs):
        envs = [e for e in envs if e is not None]
        if not envs:
            return None
        out = {}
        for e in envs:
            for k, v in e.items():
                out[k] = out.get(k, frozenset()) | v
        return out

    def _bind(self, target, env, mk, weak=False):
        """mk(pos) -> Def for the name at position pos (None: the whole value)"""
        def put(name, d):
            if not self.fi.is_local(name):
                raise ExtractError(f"{self.name}: store to the non-local {name}")
            env[name] = (env.get(name, frozenset()) if weak else frozenset()) | frozenset([d])
        if isinstance(target, ast.Name):
            put(target.id, mk(None))
        elif isinstance(target, (ast.Tuple, ast.List)):
            for i, t in enumerate(target.elts):
                if isinstance(t, ast.Name):
                    put(t.id, mk(i))
                else:
                    raise ExtractError(f"{self.name}: nested / starred assignment target")
        elif isinstance(target, (ast.Attribute, ast.Subscript)):
            self._expr(target.value, env)
            if isinstance(target, ast.Subscript):
                self._expr(target.slice, env)
        else:
            raise ExtractError(f"{self.name}: assignment target {type(target).__name__}")

    def _expr(self, e, env, cond=False, in_comp=False):
        """records the reaching definitions of every name loaded in `e` (evaluation order), applies walrus bindings"""
        if e is None:
            return
        if isinstance(e, ast.Name):
            if isinstance(e.ctx, ast.Load):
                self.use[id(e)] = env.get(e.id) if self.fi.is_local(e.id) or e.id in env else None
                if self.fi.is_local(e.id) and e.id not in env:
                    self.use[id(e)] = frozenset()       # a local that is not bound on any path to this use
            return
        if isinstance(e, (ast.Lambda, ast.Await, ast.Starred)):
            raise ExtractError(f"{self.name}: {type(e).__name__} expression")
        if isinstance(e, ast.NamedExpr):
            if in_comp:
                raise ExtractError(f"{self.name}: walrus inside a comprehension")
            self._expr(e.value, env, cond)
            self._bind(e.target, env, lambda pos, v=e.value: Def("assign", self, e.target.id, v), weak=cond)
            return
        if isinstance(e, (ast.Yield, ast.YieldFrom)):
            self._expr(e.value, env, cond)
            self.yields.append(("from" if isinstance(e, ast.YieldFrom) else "val", e.value))
            return
        if isinstance(e, ast_canon._COMPS):
            inner = dict(env)
            for g in e.generators:
                if g.is_async:
                    raise ExtractError(f"{self.name}: async comprehension")
                self._expr(g.iter, inner, cond, in_comp or g is not e.generators[0])
                self._bind_comp(g.target, inner, g.iter)
                for c in g.ifs:
                    self._expr(c, inner, True, True)
            for field in ("key", "value", "elt"):
                if hasattr(e, field):
                    self._expr(getattr(e, field), inner, True, True)
            return
        if isinstance(e, ast.BoolOp):
            for i, v in enumerate(e.values):
                self._expr(v, env, cond or i > 0, in_comp)
            return
        if isinstance(e, ast.IfExp):
            self._expr(e.test, env, cond, in_comp)
            self._expr(e.body, env, True, in_comp)
            self._expr(e.orelse, env, True, in_comp)
            return
        if isinstance(e, ast.Compare):
            self._expr(e.left, env, cond, in_comp)
            for i, c in enumerate(e.comparators):
                self._expr(c, env, cond or i > 0, in_comp)
            return
        for c in ast.iter_child_nodes(e):
            if isinstance(c, ast.expr):
                self._expr(c, env, cond, in_comp)
            elif isinstance(c, ast.keyword):
                self._expr(c.value, env, cond, in_comp)
            elif isinstance(c, ast.comprehension):
                raise ExtractError("comprehension outside a comprehension expression")

    def _bind_comp(self, target, env, it):
        def put(name, d):
            env[name] = frozenset([d])      # a comprehension variable lives in the comprehension's own scope
        if isinstance(target, ast.Name):
            put(target.id, Def("elem", self, target.id, it, None))
        elif isinstance(target, (ast.Tuple, ast.List)) and all(isinstance(t, ast.Name) for t in target.elts):
            for i, t in enumerate(target.elts):
                put(t.id, Def("elem", self, t.id, it, i))
        else:
            raise ExtractError(f"{self.name}: comprehension target")

    def _block(self, stmts, env):
        for s in stmts:
            if env is None:
                raise ExtractError(f"{self.name}: unreachable statement")
            env = self._stmt(s, env)
        return env

    def _stmt(self, s, env):
        env = dict(env)
        if isinstance(s, ast.Assign):
            self._expr(s.value, env)
            for t in s.targets:
                if isinstance(t, (ast.Tuple, ast.List)):
                    self._bind(t, env, lambda pos, v=s.value: Def("item", self, None, v, pos))
                else:
                    self._bind(t, env, lambda pos, v=s.value: Def("assign", self, None, v))
            return env
        if isinstance(s, ast.AnnAssign):
            if s.value is not None:
                self._expr(s.value, env)
                self._bind(s.target, env, lambda pos, v=s.value: Def("assign", self, None, v))
            return env
        if isinstance(s, ast.AugAssign):
            self._expr(s.value, env)
            if isinstance(s.target, ast.Name):
                self._expr(ast.Name(id=s.target.id, ctx=ast.Load()), env)
                self._bind(s.target, env, lambda pos: Def("computed", self, None))
            else:
                self._bind(s.target, env, None)
            return env
        if isinstance(s, ast.Expr):
            self._expr(s.value, env)
            return env
        if isinstance(s, ast.Return):
            self._expr(s.value, env)
            self.returns.append(s.value)
            return None
        if isinstance(s, ast.Raise):
            self._expr(s.exc, env)
            self._expr(s.cause, env)
            return None
        if isinstance(s, ast.Assert):
            self._expr(s.test, env)
            self._expr(s.msg, env, True)
            return env
        if isinstance(s, ast.Pass):
            return env
        if isinstance(s, ast.Delete):
            for t in s.targets:
                if isinstance(t, ast.Name):
                    raise ExtractError(f"{self.name}: del of a local")
                self._bind(t, env, None)
            return env
        if isinstance(s, ast.Break):
            self._breaks[-1].append(env)
            return None
        if isinstance(s, ast.Continue):
            self._conts[-1].append(env)
            return None
        if isinstance(s, ast.If):
            self._expr(s.test, env)
            a = self._block(s.body, dict(env))
            b = self._block(s.orelse, dict(env))
            return self._join(a, b)
        if isinstance(s, (ast.For, ast.While)):
            if isinstance(s, ast.For):
                self._expr(s.iter, env)
            head = env
            for _ in range(50):
                e = dict(head)
                if isinstance(s, ast.While):
                    self._expr(s.test, e)
                    after_test = dict(e)
                else:
                    after_test = dict(e)
                    self._bind(s.target, e, lambda pos, it=s.iter: Def("elem", self, None, it, pos))
                self._breaks.append([])
                self._conts.append([])
                out = self._block(s.body, e)
                brk, cnt = self._breaks.pop(), self._conts.pop()
                new_head = self._join(head, out, *cnt)
                if new_head == head:
                    break
                head = new_head
            else:
                raise ExtractError(f"{self.name}: no fixpoint for a loop")
            done = self._block(s.orelse, after_test) if s.orelse else after_test
            if isinstance(s, ast.While) and isinstance(s.test, ast.Constant) and s.test.value:
                done = None
            return self._join(done, *brk)
        if isinstance(s, ast.Try):
            body_out = self._block(s.body, dict(env))
            # a handler may start after any prefix of the body: every definition made in the body may or may not
            # have happened
            gen = self._join(env, body_out, *self._defs_in(s.body, env))
            outs = []
            for h in s.handlers:
                e = dict(gen)
                self._expr(h.type, e)
                if h.name:
                    e[h.name] = frozenset([Def("bad", self, h.name, None, "exception object")])
                outs.append(self._block(h.body, e))
            els = self._block(s.orelse, body_out) if (s.orelse and body_out is not None) else body_out
            res = self._join(els, *outs)
            if s.finalbody:
                res2 = self._block(s.finalbody, self._join(res, gen))
                return None if res is None else res2
            return res
        if isinstance(s, ast.With):
            for it in s.items:
                self._expr(it.context_expr, env)
                if it.optional_vars is not None:
                    self._bind(it.optional_vars, env, lambda pos: Def("bad", self, None, None, "with target"))
            return self._block(s.body, env)
        if isinstance(s, (ast.Import, ast.ImportFrom)):
            for al in s.names:
                nm = al.asname or al.name.split(".")[0]
                env[nm] = frozenset([Def("bad", self, nm, None, "import inside a function")])
            return env
        raise ExtractError(f"{self.name}: statement {type(s).__name__}")

    def _defs_in(self, stmts, env):
        """environments in which every name assigned somewhere in `stmts` has (also) that definition"""
        sub = Unit.__new__(Unit)
        sub.__dict__.update(self.__dict__)
        sub.use, sub.returns, sub.yields, sub._breaks, sub._conts = {}, [], [], [[]], [[]]
        outs = []
        e = dict(env)
        for s in stmts:
            e2 = sub._stmt(s, e)
            if e2 is None:
                break
            outs.append(e2)
            e = e2
        return outs


class Module:
    def __init__(self, rel, universe):
        self.rel = rel
        self.tree = universe[rel]
        self.universe = universe
        self.info = ast_canon.ModuleInfo(self.tree, list(universe.values()))
        self.imports = {}       # name -> "import:<dotted>"   (single module-level bindings only)
        self.modules = {}       # name bound by `import x[.y] [as n]` -> dotted module name
        for st in self.tree.body:
            if isinstance(st, ast.Import):
                for a in st.names:
                    nm = a.asname or a.name.split(".")[0]
                    if nm in self.info.single:
                        self.modules[nm] = a.name if a.asname else a.name.split(".")[0]
            elif isinstance(st, ast.ImportFrom) and st.level == 0 and st.module:
                for a in st.names:
                    nm = a.asname or a.name
                    if nm in self.info.single and a.name != "*":
                        self.imports[nm] = f"import:{st.module}.{a.name}"
        # names of this module that other modules of the package refer to
        self.external = set()
        for r, t in universe.items():
            if r == rel:
                continue
            for n in ast.walk(t):
                if isinstance(n, ast.Name):
                    self.external.add(n.id)
                elif isinstance(n, ast.Attribute):
                    self.external.add(n.attr)
                elif isinstance(n, ast.alias):
                    self.external.add(n.name.split(".")[-1])
                    if n.name == "*":
                        self.external.add(None)

    def static(self, unit, node):
        """statically resolved name / dotted name -> origin string, else None"""
        if isinstance(node, ast.Name):
            nm = node.id
            if unit.use.get(id(node)) is not None or unit.fi.is_local(nm):
                return None
            if nm in self.info.bound:
                if nm not in self.info.single:
                    raise ExtractError(f"{nm}: bound more than once at module level")
                if nm in self.info.funcs:
                    return f"func:{nm}"
                if nm in self.info.classes:
                    return f"class:{nm}"
                if nm in self.imports:
                    return self.imports[nm]
                if nm in self.modules:
                    return f"import:{self.modules[nm]}"
                return f"global:{nm}"
            if self.info.is_builtin(nm):
                return f"builtin:{nm}"
            raise ExtractError(f"{unit.name}: unknown global {nm}")
        if isinstance(node, ast.Attribute):
            d = ast_canon.dotted(node)
            if d and not unit.fi.is_local(d[0]) and d[0] in self.modules and d[0] in self.info.single:
                return "import:" + ".".join([self.modules[d[0]]] + d[1:])
        return None


class Analysis:
    """The closure of helper functions below a set of roots of one module, and the primitives applied in it."""

    def __init__(self, mod, roots):
        self.mod = mod
        self.roots = {}
        self.units = {}
        for cls_name, fn_name in roots:
            cls = _find_class(mod.tree, cls_name) if cls_name else None
            if cls_name and cls_name not in mod.info.classes:
                raise ExtractError(f"class {cls_name} is not a single module-level definition")
            if cls_name is None and fn_name not in mod.info.funcs:
                raise ExtractError(f"function {fn_name} is not a single module-level definition")
            fn = _find_func(None, fn_name, cls) if cls else mod.info.funcs[fn_name]
            if cls and [m for m in cls.body if getattr(m, "name", None) == fn_name] != [fn]:
                raise ExtractError(f"{cls_name}.{fn_name}: not exactly one method of that name in the class body")
            self.roots[(cls_name, fn_name)] = self.unit(fn, cls, True)
        self.sites = {}         # unit -> [(caller unit, call node, receiver expr or None)]
        self.prims = set()
        self._progress = []
        self._done = set()
        for u in self.roots.values():
            self._collect_sites(u, set())
        for u in self.roots.values():
            self._visit(u, ("", "", None))

    def unit(self, fn, cls, is_root=False):
        k = (cls.name if cls is not None else None, fn.name)
        if k not in self.units:
            self.units[k] = Unit(self.mod, fn, cls, is_root)
        return self.units[k]

    # ---- which calls are walked through -------------------------------------------------------------------------
    def callee_unit(self, unit, call):
        """-> (Unit, receiver or None) when `call` is a call of a transparent helper, else None"""
        f = call.func
        info = self.mod.info
        if None in info.attr_stores:
            return None
        if isinstance(f, ast.Name):
            if self.mod.static(unit, f) != f"func:{f.id}":
                return None
            fn = info.funcs[f.id]
            if (None, f.id) in self.roots or not (ast_canon._private(f.id) or f.id in TRANSPARENT) \
                    or not ast_canon._plain_method(fn) or f.id in info.attr_stores:
                return None
            if not ast_canon._private(f.id) and (f.id in self.mod.external or None in self.mod.external):
                return None         # a public helper that other modules use as well: its call stays a primitive
            return self.unit(fn, None), None
        if isinstance(f, ast.Attribute) and isinstance(f.value, ast.Name):
            r = ast_canon._resolve(unit.cx, call, set())      # [A4]
            if r is None or r[2] is None:
                return None
            fn, recv, cls = r
            if (cls.name, fn.name) in self.roots:
                return None
            orig = [m for m in cls.body if isinstance(m, ast.FunctionDef) and m.name == fn.name]
            return self.unit(orig[0], cls), recv
        return None

    def _calls(self, unit):
        for n in ast_canon.walk_block(unit.fn.body):
            if isinstance(n, (ast.FunctionDef, ast.AsyncFunctionDef, ast.ClassDef, ast.Lambda)):
                raise ExtractError(f"{unit.name}: nested scope")
            if isinstance(n, (ast.Global, ast.Nonlocal)):
                raise ExtractError(f"{unit.name}: global / nonlocal")
            if isinstance(n, ast.Call):
                yield n

    def _collect_sites(self, unit, seen):
        if id(unit) in seen:
            return
        seen.add(id(unit))
        for call in self._calls(unit):
            r = self.callee_unit(unit, call)
            if r is not None:
                u, recv = r
                binds = ast_canon._bind_args(u.fn, call, recv)
                if binds is None:
                    raise ExtractError(f"{unit.name}: cannot bind the arguments of {u.name}")
                self.sites.setdefault(id(u), []).append((unit, dict(binds)))
                self._collect_sites(u, seen)

    # ---- origins -------------------------------------------------------------------------------------------------
    def origin(self, unit, e):
        """-> sorted tuple of origin strings of expression `e` evaluated in `unit`"""
        out = self._origin(unit, e)
        if not out:
            raise ExtractError(f"{unit.name}: no origin for {ast.unparse(e)}")
        return tuple(sorted(out))

    def _origin(self, unit, e):
        st = self.mod.static(unit, e)
        if st is not None:
            return {st}
        if isinstance(e, ast.Constant):
            return {f"const:{e.value!r}"}
        if isinstance(e, ast.Name):
            defs = unit.use.get(id(e))
            if defs is None:
                raise ExtractError(f"{unit.name}: name {e.id} not resolved")
            if not defs:
                raise ExtractError(f"{unit.name}: local {e.id} is not bound where it is used")
            out = set()
            for d in sorted(defs, key=lambda d: (d.kind, str(d.pos), ast.dump(d.expr) if d.expr is not None else "")):
                out |= self._def_origin(d)
            return out
        if isinstance(e, ast.Attribute):
            return {f"{o}.{e.attr}" for o in self._origin(unit, e.value)}
        if isinstance(e, ast.Subscript):
            sfx = "[:]" if isinstance(e.slice, ast.Slice) else "[]"
            return {o + sfx for o in self._origin(unit, e.value)}
        if isinstance(e, ast.NamedExpr):
            return self._origin(unit, e.value)
        if isinstance(e, ast.IfExp):
            return self._origin(unit, e.body) | self._origin(unit, e.orelse)
        if isinstance(e, ast.BoolOp):
            out = set()
            for v in e.values:
                out |= self._origin(unit, v)
            return out
        if isinstance(e, (ast.BinOp, ast.UnaryOp, ast.Compare, ast.JoinedStr)):
            return {"computed"}
        if isinstance(e, (ast.List, ast.ListComp)):
            return {"new:list"}
        if isinstance(e, (ast.Dict, ast.DictComp)):
            return {"new:dict"}
        if isinstance(e, (ast.Set, ast.SetComp)):
            return {"new:set"}
        if isinstance(e, ast.Tuple):
            return {"new:tuple"}
        if isinstance(e, ast.GeneratorExp):
            return {f"gen({o})" for o in self._origin(unit, e.elt)}
        if isinstance(e, ast.Call):
            r = self.callee_unit(unit, e)
            if r is not None:
                return self._result(r[0])
            st = self.mod.static(unit, e.func)
            if st is not None:
                return {f"call({st})"}
            if isinstance(e.func, ast.Attribute):
                return {f"call({o}.{e.func.attr})" for o in self._origin(unit, e.func.value)}
            return {f"call({o})" for o in self._origin(unit, e.func)}
        raise ExtractError(f"{unit.name}: origin of a {type(e).__name__} expression")

    @staticmethod
    def _elem(o):
        return o[4:-1] if o.startswith("gen(") and o.endswith(")") else f"elem({o})"

    def _guarded(self, key, compute):
        if key in self._progress:
            return {LOOP}
        self._progress.append(key)
        try:
            return compute()
        finally:
            self._progress.pop()

    def _def_origin(self, d):
        u = d.unit
        if d.kind == "bad":
            raise ExtractError(f"{u.name}: origin of a name bound by {d.pos}")
        if d.kind == "computed":
            return {"computed"}
        if d.kind == "param":
            if u.is_root:
                if u.cls is not None and u.params and d.name == u.params[0]:
                    return {"self"}
                return {f"param:{d.name}"}

            def go():
                out = set()
                for caller, binds in self.sites.get(id(u), []):
                    if d.name not in binds:
                        raise ExtractError(f"{u.name}: parameter {d.name} not bound at a call site")
                    out |= self._origin(caller, binds[d.name])
                if not out:
                    raise ExtractError(f"{u.name}: helper without a call site")
                return out
            return self._guarded(("param", id(u), d.name), go)
        if d.kind == "assign":
            return self._guarded(("def", id(d.expr)), lambda: self._origin(u, d.expr))
        if d.kind == "item":
            return self._guarded(("item", id(d.expr), d.pos), lambda: {f"{o}[]" for o in self._origin(u, d.expr)})
        if d.kind == "elem":
            def go():
                out = {self._elem(o) for o in self._origin(u, d.expr)}
                return out if d.pos is None else {f"{o}[]" for o in out}
            return self._guarded(("elem", id(d.expr), d.pos), go)
        raise ExtractError(f"definition kind {d.kind}")

    def _result(self, u):
        def go():
            out = set()
            if u.is_gen:
                for kind, v in u.yields:
                    if v is None:
                        out.add("gen(const:None)")
                    elif kind == "val":
                        out |= {f"gen({o})" for o in self._origin(u, v)}
                    else:
                        out |= {f"gen({self._elem(o)})" for o in self._origin(u, v)}
                return out
            for v in u.returns:
                out |= {"const:None"} if v is None else self._origin(u, v)
            if u.falls_off:
                out.add("const:None")
            return out
        return self._guarded(("result", id(u)), go)

    # ---- guards ----------------------------------------------------------------------------------------------------
    def _type_args(self, unit, e, depth=0):
        """[(unit, X)] when `e` is (a local only ever bound to) `type(X)`, else None"""
        if depth > 8:
            return None
        if isinstance(e, ast.NamedExpr):
            return self._type_args(unit, e.value, depth + 1)
        if isinstance(e, ast.Call):
            if self.mod.static(unit, e.func) == "builtin:type" and len(e.args) == 1 and not e.keywords \
                    and not isinstance(e.args[0], ast.Starred):
                return [(unit, e.args[0])]
            return None
        if isinstance(e, ast.Name):
            defs = unit.use.get(id(e))
            if not defs:
                return None
            out = []
            for d in defs:
                if d.kind == "assign":
                    r = self._type_args(d.unit, d.expr, depth + 1)
                elif d.kind == "param" and not d.unit.is_root:
                    r = []
                    for caller, binds in self.sites.get(id(d.unit), []):
                        x = self._type_args(caller, binds[d.name], depth + 1) if d.name in binds else None
                        if x is None:
                            return None
                        r += x
                    r = r or None
                else:
                    r = None
                if r is None:
                    return None
                out += r
            return out
        return None

    @staticmethod
    def _alias_root(unit, e):
        """follows `a = b` definitions of a local: the name whose value `e` is"""
        for _ in range(20):
            if not isinstance(e, ast.Name):
                break
            defs = unit.use.get(id(e))
            if not defs or len(defs) != 1:
                break
            d = next(iter(defs))
            if d.kind == "assign" and isinstance(d.expr, ast.Name) and d.unit is unit:
                e = d.expr
            else:
                break
        return e

    def _same(self, unit, e, guard):
        """is `e` the very object the guard was established for?  (the same definitions reach both names: no
        assignment to the name lies between the test and this use)"""
        if guard[2] is None:
            return False
        e = self._alias_root(unit, e)
        return isinstance(e, ast.Name) and unit.use.get(id(e)) == guard[2][1] and unit is guard[2][0]

    def guard_of(self, unit, test):
        """`T is list` / `T is not list` with T = type(G)  ->  (("list", origin of G, definitions of G), positive?)"""
        if isinstance(test, ast.Compare) and len(test.ops) == 1 and isinstance(test.ops[0], (ast.Is, ast.IsNot)):
            for a, b in ((test.left, test.comparators[0]), (test.comparators[0], test.left)):
                st = self.mod.static(unit, b)
                if st in BUILTIN_EXACT:
                    args = self._type_args(unit, a)
                    if args:
                        gon = set()
                        for u, x in args:
                            gon |= set(self.origin(u, x))
                        roots = [self._alias_root(u, x) for u, x in args]
                        ident = None
                        if all(u is unit for u, _x in args) and all(isinstance(r, ast.Name) for r in roots):
                            ds = {unit.use.get(id(r)) for r in roots}
                            if len(ds) == 1 and None not in ds and frozenset() not in ds:
                                ident = (unit, ds.pop())
                        return (BUILTIN_EXACT[st], "|".join(sorted(gon)), ident), isinstance(test.ops[0], ast.Is)
        return None

    # ---- primitives ------------------------------------------------------------------------------------------------
    def _static_arg(self, unit, e):
        if isinstance(e, ast.Constant) and isinstance(e.value, str):
            return repr(e.value)
        st = self.mod.static(unit, e)
        if st is not None and st.split(":")[0] in ("builtin", "import", "class"):
            return st
        if isinstance(e, ast.Tuple) and e.elts:
            parts = [self._static_arg(unit, x) for x in e.elts]
            if all(parts):
                return "(" + ",".join(parts) + ")"
        return ""

    def _emit(self, op, ons, arg, guard, unit=None, target=None):
        """target: the expression whose origins are `ons`.  Model/Effects.v takes `on = gon` (and on = call(gon.m)) to
        mean that the operation is applied to the GUARDED object: that identity is established here, or the
        extraction fails."""
        for on in ons:
            if guard[0] and on == guard[1]:
                if target is None or not self._same(unit, target, guard):
                    raise ExtractError(f"under `type(G) is {guard[0]}`: {op} on an object with G's origin {on} "
                                       "that is not known to be G")
            elif guard[0] and on.startswith("call(" + guard[1] + "."):
                if not (isinstance(target, ast.Call) and isinstance(target.func, ast.Attribute)
                        and self._same(unit, target.func.value, guard)):
                    raise ExtractError(f"under `type(G) is {guard[0]}`: {op} on {on}, not known to be a method of G")
            self.prims.add((op, on, arg, guard[0], guard[1]))

    def _visit(self, unit, guard):
        key = (id(unit), guard)
        if key in self._done:
            return
        self._done.add(key)
        for s in unit.fn.body:
            self._walk(unit, s, guard)

    def _truth(self, unit, e, guard):
        """`e` is used as a truth value: bool(e) runs __bool__ / __len__ of the object unless it is a builtin"""
        if isinstance(e, ast.BoolOp):
            cur = guard
            for v in e.values:
                self._truth(unit, v, cur)
                g = self.guard_of(unit, v)
                if g and g[1] and isinstance(e.op, ast.And):
                    cur = g[0]
        elif isinstance(e, ast.UnaryOp) and isinstance(e.op, ast.Not):
            self._truth(unit, e.operand, guard)
        elif isinstance(e, ast.NamedExpr):
            self._truth(unit, e.value, guard)
        elif isinstance(e, ast.IfExp):
            self._truth(unit, e.body, guard)
            self._truth(unit, e.orelse, guard)
        elif isinstance(e, (ast.Compare, ast.Constant)):
            pass        # the operators themselves (==, <, in) are not described by these lists; `is` runs no code
        else:
            self._emit("truth", self.origin(unit, e), "", guard, unit, e)

    def _walk(self, unit, n, guard):
        if isinstance(n, (ast.If, ast.IfExp, ast.While, ast.Assert)):
            self._truth(unit, n.test, guard)
        elif isinstance(n, ast.comprehension):
            for c in n.ifs:
                self._truth(unit, c, guard)
        elif isinstance(n, ast.UnaryOp) and isinstance(n.op, ast.Not):
            self._truth(unit, n.operand, guard)
        if isinstance(n, (ast.If, ast.IfExp)):
            g = self.guard_of(unit, n.test)
            self._walk(unit, n.test, guard)
            body = n.body if isinstance(n.body, list) else [n.body]
            orelse = n.orelse if isinstance(n.orelse, list) else [n.orelse]
            for s in body:
                self._walk(unit, s, g[0] if g and g[1] else guard)
            for s in orelse:
                self._walk(unit, s, g[0] if g and not g[1] else guard)
            return
        if isinstance(n, ast.BoolOp) and isinstance(n.op, ast.And):
            cur = guard
            for i, v in enumerate(n.values):
                if i < len(n.values) - 1:
                    self._truth(unit, v, cur)
                self._walk(unit, v, cur)
                g = self.guard_of(unit, v)
                if g and g[1]:
                    cur = g[0]      # the operands behind `type(G) is list and` are only evaluated under it
            return
        if isinstance(n, ast.BoolOp):
            for v in n.values[:-1]:
                self._truth(unit, v, guard)
        if isinstance(n, ast.For):
            self._emit("iter", self.origin(unit, n.iter), "", guard, unit, n.iter)
        elif isinstance(n, ast_canon._COMPS):
            for g in n.generators:
                self._emit("iter", self.origin(unit, g.iter), "", guard, unit, g.iter)
        elif isinstance(n, ast.YieldFrom):
            self._emit("iter", self.origin(unit, n.value), "", guard, unit, n.value)
        elif isinstance(n, ast.Call):
            self._call(unit, n, guard)
        for c in ast.iter_child_nodes(n):
            self._walk(unit, c, guard)

    def _call(self, unit, n, guard):
        if any(isinstance(a, ast.Starred) for a in n.args) or any(k.arg is None for k in n.keywords):
            raise ExtractError(f"{unit.name}: call with * / ** arguments")
        r = self.callee_unit(unit, n)
        if r is not None:
            # the helper's body runs under the guard of this call; the guarded object is known inside the helper
            # when it is passed as an argument
            u, recv = r
            ident = None
            if guard[0]:
                ps = [p for p, e in ast_canon._bind_args(u.fn, n, recv) if self._same(unit, e, guard)]
                if len(ps) == 1:
                    ident = (u, frozenset([Def("param", u, ps[0])]))
            self._visit(u, (guard[0], guard[1], ident))
            return
        st = self.mod.static(unit, n.func)
        if st is not None:
            ons = self.origin(unit, n.args[0]) if n.args else ("",)
            arg = self._static_arg(unit, n.args[1]) if st in ARG_OPS and len(n.args) >= 2 else ""
            self._emit(st, ons, arg, guard, unit, n.args[0] if n.args else None)
        elif isinstance(n.func, ast.Attribute):
            self._emit("." + n.func.attr, self.origin(unit, n.func.value), "", guard, unit, n.func.value)
        else:
            self._emit("()", self.origin(unit, n.func), "", guard, unit, n.func)


def _coq_prim(p):
    return "(" + ", ".join(_cs(x) for x in p) + ")"


def render():
    universe = _universe()
    for rel in ("monkeytype/typing.py", "monkeytype/tracing.py"):
        if rel not in universe:
            raise ExtractError(f"{rel} not found")
    ty = Module("monkeytype/typing.py", universe)
    tr = Module("monkeytype/tracing.py", universe)
    gt = Analysis(ty, [(None, "get_type")])
    lookup = Analysis(tr, [(None, "get_func")])
    handle = Analysis(tr, [("CallTracer", "handle_call"), ("CallTracer", "handle_return")])
    for a, what in ((gt, "get_type"), (lookup, "get_func"), (handle, "handlers")):
        if not a.prims:
            raise ExtractError(f"{what}: no primitive found")

    def sl(xs):
        return "[" + ";\n   ".join(_coq_prim(x) for x in sorted(xs)) + "]"
    L = ["(* GENERATED by harness/extract_effects.py from /repo's current source. Do not edit. *)",
         "From Coq Require Import List String.", "Import ListNotations.", "Open Scope string_scope.", "",
         "(* (op, on, arg, guard, gon): see harness/extract_effects.py *)",
         f"Definition get_type_prims : list (string * string * string * string * string) :=\n  {sl(gt.prims)}.",
         f"Definition lookup_prims : list (string * string * string * string * string) :=\n  {sl(lookup.prims)}.",
         f"Definition handler_prims : list (string * string * string * string * string) :=\n  {sl(handle.prims)}.", ""]
    return "\n".join(L)


def regenerate():
    path = os.path.join(common.COQ, "Gen", "EffectsConstants.v")
    try:
        text = render()
    except (ExtractError, SyntaxError, OSError, AttributeError, KeyError, IndexError, TypeError, ValueError,
            RecursionError) as e:
        # keep the previously generated file: the proof status is reported as broken by the caller, but the
        # correspondence harness can still be built (against the last understood model) to search for a failing input
        return False, f"{type(e).__name__}: {e}"
    old = open(path).read() if os.path.exists(path) else None
    if old != text:
        os.makedirs(os.path.dirname(path), exist_ok=True)
        with open(path, "w") as f:
            f.write(text)
    return True, "ok"


if __name__ == "__main__":
    print(regenerate())
    print(open(os.path.join(common.COQ, "Gen", "EffectsConstants.v")).read())
