#!/bin/bash
# tools/eval_mutants.sh <wave suffix, e.g. w4> <P:mN> ...  — try seeded changes /tmp/mutants_<P>_<wave>/<mN> one after the
# other against the property's own check plus the checks that own the neighbouring code; output for tools/mut_table.py
cd "$(dirname "$0")/.."
w=$1; shift
for pm in "$@"; do
  p=${pm%%:*}; m=${pm##*:}
  echo "######## ${p}_$w $m"
  extra=""
  case $p in C18) extra="C02";; C05) extra="C04 C08";; C06) extra="C04";; C12) extra="C02 C11";; C01) extra="C04 C07 C11 C02";; C15) extra="C16 C12";; C16) extra="C15";; C14) extra="C07 C10 C09";; C13) extra="C02 C09 C12";; C08) extra="C09 C10";; C03) extra="C02 C18";; C17) extra="C02";; C11) extra="C12";; C10) extra="C08";; C04) extra="C05";; C07) extra="C14";; esac
  [ -n "$NOEXTRA" ] && extra=""; [ -n "$ONLY" ] && { tools/try_mutant.sh $ONLY /tmp/mutants_${p}_$w/$m; continue; }
  tools/try_mutant.sh $p /tmp/mutants_${p}_$w/$m $extra
done
