"""A function that does not live in __main__ (the stock store logger drops __main__ functions): used by the long-run
stock-logger scenario of harness/tripwire_run.py."""


def bump(i):
    return i


def lone(x):
    """handed an instance of a class whose metaclass journals __hash__/__eq__ (alone: nothing to merge, nothing to compare)"""
    return None
