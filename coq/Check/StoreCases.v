(* Check/StoreCases.v — verdicts for the trace-store correspondence (C09).  Depends on the model only (not on
   Proofs/), so it still evaluates when a proof is broken by a source change.
   verdict: 0 ok; 1 model and implementation differ but the property predicate holds on the implementation's output;
            2 the property predicate is false on the implementation's own output; 3 malformed case / unknown code shape.

   The property predicate is evaluated with `starts_withb` (the property's literal prefix test), the model relation
   with the operator the code really uses (`filter_answerb`, dispatching on Gen/Constants.query_qualname_operator). *)
From Coq Require Export List Bool Arith NArith String Ascii.
Export ListNotations.
From MT Require Export Store.
Open Scope list_scope.

(* (index, code) of the cases whose verdict is not 0.  Local copy of Check/Common.bad so that this file depends on
   Model/Store.v only and can be rebuilt on its own against reference constants when a source extractor fails closed. *)
Section Bad.
Context {A : Type} (verdict : A -> nat).
Fixpoint bad (i : nat) (cs : list A) : list (nat * nat) :=
  match cs with
  | [] => []
  | c :: r => let v := verdict c in
              if Nat.eqb v 0 then bad (S i) r else (i, v) :: bad (S i) r
  end.
End Bad.

Inductive obs :=
| ONone                                   (* the call returned nothing (add, reopen) *)
| ORaised                                 (* the call raised *)
| ORows (rs : list row)                   (* filter() *)
| OMods (ms : list string).               (* list_modules() *)

Inductive cstep :=
| COp (o : op) (ob : obs)
| CTable (rs : list row) (integrity_ok : bool)    (* whole table in rowid order + PRAGMA integrity_check, read through
                                                     an independent sqlite3 connection *)
| CConfig (journal_mode synchronous locking_mode isolation_level autocommit : string)
    (* the configuration of the connection SQLiteStore.make_store() built, read through that connection (after
       make_store and after every reopen).  The model's Add = one step / AddAborted = no step / Reopen = identity rest on
       SQLite's atomic commit, i.e. on a rollback journal (or WAL) ON DISK, syncing not switched off, normal locking and a
       connection on which `with conn:` is a transaction; a store configured otherwise breaks the property's
       crash-atomicity / durability clause whether or not a kill happens to land badly in this run. *)
| CAddRaised (b : batch) (rs : list row) (integrity_ok : bool).
    (* add(b) raised (injected fault: progress-handler interrupt, lock held elsewhere, BaseException from a trace's
       serialisation); rs = the table right afterwards.  All of the batch's serialisable rows or none must be there.
       (Both happen: an interrupt delivered at the last VM step of COMMIT raises although the commit is done.) *)

Inductive scase :=
(* a serial history through real SQLiteStore objects, starting from the table `pre` *)
| CHist (pre : list batch) (steps : list cstep)
(* after a fault / kill / concurrency campaign: batches `subs` were submitted (status 0 = add() returned,
   1 = add() raised or its process was killed inside the INSERT, 2 = killed at an unknown point);
   `order` = the indices the harness read off the table.  The table must be pre ++ the whole serialisable part of
   the batches in `order`, every status-0 batch present, no status-1 batch present. *)
| CReach (pre : list batch) (subs : list (batch * nat)) (order : list nat) (table : list row) (integrity_ok : bool)
(* an answer read while writers were running (or from inside a writer's transaction through another connection):
   it must be a correct answer for pre ++ some subset of whole batches *)
| CSnap (pre : list batch) (subs : list batch) (m : string) (p : option string) (n : N) (out : list row)
| CSnapMods (pre : list batch) (subs : list batch) (ms : list string).

Fixpoint rows_eqb (a b : list row) : bool :=
  match a, b with
  | [], [] => true
  | x :: a', y :: b' => row_eqb x y && rows_eqb a' b'
  | _, _ => false
  end.

Definition spec_filter_okb (db : list row) (m : string) (p : option string) (n : N) (out : list row) : bool :=
  answer_okb_with starts_withb db m p n out.

Definition spec_modules_okb (db : list row) (ms : list string) : bool :=
  let want := filter nonempty (dedup_str (map r_module db)) in
  nodup_strb ms && forallb (fun m => mem_str m want) ms && forallb (fun m => mem_str m ms) want.

Definition rows_of (bs : list batch) : list row := List.concat (map serialisable bs).

Definition env_okb (journal sync locking isolation autocommit : string) : bool :=
  mem_str journal ["delete"; "truncate"; "persist"; "wal"]%string         (* not "memory", not "off" *)
  && mem_str sync ["1"; "2"; "3"]%string                                    (* NORMAL / FULL / EXTRA, not OFF *)
  && String.eqb locking "normal"
  && mem_str isolation [""; "DEFERRED"; "IMMEDIATE"; "EXCLUSIVE"]%string    (* "None" = autocommit: no transaction *)
  && mem_str autocommit ["-1"; "False"]%string.                             (* legacy control or explicit transactions *)

Definition step_verdict (db : list row) (s : cstep) : nat * list row :=
  match s with
  | CConfig j sy lk iso ac => (if env_okb j sy lk iso ac then 0 else 2, db)
  | CTable rs ok => (if ok && rows_eqb rs db then 0 else 2, db)
  | CAddRaised b rs ok =>
      if negb ok then (2, db)
      else if rows_eqb rs db then (0, step db (AddAborted b))
      else if rows_eqb rs (step db (Add b)) then (0, step db (Add b))
      else (2, db)
  | COp o ob =>
      match o, ob with
      | Add b, ONone => (0, step db o)
      | Add b, ORaised => (2, db)     (* an add() nobody interfered with raised: traces that fail to serialise are to be
                                         skipped, the batch's serialisable traces committed - not lost *)
      | AddAborted b, ORaised => (0, db)
      | Reopen, ONone => (0, db)
      | Reopen, ORaised => (2, db)
      | Filter m p n, ORows out =>
          (if negb (spec_filter_okb db m p n out) then 2
           else if filter_answerb db m p n out then 0 else 1, db)
      | Filter _ _ _, ORaised => (2, db)
      | ListModules, OMods ms =>
          (if negb (spec_modules_okb db ms) then 2
           else if modules_answerb db ms then 0 else 1, db)
      | ListModules, ORaised => (2, db)
      | _, _ => (3, db)
      end
  end.

Fixpoint hist_verdict (db : list row) (steps : list cstep) : nat :=
  match steps with
  | [] => 0
  | s :: r => let '(v, db') := step_verdict db s in Nat.max v (hist_verdict db' r)
  end.

(* index of the first step with a non-zero verdict (for the report) *)
Fixpoint first_bad_step (i : nat) (db : list row) (steps : list cstep) : option nat :=
  match steps with
  | [] => None
  | s :: r => let '(v, db') := step_verdict db s in
              if Nat.eqb v 0 then first_bad_step (S i) db' r else Some i
  end.

Fixpoint nodup_natb (l : list nat) : bool :=
  match l with
  | [] => true
  | x :: r => negb (existsb (Nat.eqb x) r) && nodup_natb r
  end.

Fixpoint pick (subs : list (batch * nat)) (order : list nat) : option (list batch) :=
  match order with
  | [] => Some []
  | i :: r => match nth_error subs i, pick subs r with
              | Some (b, _), Some bs => Some (b :: bs)
              | _, _ => None
              end
  end.

Fixpoint statuses_ok (i : nat) (subs : list (batch * nat)) (order : list nat) : bool :=
  match subs with
  | [] => true
  | (_, st) :: r =>
      let present := existsb (Nat.eqb i) order in
      (match st with
       | 0 => present
       | 1 => negb present
       | _ => true
       end) && statuses_ok (S i) r order
  end.

(* which of the submitted batches show in an answer (writer batches carry distinct tags, so rows identify batches) *)
Definition visible (subs : list batch) (out : list row) : list batch :=
  filter (fun b => existsb (fun r => memb r out) (serialisable b)) subs.
Definition visible_mods (subs : list batch) (ms : list string) : list batch :=
  filter (fun b => existsb (fun r => mem_str (r_module r) ms) (serialisable b)) subs.

(* The property predicate (code 2) is evaluated first and does not depend on the shape of the code: a case whose
   implementation output breaks the property is reported as such even when the model does not know the code's shape
   any more (then every other case is 3, "unknown code shape"). *)
Definition case_verdict (c : scase) : nat :=
  match c with
  | CHist pre steps => hist_verdict (rows_of pre) steps
  | CReach pre subs order table ok =>
      if negb (nodup_natb order) then 3 else
      match pick subs order with
      | None => 3
      | Some bs =>
          if negb ok then 2
          else if negb (statuses_ok 0 subs order) then 2
          else if rows_eqb table (rows_of pre ++ rows_of bs) then 0 else 2
      end
  | CSnap pre subs m p n out =>
      let db := rows_of pre ++ rows_of (visible subs out) in
      if negb (spec_filter_okb db m p n out) then 2
      else if filter_answerb db m p n out then 0 else 1
  | CSnapMods pre subs ms =>
      (* every listed module is backed by a whole visible batch or by pre; nothing of pre is missing *)
      let lo := rows_of pre in
      let hi := rows_of pre ++ rows_of (visible_mods subs ms) in
      let want_lo := filter nonempty (dedup_str (map r_module lo)) in
      let want_hi := filter nonempty (dedup_str (map r_module hi)) in
      if nodup_strb ms && forallb (fun m => mem_str m want_hi) ms && forallb (fun m => mem_str m ms) want_lo
      then 0 else 2
  end.

Definition verdict_c09 (c : scase) : nat :=
  let v := case_verdict c in
  if Nat.eqb v 2 then 2
  else match code_matcher with       (* None: unknown operator or store_shape_ok = false *)
       | None => 3
       | Some _ => v
       end.

Definition first_bad (c : scase) : option nat :=
  match c with
  | CHist pre steps => first_bad_step 0 (rows_of pre) steps
  | _ => None
  end.
