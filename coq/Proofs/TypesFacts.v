(* Proofs/TypesFacts.v — induction principles and basic facts about member / union_mk / py_eqb. *)
From MT Require Import Types.
From Coq Require Import Lia.

(* ---------- nested induction principles ---------- *)
Section TyInd.
Variable P : ty -> Prop.
Hypothesis HAny : P TAny.
Hypothesis HCls : forall c, P (TCls c).
Hypothesis HType : forall x, P x -> P (TType x).
Hypothesis HCallable : P TCallable.
Hypothesis HList : forall x, P x -> P (TList x).
Hypothesis HSet : forall x, P x -> P (TSet x).
Hypothesis HIter : forall x, P x -> P (TIterator x).
Hypothesis HDict : forall k v, P k -> P v -> P (TDict k v).
Hypothesis HDDict : forall k v, P k -> P v -> P (TDefaultDict k v).
Hypothesis HTuple : forall ts, Forall P ts -> P (TTuple ts).
Hypothesis HTupleVar : forall x, P x -> P (TTupleVar x).
Hypothesis HGen : forall a b c, P a -> P b -> P c -> P (TGenerator a b c).
Hypothesis HUnion : forall ts, Forall P ts -> P (TUnion ts).
Hypothesis HTD : forall r o, Forall (fun f => P (snd f)) r -> Forall (fun f => P (snd f)) o -> P (TTypedDict r o).
Hypothesis HFwd : forall s, P (TFwd s).

Fixpoint ty_ind' (t : ty) : P t :=
  match t with
  | TAny => HAny | TCls c => HCls c | TType x => HType x (ty_ind' x) | TCallable => HCallable
  | TList x => HList x (ty_ind' x) | TSet x => HSet x (ty_ind' x) | TIterator x => HIter x (ty_ind' x)
  | TDict k v => HDict k v (ty_ind' k) (ty_ind' v)
  | TDefaultDict k v => HDDict k v (ty_ind' k) (ty_ind' v)
  | TTuple ts => HTuple ts ((fix go (l : list ty) : Forall P l :=
                   match l with [] => Forall_nil _ | x :: r => Forall_cons x (ty_ind' x) (go r) end) ts)
  | TTupleVar x => HTupleVar x (ty_ind' x)
  | TGenerator a b c => HGen a b c (ty_ind' a) (ty_ind' b) (ty_ind' c)
  | TUnion ts => HUnion ts ((fix go (l : list ty) : Forall P l :=
                   match l with [] => Forall_nil _ | x :: r => Forall_cons x (ty_ind' x) (go r) end) ts)
  | TTypedDict r o => HTD r o
      ((fix go (l : list (string * ty)) : Forall (fun f => P (snd f)) l :=
          match l with [] => Forall_nil _ | x :: r => Forall_cons x (ty_ind' (snd x)) (go r) end) r)
      ((fix go (l : list (string * ty)) : Forall (fun f => P (snd f)) l :=
          match l with [] => Forall_nil _ | x :: r => Forall_cons x (ty_ind' (snd x)) (go r) end) o)
  | TFwd s => HFwd s
  end.
End TyInd.

Section ValInd.
Variable P : value -> Prop.
Hypothesis HAtom : forall c p, P (VAtom c p).
Hypothesis HStr : forall s, P (VStr s).
Hypothesis HClassObj : forall c, P (VClassObj c).
Hypothesis HCallable : P VCallable.
Hypothesis HGen : P VGen.
Hypothesis HList : forall es, Forall P es -> P (VList es).
Hypothesis HSet : forall es, Forall P es -> P (VSet es).
Hypothesis HTuple : forall es, Forall P es -> P (VTuple es).
Hypothesis HDict : forall kvs, Forall (fun kv => P (fst kv) /\ P (snd kv)) kvs -> P (VDict kvs).
Hypothesis HDDict : forall kvs, Forall (fun kv => P (fst kv) /\ P (snd kv)) kvs -> P (VDefaultDict kvs).

Fixpoint value_ind' (v : value) : P v :=
  let go := fix go (l : list value) : Forall P l :=
      match l with [] => Forall_nil _ | x :: r => Forall_cons x (value_ind' x) (go r) end in
  let go2 := fix go2 (l : list (value * value)) : Forall (fun kv => P (fst kv) /\ P (snd kv)) l :=
      match l with [] => Forall_nil _
      | x :: r => Forall_cons x (conj (value_ind' (fst x)) (value_ind' (snd x))) (go2 r) end in
  match v with
  | VAtom c p => HAtom c p | VStr s => HStr s | VClassObj c => HClassObj c
  | VCallable => HCallable | VGen => HGen
  | VList es => HList es (go es) | VSet es => HSet es (go es) | VTuple es => HTuple es (go es)
  | VDict kvs => HDict kvs (go2 kvs) | VDefaultDict kvs => HDDict kvs (go2 kvs)
  end.
End ValInd.

(* ---------- well-formed types: TypedDict field names pairwise distinct (Python dict keys) ---------- *)
Fixpoint wf_ty (t : ty) : Prop :=
  match t with
  | TAny | TCls _ | TCallable | TFwd _ => True
  | TType x | TList x | TSet x | TIterator x | TTupleVar x => wf_ty x
  | TDict k v | TDefaultDict k v => wf_ty k /\ wf_ty v
  | TTuple ts | TUnion ts => (fix go (l : list ty) : Prop := match l with [] => True | x :: r => wf_ty x /\ go r end) ts
  | TGenerator a b c => wf_ty a /\ wf_ty b /\ wf_ty c
  | TTypedDict r o =>
      NoDup (map fst r ++ map fst o)
      /\ (fix go (l : list (string * ty)) : Prop := match l with [] => True | x :: r => wf_ty (snd x) /\ go r end) r
      /\ (fix go (l : list (string * ty)) : Prop := match l with [] => True | x :: r => wf_ty (snd x) /\ go r end) o
  end.

Lemma wf_list_Forall (l : list ty) :
  (fix go (l : list ty) : Prop := match l with [] => True | x :: r => wf_ty x /\ go r end) l <-> Forall wf_ty l.
Proof. induction l as [|x r IH]; split; intros H; auto.
  - destruct H as [H1 H2]. constructor; [exact H1|apply IH; exact H2].
  - inversion H as [|? ? H1 H2]; subst. split; [exact H1|apply IH; exact H2]. Qed.

Lemma wf_fields_Forall (l : list (string * ty)) :
  (fix go (l : list (string * ty)) : Prop := match l with [] => True | x :: r => wf_ty (snd x) /\ go r end) l
  <-> Forall (fun f => wf_ty (snd f)) l.
Proof. induction l as [|x r IH]; split; intros H; auto.
  - destruct H as [H1 H2]. constructor; [exact H1|apply IH; exact H2].
  - inversion H as [|? ? H1 H2]; subst. split; [exact H1|apply IH; exact H2]. Qed.

Lemma wf_TTuple ts : wf_ty (TTuple ts) <-> Forall wf_ty ts.
Proof. apply wf_list_Forall. Qed.
Lemma wf_TUnion ts : wf_ty (TUnion ts) <-> Forall wf_ty ts.
Proof. apply wf_list_Forall. Qed.
Lemma wf_TTypedDict r o : wf_ty (TTypedDict r o) <->
  NoDup (map fst r ++ map fst o) /\ Forall (fun f => wf_ty (snd f)) r /\ Forall (fun f => wf_ty (snd f)) o.
Proof. cbn [wf_ty]. rewrite !wf_fields_Forall. reflexivity. Qed.

Lemma forallb_ext' {A} (f g : A -> bool) l : (forall x, f x = g x) -> forallb f l = forallb g l.
Proof. intros H. induction l as [|x r IH]; [reflexivity|]. cbn. rewrite H, IH. reflexivity. Qed.
Lemma existsb_ext' {A} (f g : A -> bool) l : (forall x, f x = g x) -> existsb f l = existsb g l.
Proof. intros H. induction l as [|x r IH]; [reflexivity|]. cbn. rewrite H, IH. reflexivity. Qed.

(* ---------- member: unfolding lemmas ---------- *)
Section MemberFacts.
Variable anyb : bool.
Variable sub : cls -> cls -> bool.
Notation mem := (member anyb sub).

Lemma member_TUnion v ts : mem v (TUnion ts) = existsb (mem v) ts.
Proof. cbn [member]. induction ts as [|t r IH]; [reflexivity|]. cbn [existsb]. rewrite <- IH. reflexivity. Qed.

(* the field type a key resolves to: required fields first *)
Definition field_ty (s : string) (req opt : list (string * ty)) : option ty :=
  match lookup_f s req with Some t => Some t | None => lookup_f s opt end.

Lemma String_eqb_sym a b : String.eqb a b = String.eqb b a.
Proof. destruct (String.eqb_spec a b), (String.eqb_spec b a); congruence. Qed.

Lemma member_TTypedDict v req opt :
  mem v (TTypedDict req opt) =
  match v with
  | VDict kvs =>
      forallb (fun kv => match fst kv with
                         | VStr s => match field_ty s req opt with Some t => mem (snd kv) t | None => false end
                         | _ => false end) kvs
      && forallb (fun f => has_key (fst f) kvs) req
  | _ => false
  end.
Proof.
  cbn [member]. destruct v; try reflexivity. f_equal.
  apply forallb_ext'. intros [kk vv]. cbn [fst snd]. destruct kk; try reflexivity.
  unfold field_ty.
  induction req as [|f r IH]; cbn [lookup_f].
  - induction opt as [|f r IH]; cbn [lookup_f]; [reflexivity|].
    destruct (String.eqb s (fst f)); [reflexivity|exact IH].
  - destruct (String.eqb s (fst f)); [reflexivity|exact IH].
Qed.

Lemma member_TTuple es ts :
  mem (VTuple es) (TTuple ts) =
  (fix go (ts : list ty) (es : list value) : bool :=
     match ts, es with
     | [], [] => true
     | t1 :: ts', e :: es' => mem e t1 && go ts' es'
     | _, _ => false end) ts es.
Proof. reflexivity. Qed.

(* ---------- flatten / dedup / union_mk ---------- *)
Lemma existsb_flatten v ts : existsb (mem v) (flatten ts) = existsb (mem v) ts.
Proof.
  unfold flatten. induction ts as [|t r IH]; [reflexivity|].
  cbn [flat_map existsb]. rewrite existsb_app, IH. f_equal.
  destruct t; cbn [existsb]; rewrite ?orb_false_r; try reflexivity;
  try (symmetry; apply member_TUnion).
Qed.

End MemberFacts.

(* ---------- generic list helpers ---------- *)
Lemma forallb_imp {A} (f g : A -> bool) l :
  (forall x, In x l -> f x = true -> g x = true) -> forallb f l = true -> forallb g l = true.
Proof.
  intros H. rewrite !forallb_forall. intros Hf x Hx. apply H; [exact Hx|apply Hf; exact Hx].
Qed.

Fixpoint forallb2 {A B} (f : A -> B -> bool) (xs : list A) (ys : list B) : bool :=
  match xs, ys with
  | [], [] => true
  | x :: xs', y :: ys' => f x y && forallb2 f xs' ys'
  | _, _ => false
  end.

Lemma lookup_f_In s fs t : lookup_f s fs = Some t -> In (s, t) fs.
Proof.
  induction fs as [|f r IH]; cbn [lookup_f]; [discriminate|].
  destruct (String.eqb_spec s (fst f)) as [E|E]; intros H.
  - injection H as <-. left. destruct f; cbn in *; subst; reflexivity.
  - right. apply IH. exact H.
Qed.

Lemma lookup_f_None s fs : lookup_f s fs = None <-> ~ In s (map fst fs).
Proof.
  induction fs as [|f r IH]; cbn [lookup_f map]; [split; [intros _ []|reflexivity]|].
  destruct (String.eqb_spec s (fst f)) as [E|E]; split; intros H.
  - discriminate.
  - exfalso. apply H. left. symmetry. exact E.
  - intros [H1|H1]; [apply E; symmetry; exact H1|]. apply IH in H. apply H. exact H1.
  - apply IH. intros H1. apply H. right. exact H1.
Qed.

Lemma lookup_f_NoDup s t fs : NoDup (map fst fs) -> In (s, t) fs -> lookup_f s fs = Some t.
Proof.
  induction fs as [|f r IH]; cbn [map lookup_f]; intros ND HI; [destruct HI|].
  inversion ND as [|? ? Hn ND']; subst.
  destruct HI as [->|HI]; cbn [fst snd].
  - rewrite String.eqb_refl. reflexivity.
  - destruct (String.eqb_spec s (fst f)) as [E|E].
    + exfalso. apply Hn. rewrite <- E. apply (in_map fst) in HI. exact HI.
    + apply IH; assumption.
Qed.

Lemma lookup_f_Some_key s fs t : lookup_f s fs = Some t -> In s (map fst fs).
Proof. intros H. apply lookup_f_In in H. apply (in_map fst) in H. exact H. Qed.

(* ---------- py_eqb : unfolding ---------- *)
Definition fsubP (xs ys : list (string * ty)) : bool :=
  forallb (fun f => match lookup_f (fst f) ys with Some y => py_eqb (snd f) y | None => false end) xs.

Lemma py_eqb_TTuple xs ys : py_eqb (TTuple xs) (TTuple ys) = forallb2 py_eqb xs ys.
Proof.
  cbn [py_eqb]. revert ys. induction xs as [|x r IH]; intros [|y ys]; try reflexivity.
  cbn [forallb2]. rewrite <- IH. reflexivity.
Qed.

Lemma py_eqb_TTypedDict r o r' o' :
  py_eqb (TTypedDict r o) (TTypedDict r' o') =
  Nat.eqb (List.length r) (List.length r') && fsubP r r'
  && Nat.eqb (List.length o) (List.length o') && fsubP o o'.
Proof.
  cbn [py_eqb]. unfold fsubP.
  assert (E : forall xs ys,
    (fix fsub (xs0 ys0 : list (string * ty)) {struct xs0} : bool :=
       match xs0 with
       | [] => true
       | f :: xs' => match lookup_f (fst f) ys0 with Some y => py_eqb (snd f) y | None => false end && fsub xs' ys0
       end) xs ys
    = forallb (fun f => match lookup_f (fst f) ys with Some y => py_eqb (snd f) y | None => false end) xs).
  { induction xs as [|x xs IH]; intros ys; [reflexivity|]. cbn [forallb]. rewrite <- IH. reflexivity. }
  rewrite !E. reflexivity.
Qed.

Lemma py_eqb_TUnion xs ys :
  py_eqb (TUnion xs) (TUnion ys) =
  forallb (fun x => negb (has_td x) && existsb (py_eqb x) ys) xs
  && forallb (fun y => negb (has_td y) && existsb (fun x => py_eqb x y) xs) ys.
Proof. reflexivity. Qed.

(* ---------- Python == implies same members (one direction is all soundness needs) ---------- *)
Section PyEqMember.
Variable anyb : bool.
Variable sub : cls -> cls -> bool.
Notation mem := (member anyb sub).

Lemma NoDup_app_l {A} (l1 l2 : list A) : NoDup (l1 ++ l2) -> NoDup l1.
Proof. induction l1 as [|x r IH]; intros H; [constructor|].
  inversion H as [|? ? Hn H']; subst. constructor; [|apply IH; exact H'].
  intros Hi. apply Hn. apply in_or_app. left. exact Hi. Qed.
Lemma NoDup_app_r {A} (l1 l2 : list A) : NoDup (l1 ++ l2) -> NoDup l2.
Proof. induction l1 as [|x r IH]; intros H; [exact H|].
  inversion H; subst. apply IH. assumption. Qed.
Lemma NoDup_app_disj {A} (l1 l2 : list A) x : NoDup (l1 ++ l2) -> In x l1 -> In x l2 -> False.
Proof. induction l1 as [|y r IH]; intros H H1 H2; [destruct H1|].
  inversion H as [|? ? Hn H']; subst. destruct H1 as [->|H1].
  - apply Hn. apply in_or_app. right. exact H2.
  - apply IH; assumption. Qed.

Lemma fsubP_keys xs ys : fsubP xs ys = true -> incl (map fst xs) (map fst ys).
Proof.
  unfold fsubP. rewrite forallb_forall. intros H s Hs.
  apply in_map_iff in Hs. destruct Hs as [f [<- Hf]]. specialize (H f Hf).
  destruct (lookup_f (fst f) ys) eqn:E; [|discriminate]. eapply lookup_f_Some_key. exact E.
Qed.

Lemma py_eqb_member_imp a : forall b v,
  wf_ty a -> wf_ty b -> py_eqb a b = true -> mem v a = true -> mem v b = true.
Proof.
  induction a as [ | c | x IH | | x IH | x IH | x IH | k v0 IHk IHv | k v0 IHk IHv | xs IH | x IH
                 | a1 a2 a3 IH1 IH2 IH3 | xs IH | r o IHr IHo | s ] using ty_ind';
    intros b v Wa Wb E M; destruct b; cbn [py_eqb] in E; try discriminate E; try exact M.
  - (* TCls *) apply N.eqb_eq in E. subst. exact M.
  - (* TType *) cbn [member] in *. destruct v; try discriminate M.
    destruct x, b; cbn [py_eqb] in E; try discriminate E; try discriminate M; try exact M.
    apply N.eqb_eq in E. subst. exact M.
  - (* TList *) cbn [member] in *. destruct v; try discriminate M.
    revert M. apply forallb_imp. intros e _. apply IH; assumption.
  - (* TSet *) cbn [member] in *. destruct v; try discriminate M.
    revert M. apply forallb_imp. intros e _. apply IH; assumption.
  - (* TDict *) cbn [member wf_ty] in *. destruct Wa as [Wa1 Wa2], Wb as [Wb1 Wb2].
    apply andb_prop in E. destruct E as [E1 E2].
    destruct v; try discriminate M; revert M; apply forallb_imp; intros kv _ H;
      apply andb_prop in H; destruct H as [H1 H2]; apply andb_true_intro; split;
      [apply IHk|apply IHv|apply IHk|apply IHv]; assumption.
  - (* TDefaultDict *) cbn [member wf_ty] in *. destruct Wa as [Wa1 Wa2], Wb as [Wb1 Wb2].
    apply andb_prop in E. destruct E as [E1 E2].
    destruct v; try discriminate M; revert M; apply forallb_imp; intros kv _ H;
      apply andb_prop in H; destruct H as [H1 H2]; apply andb_true_intro; split;
      [apply IHk|apply IHv]; assumption.
  - (* TTuple *) change (py_eqb (TTuple xs) (TTuple ts) = true) in E. rewrite py_eqb_TTuple in E.
    apply wf_TTuple in Wa. apply wf_TTuple in Wb.
    destruct v; try discriminate M. rewrite member_TTuple in *.
    revert ts es Wb E M. induction xs as [|x xs IHxs]; intros [|y ys] es Wb E M; cbn [forallb2] in E; try discriminate E.
    + exact M.
    + destruct es as [|e es]; [discriminate M|].
      apply andb_prop in E. destruct E as [E1 E2]. apply andb_prop in M. destruct M as [M1 M2].
      inversion IH as [|? ? IHx IHxs']; subst. inversion Wa; subst. inversion Wb; subst.
      apply andb_true_intro; split.
      * apply IHx; assumption.
      * apply IHxs; assumption.
  - (* TTupleVar *) cbn [member] in *. destruct v; try discriminate M.
    revert M. apply forallb_imp. intros e _. apply IH; assumption.
  - (* TUnion *) change (py_eqb (TUnion xs) (TUnion ts) = true) in E. rewrite py_eqb_TUnion in E.
    apply wf_TUnion in Wa. apply wf_TUnion in Wb.
    rewrite member_TUnion in *. apply existsb_exists in M. destruct M as [x [Hx Mx]].
    apply andb_prop in E. destruct E as [E1 _]. rewrite forallb_forall in E1. specialize (E1 x Hx).
    apply andb_prop in E1. destruct E1 as [_ E1]. apply existsb_exists in E1. destruct E1 as [y [Hy Exy]].
    apply existsb_exists. exists y. split; [exact Hy|].
    rewrite Forall_forall in IH, Wa, Wb. apply (IH x Hx); auto.
  - (* TTypedDict *)
    change (py_eqb (TTypedDict r o) (TTypedDict req opt) = true) in E. rewrite py_eqb_TTypedDict in E.
    apply wf_TTypedDict in Wa. apply wf_TTypedDict in Wb.
    destruct Wa as [NDa [Wr Wo]], Wb as [NDb [Wr' Wo']].
    apply andb_prop in E. destruct E as [E Eo]. apply andb_prop in E. destruct E as [E Elo].
    apply andb_prop in E. destruct E as [Elr Er]. apply Nat.eqb_eq in Elr, Elo.
    rewrite member_TTypedDict in *. destruct v; try discriminate M.
    apply andb_prop in M. destruct M as [MA MB]. apply andb_true_intro; split.
    + (* every item admitted *)
      revert MA. apply forallb_imp. intros [kk vv] _. cbn [fst snd]. destruct kk; try (intros; discriminate).
      unfold field_ty. intros H.
      destruct (lookup_f s r) as [ft|] eqn:Lr.
      * (* key required in a: required in b, py-equal type *)
        unfold fsubP in Er. rewrite forallb_forall in Er.
        pose proof (lookup_f_In _ _ _ Lr) as Hin. specialize (Er _ Hin). cbn [fst snd] in Er.
        destruct (lookup_f s req) as [ft'|] eqn:Lr'; [|discriminate Er].
        rewrite Forall_forall in IHr, Wr, Wr'. apply (IHr _ Hin); cbn [snd]; auto.
        { apply (Wr _ Hin). } { apply (Wr' (s, ft')). apply lookup_f_In. exact Lr'. }
      * destruct (lookup_f s o) as [ft|] eqn:Lo; [|discriminate H].
        unfold fsubP in Eo. rewrite forallb_forall in Eo.
        pose proof (lookup_f_In _ _ _ Lo) as Hin. specialize (Eo _ Hin). cbn [fst snd] in Eo.
        destruct (lookup_f s opt) as [ft'|] eqn:Lo'; [|discriminate Eo].
        assert (Lr' : lookup_f s req = None).
        { apply lookup_f_None. intros Hc. eapply (NoDup_app_disj _ _ s NDb); [exact Hc|].
          eapply lookup_f_Some_key. exact Lo'. }
        rewrite Lr'. rewrite Forall_forall in IHo, Wo, Wo'. apply (IHo _ Hin); cbn [snd]; auto.
        { apply (Wo _ Hin). } { apply (Wo' (s, ft')). apply lookup_f_In. exact Lo'. }
    + (* every required field of b present: keys req = keys r as sets *)
      assert (Hincl : incl (map fst req) (map fst r)).
      { apply NoDup_length_incl.
        - apply NoDup_app_l in NDa. exact NDa.
        - rewrite !map_length. lia.
        - apply fsubP_keys. exact Er. }
      rewrite forallb_forall in MB |- *. intros f' Hf'.
      assert (Hk : In (fst f') (map fst r)) by (apply Hincl; apply in_map; exact Hf').
      apply in_map_iff in Hk. destruct Hk as [f [Ef Hf]]. rewrite <- Ef. apply MB. exact Hf.
Qed.

End PyEqMember.

(* ---------- the tight reading of Any entails the annotation reading ---------- *)
Section AnyMono.
Variable sub : cls -> cls -> bool.

Lemma member_any_mono t : forall v, member false sub v t = true -> member true sub v t = true.
Proof.
  induction t as [ | c | x IH | | x IH | x IH | x IH | a b IHa IHb | a b IHa IHb | xs IH | x IH
                 | a1 a2 a3 IH1 IH2 IH3 | xs IH | r o IHr IHo | s ] using ty_ind';
    intros v M; try exact M; try reflexivity.
  - (* TType *) cbn [member] in *. destruct v; try discriminate M. destruct x; try exact M. reflexivity.
  - cbn [member] in *. destruct v; try discriminate M. revert M. apply forallb_imp. auto.
  - cbn [member] in *. destruct v; try discriminate M. revert M. apply forallb_imp. auto.
  - cbn [member] in *. destruct v; try discriminate M; revert M; apply forallb_imp; intros kv _ H;
      apply andb_prop in H; destruct H; apply andb_true_intro; split; auto.
  - cbn [member] in *. destruct v; try discriminate M; revert M; apply forallb_imp; intros kv _ H;
      apply andb_prop in H; destruct H; apply andb_true_intro; split; auto.
  - destruct v; try discriminate M. rewrite member_TTuple in *.
    revert es M. induction xs as [|x xs IHxs]; intros [|e es] M; try discriminate M; try exact M.
    inversion IH; subst. apply andb_prop in M. destruct M as [M1 M2]. apply andb_true_intro; split; auto.
  - cbn [member] in *. destruct v; try discriminate M. revert M. apply forallb_imp. auto.
  - rewrite member_TUnion in *. apply existsb_exists in M. destruct M as [x [Hx Mx]].
    apply existsb_exists. exists x. split; [exact Hx|]. rewrite Forall_forall in IH. auto.
  - rewrite member_TTypedDict in *. destruct v; try discriminate M.
    apply andb_prop in M. destruct M as [MA MB]. apply andb_true_intro; split; [|exact MB].
    revert MA. apply forallb_imp. intros [kk vv] _. cbn [fst snd]. destruct kk; try (intros; discriminate).
    unfold field_ty. intros H.
    destruct (lookup_f s r) as [ft|] eqn:Lr.
    + rewrite Forall_forall in IHr. apply (IHr _ (lookup_f_In _ _ _ Lr)). exact H.
    + destruct (lookup_f s o) as [ft|] eqn:Lo; [|discriminate H].
      rewrite Forall_forall in IHo. apply (IHo _ (lookup_f_In _ _ _ Lo)). exact H.
Qed.
End AnyMono.
