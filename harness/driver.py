"""./check <id> [--tier quick|thorough] [--replay FILE]

One run = (1) regenerate the source-derived part of the model and rebuild the Coq development,
(2) re-check the property's theorem file and its Print Assumptions, (3) corpus + generated
correspondence between model and /repo's working tree, verdicts evaluated inside Coq,
(4) on any break: search for / report a concrete failing input, (5) write evidence."""
import argparse
import fcntl
import importlib
import json
import os
import re
import shutil
import subprocess
import sys
import time
import traceback

from harness import common

ALLOWED_AXIOMS = set()   # DESIGN.md section 5: the target is "Closed under the global context"
FORBIDDEN = re.compile(
    r"\b(Admitted|admit|Axiom|Axioms|Parameter|Parameters|Conjecture|Admit Obligations|bypass_check)\b"
    r"|Unset\s+Guard|Unset\s+Positivity|Unset\s+Universe|type-in-type|impredicative-set")


class Ctx:
    def __init__(self, prop, tier, seed):
        self.prop = prop
        self.tier = tier
        self.seed = seed
        self.work = common.work_dir(prop)
        self.notes = []

    def cleanup(self):
        shutil.rmtree(self.work, ignore_errors=True)


def strip_comments(src: str) -> str:
    out, depth, i = [], 0, 0
    while i < len(src):
        if src.startswith("(*", i):
            depth += 1
            i += 2
        elif src.startswith("*)", i) and depth:
            depth -= 1
            i += 2
        else:
            if depth == 0:
                out.append(src[i])
            i += 1
    return "".join(out)


def grep_forbidden():
    hits = []
    for root, _, files in os.walk(common.COQ):
        for fn in files:
            if fn.endswith(".v"):
                p = os.path.join(root, fn)
                src = strip_comments(open(p).read())
                for ln, line in enumerate(src.splitlines(), 1):
                    if FORBIDDEN.search(line):
                        hits.append(f"{os.path.relpath(p, common.COQ)}:{ln}: {line.strip()[:120]}")
    return hits


def build(targets, log):
    """Regenerate Gen/*.v from /repo, then make the given .vo targets.  Returns (ok, message)."""
    lock = open(os.path.join(common.VERIF, ".build.lock"), "w")
    fcntl.flock(lock, fcntl.LOCK_EX)
    try:
        ok, msg = common.regenerate_all()
        if not ok:
            # only the generated files this property's Coq files import concern it
            mine = common.gen_failures_for([t[:-1] for t in targets])      # Props/C02.vo -> Props/C02.v
            ok, msg = (not mine), ("; ".join(mine.values()) if mine else "ok")
        if common.write_coqproject() or not os.path.exists(os.path.join(common.COQ, "Makefile")):
            subprocess.run(["coq_makefile", "-f", "_CoqProject", "-o", "Makefile"], cwd=common.COQ,
                           capture_output=True, text=True)
        # -k: a broken proof file must not prevent the verdict files (the tie) from being built, so that a
        # concrete failing input can still be searched for
        p = subprocess.run(["timeout", "1500", "make", "-k", "-j", str(common.NCPU)] + targets, cwd=common.COQ,
                           capture_output=True, text=True)
        log.append(p.stdout[-2000:] + p.stderr[-4000:])
        if not ok:
            return False, msg + " (the previously generated model is kept for the search for a failing input)"
        if p.returncode != 0:
            m = re.search(r'File "\./([^"]+)", line (\d+)', p.stderr)
            where = f"{m.group(1)}:{m.group(2)}" if m else "?"
            return False, f"coq build failed at {where}: " + p.stderr.strip()[-600:]
        return True, "built"
    finally:
        fcntl.flock(lock, fcntl.LOCK_UN)
        lock.close()


THM_RE = re.compile(r"^\s*(Theorem|Lemma|Example|Corollary)\s+([A-Za-z0-9_']+)", re.M)
PA_RE = re.compile(r"^\s*Print Assumptions\s+([A-Za-z0-9_'.]+)\s*\.", re.M)


def recheck_props(prop, ctx):
    """coqc Props/<prop>.v afresh (and Refuted/<prop>.v if present); parse Print Assumptions."""
    res = {"files": [], "theorems": [], "assumptions": {}, "ok": True, "msg": "", "cmds": []}
    for sub in ("Props", "Refuted"):
        path = os.path.join(common.COQ, sub, f"{prop}.v")
        if not os.path.exists(path):
            continue
        src = strip_comments(open(path).read())
        thms = [m.group(2) for m in THM_RE.finditer(src)]
        pas = [m.group(1) for m in PA_RE.finditer(src)]
        os.makedirs(os.path.join(ctx.work, sub), exist_ok=True)
        out_vo = os.path.join(ctx.work, sub, f"{prop}.vo")
        cmd = ["coqc", "-q", "-Q", common.COQ, "MT", "-o", out_vo, path]
        res["cmds"].append(" ".join(cmd))
        p = subprocess.run(["timeout", "900"] + cmd, capture_output=True, text=True)
        res["files"].append(os.path.relpath(path, common.VERIF))
        if p.returncode != 0:
            res["ok"] = False
            res["msg"] = f"{sub}/{prop}.v does not check: " + (p.stderr.strip()[-500:])
            res["theorems"] += [(t, False) for t in thms]
            continue
        # split the output into one block per Print Assumptions, in order
        blocks = re.split(r"(?=^Closed under the global context|^Axioms:)", p.stdout, flags=re.M)
        blocks = [b for b in blocks if b.startswith("Closed under") or b.startswith("Axioms:")]
        if len(blocks) != len(pas):
            res["ok"] = False
            res["msg"] = f"{sub}/{prop}.v: {len(pas)} Print Assumptions but {len(blocks)} answers"
        for name, b in zip(pas, blocks):
            if b.startswith("Closed under"):
                res["assumptions"][name] = []
            else:
                axs = re.findall(r"^([A-Za-z0-9_'.]+)\s*:", b, flags=re.M)
                res["assumptions"][name] = axs
                bad = [a for a in axs if a not in ALLOWED_AXIOMS]
                if bad:
                    res["ok"] = False
                    res["msg"] = f"theorem {name} depends on axioms outside the allow-list: {bad}"
        missing = [t for t in thms if t not in pas and not t.startswith("ex_")]
        if missing:
            res["ok"] = False
            res["msg"] = f"no Print Assumptions under: {missing}"
        res["theorems"] += [(t, True) for t in thms]
    if not res["files"]:
        res["ok"] = False
        res["msg"] = f"no Props/{prop}.v"
    return res


def run_coqchk(prop):
    """thorough tier: re-check the property's compiled closure with the independent checker and list its axioms"""
    mods = [f"MT.Props.{prop}"]
    if os.path.exists(os.path.join(common.COQ, "Refuted", f"{prop}.vo")):
        mods.append(f"MT.Refuted.{prop}")
    cmd = ["coqchk", "-silent", "-o", "-Q", common.COQ, "MT"] + mods
    try:
        p = subprocess.run(["timeout", "2400"] + cmd, capture_output=True, text=True, cwd=common.COQ)
    except Exception as e:
        return {"cmd": " ".join(cmd), "ok": False, "summary": f"coqchk could not run: {e}"}
    out = p.stdout + p.stderr
    i = out.find("CONTEXT SUMMARY")
    summary = out[i:].strip() if i >= 0 else out[-1500:]
    axioms_none = bool(re.search(r"\* Axioms:\s*<none>", summary))
    clean = all(re.search(pat, summary) for pat in (r"type-in-type:\s*<none>", r"unsafe \(co\)fixpoints:\s*<none>",
                                                    r"positivity is assumed:\s*<none>"))
    return {"cmd": " ".join(cmd), "ok": p.returncode == 0 and axioms_none and clean, "rc": p.returncode,
            "summary": summary[:3000]}


def load_findings():
    p = os.path.join(common.VERIF, "known_findings.json")
    if not os.path.exists(p):
        return {"findings": [], "fixed": []}
    return json.load(open(p))


def write_replay(prop, payload):
    d = os.path.join(common.VERIF, "evidence", "replay")
    os.makedirs(d, exist_ok=True)
    h = common.digest(json.dumps(payload, sort_keys=True, default=str))
    p = os.path.join(d, f"{prop}-{h}.json")
    with open(p, "w") as f:
        json.dump(payload, f, indent=1, default=str)
    return p


def main(argv=None):
    ap = argparse.ArgumentParser()
    ap.add_argument("prop")
    ap.add_argument("--tier", default=os.environ.get("VERIF_TIER", "quick"), choices=["quick", "thorough"])
    ap.add_argument("--replay")
    args = ap.parse_args(argv)
    prop = args.prop
    seed = int(os.environ.get("VERIF_SEED", "0") or 0)
    # coq/Gen/*.v and the compiled verdict files belong to ONE source tree at a time: runs against /repo share this lock,
    # a run against another tree (VERIF_REPO, used only to try seeded changes) holds it exclusively for its whole duration
    other_tree = os.path.realpath(os.environ.get("VERIF_REPO") or "/repo") != os.path.realpath("/repo")
    tree_lock = open(os.path.join(common.VERIF, ".tree.lock"), "w")
    if not os.environ.get("VERIF_TREE_LOCK_HELD"):      # set by tools/try_patch_all.sh, which holds the lock for all its checks
        fcntl.flock(tree_lock, fcntl.LOCK_EX if other_tree else fcntl.LOCK_SH)
    t0 = time.time()
    ctx = Ctx(prop, args.tier, seed)
    mod = importlib.import_module(f"harness.props.{prop}")
    violations = []      # dicts: {what, replay(dict), no_input(bool)}
    known_seen = []
    log = []
    res = None
    try:
        if args.replay:
            rc = mod.replay(ctx, json.load(open(args.replay)))
            return rc
        # replay files of earlier runs of this property (possibly against a changed tree) are stale: start clean
        rd = os.path.join(common.VERIF, "evidence", "replay")
        if os.path.isdir(rd):
            for fn in os.listdir(rd):
                if fn.startswith(prop + "-") and fn.endswith(".json"):
                    try:
                        os.remove(os.path.join(rd, fn))
                    except OSError:
                        pass
        findings = load_findings()
        open_findings = {f["id"]: f for f in findings.get("findings", [])
                         if f["property"] == prop and f.get("status", "open") == "open"}

        forb = grep_forbidden()
        targets = [f"Props/{prop}.vo"] + [t for t in getattr(mod, "COQ_TARGETS", [])]
        if os.path.exists(os.path.join(common.COQ, "Refuted", f"{prop}.v")):
            targets.append(f"Refuted/{prop}.vo")
        ok_build, build_msg = build(targets, log)
        proofs = {"ok": False, "msg": build_msg, "theorems": [], "assumptions": {}, "files": [], "cmds": []}
        if ok_build:
            proofs = recheck_props(prop, ctx)
        coqchk = None
        if ok_build and args.tier == "thorough" and not os.environ.get("VERIF_NO_COQCHK"):
            coqchk = run_coqchk(prop)
            if not coqchk["ok"]:
                proofs["ok"] = False
                proofs["msg"] = "coqchk -o does not accept the property's closure axiom-free: " + coqchk["summary"][-600:]
        if forb:
            proofs["ok"] = False
            proofs["msg"] = "forbidden declarations in the development: " + "; ".join(forb[:5])
        broken = []
        if not proofs["ok"]:
            broken.append(proofs["msg"])

        # ---- correspondence (also the search for a failing input when something is broken) ----
        ctx.proofs_ok = proofs["ok"]
        try:
            res = mod.run(ctx)
        except Exception as e:   # the tie itself broke (model does not compile, reifier met something new ...)
            res = {"evaluations": 0, "distinct_nontrivial": 0, "rule": "", "samples": [],
                   "failures": [], "mismatches": [],
                   "tie_error": f"{type(e).__name__}: {e}"[:1500]}
            log.append(traceback.format_exc())
            broken.append("correspondence harness failed: " + res["tie_error"][:400])

        # failures: property predicate false on the implementation's own output (concrete failing input)
        for f in res.get("failures", []):
            fid = f.get("finding")
            if fid and fid in open_findings:
                if fid not in [k for k, _ in known_seen]:
                    known_seen.append((fid, f.get("what", open_findings[fid]["text"])))
            else:
                violations.append({"what": f.get("what", "property predicate false on implementation output"),
                                   "replay": f, "no_input": False})
        # mismatches: model and implementation differ while the property predicate still holds on the case
        if res.get("mismatches") and not violations:
            m0 = res["mismatches"][0]
            violations.append({"what": f"correspondence relation `{res.get('relation', prop)}` no longer checks "
                                       f"({len(res['mismatches'])} disagreeing case(s)); no failing input found "
                                       f"after searching {res.get('evaluations', 0)} cases",
                               "replay": {"broken": "correspondence", "relation": res.get("relation", prop),
                                          "case": m0, "n_mismatches": len(res["mismatches"])},
                               "no_input": True})
        if broken and not violations:
            violations.append({"what": "; ".join(broken),
                               "replay": {"broken": "proof-or-tie", "detail": broken,
                                          "searched_cases": res.get("evaluations", 0)},
                               "no_input": True})

        # ---- report ----
        for fid, what in known_seen:
            print(f"KNOWN-FINDING: property={prop} {fid}: {what}")
        seen_paths = set()
        for v in violations[:5]:
            path = write_replay(prop, v["replay"] | {"property": prop, "what": v["what"]})
            if path in seen_paths:
                continue
            seen_paths.add(path)
            tail = " no-failing-input-found" if v["no_input"] else ""
            print(f"VIOLATION property={prop} replay={path}{tail}")

        # ---- evidence ----
        n_thm = len(proofs["theorems"])
        n_ok = sum(1 for _, ok in proofs["theorems"] if ok) if proofs["ok"] else 0
        cov = {
            "obligations": max(n_thm, 1),
            "discharged": n_ok,
            "checker_cmd": "; ".join(["make -C coq " + " ".join(targets)] + proofs.get("cmds", [])),
            "trusted_base": getattr(mod, "TRUSTED_BASE", []) + [
                "Coq 8.16.1 kernel incl. vm_compute (no native_compute)",
                "harness reifiers and generators (harness/*.py)",
                "harness/extract_constants.py (source-derived part of the model)"],
            "theorems": [t for t, _ in proofs["theorems"]],
            "print_assumptions": {k: (v or "Closed under the global context") for k, v in proofs["assumptions"].items()},
            "proof_status": "ok" if proofs["ok"] else proofs["msg"],
            "evaluations": res.get("evaluations", 0),
            "distinct_nontrivial": res.get("distinct_nontrivial", 0),
            "rule": res.get("rule", ""),
            "samples": res.get("samples", [])[:3],
            "distribution": res.get("distribution", {}),
            "model_impl_mismatches": len(res.get("mismatches", [])),
            "property_failures": len(res.get("failures", [])),
            "known_findings_seen": [k for k, _ in known_seen],
            "partial": getattr(mod, "PARTIAL", []),
            "exhaustive": bool(res.get("exhaustive", False)),
        }
        if coqchk is not None:
            cov["coqchk"] = coqchk
        for k in ("tie_error", "extra"):
            if k in res:
                cov[k] = res[k]
        ev = {
            "property_id": prop, "tier": args.tier, "seed": seed, "level": "proof",
            "coverage": cov,
            "assumptions": getattr(mod, "ASSUMPTIONS", []),
            "wall_s": round(time.time() - t0, 2),
            "violations": len(violations),
        }
        os.makedirs(os.path.join(common.VERIF, "evidence"), exist_ok=True)
        with open(os.path.join(common.VERIF, "evidence", f"{prop}.json"), "w") as f:
            json.dump(ev, f, indent=1, default=str)
        if os.environ.get("VERIF_DEBUG"):
            print("\n".join(log)[-6000:], file=sys.stderr)
        print(f"[{prop}] tier={args.tier} seed={seed} theorems={n_ok}/{n_thm} cases={res.get('evaluations', 0)} "
              f"mismatches={len(res.get('mismatches', []))} failures={len(res.get('failures', []))} "
              f"known={len(known_seen)} violations={len(violations)} wall={ev['wall_s']}s")
        return 1 if violations else 0
    finally:
        if not os.environ.get("VERIF_KEEP"):
            ctx.cleanup()


if __name__ == "__main__":
    sys.exit(main())
