"""Subprocess side of the C03 tie: one workload built from tripwire objects, run either untraced or under the real
monkeytype tracing context (optionally with faults injected into the logger / type collection), printing a JSON
record: journal of user hooks invoked, results, exceptions, stdout lines, profiler before/after, flush count.

usage: python -m harness.tripwire_run <seed> <mode> <fault>
  mode : untraced | traced
  fault: none | log | flush | log+flush | gettype | gettype+log | body_raises | body_raises+flush
"""
import collections
import io
import json
import random
import sys

J = []          # the journal of user-level hooks
# a module global that comes BEFORE every class in the module dict (dict order = first binding): the scan of module
# globals for a static method's class passes over it; bound to a hooked object further down
early_lazy_global = None


def note(what):
    J.append(what)


class GA:
    """__getattribute__ hook: journals every attribute read (this is how lazy proxies notice being inspected)"""
    def __init__(self, tag):
        object.__setattr__(self, "tag", tag)

    def __getattribute__(self, name):
        note(f"GA.__getattribute__({name})")
        return object.__getattribute__(self, name)


class GAttr:
    def __getattr__(self, name):
        note(f"GAttr.__getattr__({name})")
        raise AttributeError(name)


class FakeClass:
    """lies about its class through a property"""
    @property
    def __class__(self):
        note("FakeClass.__class__")
        return int


class Desc:
    def __get__(self, obj, typ=None):
        note("Desc.__get__")
        return 42


class Lazy:
    """a lazy property: computing it has a side effect"""
    d = Desc()

    @property
    def value(self):
        note("Lazy.value")
        return 1


class LList(list):
    def __iter__(self):
        note("LList.__iter__")
        return list.__iter__(self)

    def __len__(self):
        note("LList.__len__")
        return list.__len__(self)

    def __contains__(self, x):
        note("LList.__contains__")
        return list.__contains__(self, x)


class LDict(dict):
    def keys(self):
        note("LDict.keys")
        return dict.keys(self)

    def items(self):
        note("LDict.items")
        return dict.items(self)

    def values(self):
        note("LDict.values")
        return dict.values(self)

    def __iter__(self):
        note("LDict.__iter__")
        return dict.__iter__(self)

    def __len__(self):
        note("LDict.__len__")
        return dict.__len__(self)

    def __contains__(self, x):
        note("LDict.__contains__")
        return dict.__contains__(self, x)


class LDictNoIter(dict):
    """overrides the mapping protocol but not __iter__ (a lazy mapping)"""
    def keys(self):
        note("LDictNoIter.keys")
        return dict.keys(self)

    def items(self):
        note("LDictNoIter.items")
        return dict.items(self)

    def values(self):
        note("LDictNoIter.values")
        return dict.values(self)

    def __len__(self):
        note("LDictNoIter.__len__")
        return dict.__len__(self)

    def __getitem__(self, k):
        note("LDictNoIter.__getitem__")
        return dict.__getitem__(self, k)


class LListLenOnly(list):
    def __len__(self):
        note("LListLenOnly.__len__")
        return list.__len__(self)

    def __getitem__(self, i):
        note("LListLenOnly.__getitem__")
        return list.__getitem__(self, i)


class LDefault(collections.defaultdict):
    def keys(self):
        note("LDefault.keys")
        return dict.keys(self)

    def values(self):
        note("LDefault.values")
        return dict.values(self)

    def __missing__(self, k):
        note("LDefault.__missing__")
        return 0


class LSet(set):
    def __iter__(self):
        note("LSet.__iter__")
        return set.__iter__(self)

    def __len__(self):
        note("LSet.__len__")
        return set.__len__(self)


class LTuple(tuple):
    def __iter__(self):
        note("LTuple.__iter__")
        return tuple.__iter__(self)

    def __len__(self):
        note("LTuple.__len__")
        return tuple.__len__(self)


class HE:
    """journaling __hash__/__eq__/__bool__/__repr__"""
    def __init__(self, n):
        self.n = n

    def __hash__(self):
        note("HE.__hash__")
        return hash(self.n)

    def __eq__(self, other):
        note("HE.__eq__")
        return isinstance(other, HE) and other.n == self.n

    def __bool__(self):
        note("HE.__bool__")
        return True

    def __repr__(self):
        note("HE.__repr__")
        return f"HE({self.n})"

    def __str__(self):
        note("HE.__str__")
        return f"HE({self.n})"


class Meta(type):
    def __instancecheck__(cls, inst):
        note("Meta.__instancecheck__")
        return type.__instancecheck__(cls, inst)

    def __subclasscheck__(cls, sub):
        note("Meta.__subclasscheck__")
        return type.__subclasscheck__(cls, sub)


class WithMeta(metaclass=Meta):
    pass


class MetaHash(type):
    def __hash__(cls):
        note("MetaHash.__hash__")
        return 7

    def __eq__(cls, other):
        note("MetaHash.__eq__")
        return cls is other


class Hashy(metaclass=MetaHash):
    pass


class MetaLone(type):
    """metaclass-level equality and hashing on a class whose instances are only ever passed ALONE (one parameter, one call,
    never next to a value of another type): typing such a value gives no occasion to compare or hash its class"""
    def __hash__(cls):
        note("MetaLone.__hash__")
        return 11

    def __eq__(cls, other):
        note("MetaLone.__eq__")
        return cls is other


class Lone(metaclass=MetaLone):
    pass


def takes_lone(x):
    return None


class Raiser:
    """inspection of this object raises (every attribute read, incl. __class__)"""
    def __getattribute__(self, name):
        note(f"Raiser.__getattribute__({name})")
        raise RuntimeError("do not touch")


# ---- the functions of the workload (these are what gets traced) ----
def ident(x):
    return x


def pair(a, b=None, *rest, k=None, **kw):
    return (a, b)


def takes_container(c):
    return None


def gen_of(x):
    yield x
    yield x
    return x


def gen_abandoned(x):
    yield x
    yield x


_ABANDONED = None


class Holder:
    def meth(self, x):
        return x

    @staticmethod
    def smeth(x):
        return x

    @property
    def prop(self):
        return 1


class HolderB(Holder):
    """a receiver (self) with journaling truthiness: looking a method up through it must not ask whether it is true"""
    def __bool__(self):
        note("HolderB.__bool__")
        return False

    def __len__(self):
        note("HolderB.__len__")
        return 0


def named_like_a_global(x):      # a global named like this function is looked at by get_func
    return x


LOOKUP_RAISES = False          # fault "lookup_raises": the attribute hooks met by the function lookup fail


class CallableGA:
    """a callable object with an attribute hook (and journaling truthiness), sitting in a local of an outer frame"""
    def __call__(self):
        return 0

    def __bool__(self):
        note("CallableGA.__bool__")
        return True

    def __len__(self):
        note("CallableGA.__len__")
        return 1

    def __getattribute__(self, name):
        note(f"CallableGA.__getattribute__({name})")
        if LOOKUP_RAISES and name in ("__code__", "__wrapped__"):
            raise RuntimeError("attribute hook failed")       # not an AttributeError: getattr's default does not absorb it
        return object.__getattribute__(self, name)


class GlobalGA:
    """attribute hook (and journaling truthiness) on an object stored in a module global"""
    def __bool__(self):
        note("GlobalGA.__bool__")
        return True

    def __len__(self):
        note("GlobalGA.__len__")
        return 1

    def __getattribute__(self, name):
        note(f"GlobalGA.__getattribute__({name})")
        if LOOKUP_RAISES and name in ("__code__", "__wrapped__"):
            raise RuntimeError("attribute hook failed")       # not an AttributeError: getattr's default does not absorb it
        return object.__getattribute__(self, name)


class ScannedGA:
    """attribute hook on an object in a module global that is NOT a lookup candidate (no traced function has its name):
    the scan of module globals for a static method's class must pass over it without touching it"""
    def __getattribute__(self, name):
        note(f"ScannedGA.__getattribute__({name})")
        return object.__getattribute__(self, name)


# a module global that happens to be named like a traced method: get_func looks at it first
meth = GlobalGA()
some_lazy_global = ScannedGA()     # any other global: scanned when a static method has to be looked up
early_lazy_global = ScannedGA()    # keeps its early position in the module dict (before every class)


def outer_with_closure(v):
    watcher = CallableGA()        # a callable local of the outer frame: get_func's last resort inspects it
    bystander = ScannedGA()       # a NON-callable local of the outer frame: the last resort must pass over it untouched

    def local_fn(x):
        return x
    return local_fn(v)


def make_values(rnd):
    he_key = HE(1)
    base = [
        GA("a"), GAttr(), FakeClass(), Lazy(), LList([1, 2]), LDict(a=1), LSet({1}), LTuple((1, 2)), HE(2),
        WithMeta(), WithMeta, Hashy(), Raiser(), LDictNoIter(a=1, b="x"), LListLenOnly([1, "s"]), LDefault(None, {"q": 1}),
        [LDictNoIter(c=2)], {"m": LDictNoIter(d=3)},
        [GA("in-list"), HE(3)], {"k": GA("in-dict"), "l": LList([3])}, {he_key: 1, "s": 2}, (FakeClass(), LDict(b=2)),
        {HE(4)}, collections.defaultdict(int, {"z": GA("dd")}), [LList([GA("deep")])],
        # an EMPTY defaultdict whose factory is user code: typing it must not call the factory
        collections.defaultdict(lambda: note("factory called") or 0), [collections.defaultdict(lambda: note("factory called (nested)") or [])],
        # hooked objects as dict KEYS (first key, and after a str key)
        {GA("key"): 1, "t": 2}, {"t": 2, FakeClass(): 1}, {GA("only-key"): GA("val")},
    ]
    rnd.shuffle(base)
    return base


def workload(vals, out):
    """deterministic program: calls the functions above with the tripwire values and prints results"""
    import random as _random
    _random.seed(20261002)         # the program's own use of the global generator: tracing must not consume from it
    h = Holder()
    out.append(("lone", takes_lone(Lone()) is None))
    for i, v in enumerate(vals):
        if i % 5 == 0:
            out.append(("rand", i, _random.random(), _random.randrange(1000)))
        r = ident(v)
        out.append(("ident", i, r is v))
        pair(v, vals[(i + 1) % len(vals)], v, k=v, extra=v)
        takes_container([v])
        out.append(("meth", i, h.meth(v) is v))
        out.append(("smeth", i, Holder.smeth(v) is v))
        g = gen_of(v)
        out.append(("gen", i, next(g) is v))
        list(g)          # always exhausted: no frame may stay behind in the tracer (closing at a yield is C02's finding)
    hb = HolderB()
    out.append(("methB", hb.meth(vals[0]) is vals[0], hb.prop))
    out.append(("prop", h.prop))
    global _ABANDONED
    _ABANDONED = gen_abandoned(vals[0])        # started and left suspended: it never completes, so it is never logged
    out.append(("abandoned", next(_ABANDONED) is vals[0]))
    out.append(("named", named_like_a_global(vals[0]) is vals[0]))
    out.append(("closure", outer_with_closure(vals[1]) is vals[1]))
    print("workload done", len(out))


class OldProfiler:
    def __init__(self):
        self.n = 0

    def __call__(self, frame, event, arg):
        self.n += 1


def main():
    seed, mode, fault = int(sys.argv[1]), sys.argv[2], sys.argv[3]
    rnd = random.Random(seed)
    vals = make_values(rnd)
    if "gettype" not in fault:
        pass
    out = []
    rec = {"mode": mode, "fault": fault}
    if "lookup_raises" in fault:
        global LOOKUP_RAISES
        LOOKUP_RAISES = True
    stdout = io.StringIO()
    real_stdout = sys.stdout
    pre = OldProfiler() if rnd.random() < 0.5 else None
    body_raises = "body_raises" in fault
    flushes = {"n": 0}
    exc = None
    sys.stdout = stdout
    J.clear()
    try:
        if mode == "untraced":
            sys.setprofile(pre)
            try:
                workload(vals, out)
                if body_raises:
                    raise KeyError("from the traced block")
            except KeyError as e:
                exc = repr(e)
            after = sys.getprofile()
            sys.setprofile(None)
            rec["profiler_restored"] = after is pre
            rec["flushes"] = 1           # nothing to flush; normalised
        else:
            import logging
            # the tracer reports contained failures through `logging`: a handler that really formats every record (as the
            # default last-resort handler does), into a buffer, so that whatever the messages interpolate is evaluated
            logbuf = io.StringIO()
            _h = logging.StreamHandler(logbuf)
            _h.setFormatter(logging.Formatter("%(levelname)s %(name)s %(message)s"))
            logging.getLogger().addHandler(_h)
            logging.getLogger().setLevel(logging.DEBUG)
            from monkeytype.tracing import CallTraceLogger, trace_calls
            import monkeytype.typing as mtt

            class FaultyLogger(CallTraceLogger):
                def __init__(self):
                    self.logged = 0

                def log(self, trace):
                    self.logged += 1
                    self.names = getattr(self, "names", [])
                    self.names.append(trace.func.__name__)
                    if "log" in fault.split("+"):
                        raise ValueError("logger.log failed")

                def flush(self):
                    flushes["n"] += 1
                    if "flush" in fault.split("+"):
                        raise ValueError("logger.flush failed")
            logger = FaultyLogger()
            if "stock_logger" in fault:
                # the stock store-backed logger over a LONG run: the store is written once, when the context ends
                from monkeytype.db.base import CallTraceStore, CallTraceStoreLogger

                class RecStore(CallTraceStore):
                    def add(self, traces):
                        flushes["n"] += 1
                        logger.logged = len(list(traces))

                    def filter(self, module, qualname_prefix=None, limit=2000):
                        return []
                logger = CallTraceStoreLogger(RecStore())
            this_file = __file__
            sys.setprofile(pre)
            flush_exc = None
            try:
                try:
                    with trace_calls(logger, rnd.choice([0, 2]), lambda code: code.co_name in ("bump", "lone") or code.co_filename == this_file
                                     and code.co_name in ("ident", "pair", "takes_container", "gen_of", "meth", "prop",
                                                          "named_like_a_global", "outer_with_closure", "local_fn", "smeth", "gen_abandoned",
                                                          "takes_lone")):
                        tracer_obj = sys.getprofile()
                        workload(vals, out)
                        if "stock_logger" in fault:
                            from harness import tripwire_aux
                            for _i in range(5200):
                                tripwire_aux.bump(_i)
                            # a traced call OUTSIDE __main__ with a plain instance whose class has metaclass-level
                            # hashing / equality: buffering its trace gives the logger no occasion to hash or compare it
                            tripwire_aux.lone(Lone())
                            tripwire_aux.lone(Lone())
                        if "hot_section" in fault:
                            # the traced block switches profiling off itself (a hot section) or installs its own profiler
                            # and does not put the tracer back: the context must still restore the previous one
                            sys.setprofile(None if seed % 2 else OldProfiler())
                        if body_raises:
                            raise KeyError("from the traced block")
                except KeyError as e:
                    exc = repr(e)
                except ValueError as e:          # only flush() may surface, after the block has finished
                    flush_exc = repr(e)
            finally:
                after = sys.getprofile()
                sys.setprofile(None)
            rec["profiler_restored"] = after is pre
            rec["flushes"] = flushes["n"]
            rec["logged"] = getattr(logger, "logged", None)
            rec["flush_exception"] = flush_exc
            rec["residue"] = len(getattr(tracer_obj, "traces", {})) - (1 if _ABANDONED is not None else 0)   # the suspended generator
            # (whether the call that never completed was logged is C02's business -- harness/tracer_run.py leaves the context
            #  the normal way and compares the log; it is not part of "the program computes the same results")
            rec["log_chars"] = len(logbuf.getvalue())
    finally:
        sys.stdout = real_stdout
    rec["journal"] = list(J)
    rec["results"] = [list(map(str, o)) for o in out]
    rec["exception"] = exc
    rec["stdout"] = stdout.getvalue()
    print(json.dumps(rec))


if __name__ == "__main__":
    main()
