(* Proofs/TightFacts.v — first facts about tightb (C05).  The merge induction (shrink_tight) is not
   done yet; see DESIGN.md 4/C05 for the lemma plan. *)
From MT Require Import Types Infer Tight.

Definition is_leaf (v : value) : bool :=
  match v with VAtom _ _ | VStr _ | VClassObj _ | VCallable | VGen => true | _ => false end.

Lemma get_type_tight_leaf k v t :
  is_leaf v = true -> get_type k v = Some t -> tightb t [v] = true.
Proof.
  destruct v; cbn [is_leaf]; intros L G; try discriminate L; cbn [get_type] in G; injection G as <-;
    cbn; rewrite ?N.eqb_refl; reflexivity.
Qed.

Definition atomic_ty (t : ty) : bool :=
  match t with TCls _ | TCallable | TType (TCls _) | TIterator TAny => true | _ => false end.

Lemma tight_admits_atomic t vs v :
  atomic_ty t = true -> tightb t vs = true -> In v vs -> member false subN v t = true.
Proof.
  destruct t; cbn [atomic_ty]; intros A T Hv; try discriminate A.
  - cbn [tightb] in T. apply andb_prop in T. destruct T as [_ T]. rewrite forallb_forall in T.
    specialize (T v Hv). apply andb_prop in T. destruct T as [_ T]. cbn [member]. exact T.
  - destruct t; try discriminate A. cbn [tightb] in T. apply andb_prop in T. destruct T as [_ T].
    rewrite forallb_forall in T. specialize (T v Hv). destruct v; try discriminate T.
    cbn [member]. unfold subN. rewrite N.eqb_sym. exact T.
  - cbn [tightb] in T. apply andb_prop in T. destruct T as [_ T]. rewrite forallb_forall in T.
    specialize (T v Hv). destruct v; try discriminate T. reflexivity.
  - destruct t; try discriminate A. cbn [tightb] in T. apply andb_prop in T. destruct T as [_ T].
    rewrite forallb_forall in T. specialize (T v Hv). destruct v; try discriminate T. reflexivity.
Qed.

(* Any is tight only for the empty collection, at every position *)
Lemma tight_any_iff vs : tightb TAny vs = true <-> vs = [].
Proof. destruct vs; cbn; split; intros H; congruence. Qed.
