(* Proofs/TdBoundedE2E.v — C06 end to end:
     infer (get_type + shrink_types, per trace)  ->  store round trip (encode, JSON, decode)
     ->  merge of any decoded types (shrink_types)  ->  any chain of shipped rewriters
     ->  ReplaceTypedDictsWithStubs (the class stubs rendered into the stub file)
   With limit k every TypedDict node at every stage, and every generated class (a `...NonTotal` class counted with
   its base class), has between 1 and k fields; with limit 0 there is none anywhere. *)
From MT Require Import Types Infer Rewrite RewriteTrigger Render TypesFacts InferFacts GetTypeSound TdBounded
                       Encode EncodeRoundtrip Pipeline PipelineInferable RewriteTriggerInfer
                       TdBoundedE2EStore TdBoundedE2ERewrite TdBoundedE2EStubs.
From Coq Require Import Lia.
Open Scope list_scope.

(* what inference emits is what the store can hold (C08's premise), for lists of values too *)
Lemma infer_inferable k vs t : forallb wf_valueb vs = true -> infer k vs = Some t -> inferable t.
Proof.
  unfold infer. intros WV H. apply opt_bind_Some in H. destruct H as [ts [HM HS]].
  assert (HF : Forall (gt_inf k) vs) by (rewrite Forall_forall; intros x _; apply get_type_inf).
  destruct (mapM_gt_inf k (fun e => e) vs ts HF WV HM) as [B W]. eapply merge_inferable; eauto.
Qed.

Section E2E.
Variable cname : cls -> string * string.
Variable site : string.
Variable env : string -> string -> lookup.
Variable hidden : string -> option cls.
Variable h : hierarchy.
Variable bt : bases_table.

(* the traced positions: one list of observed (well-formed) values and its inferred type per trace *)
Definition inferred (k : nat) (vss : list (list value)) (ts : list ty) : Prop :=
  Forall2 (fun vs t => forallb wf_valueb vs = true /\ infer k vs = Some t) vss ts.

Lemma inferred_facts k vss ts : inferred k vss ts ->
  forallb (td_boundedb k) ts = true /\ Forall inferable ts.
Proof.
  induction 1 as [|vs t vss ts [W I] _ [IH1 IH2]]; [split; [reflexivity|constructor]|].
  cbn [forallb]. rewrite (infer_bd k vs t W I), IH1. split; [reflexivity|].
  constructor; [eapply infer_inferable; eauto|exact IH2].
Qed.

Theorem k_limit_e2e k rs (vss : list (list value)) (ts ds stored : list ty) T hint :
  typing_ok env ->
  inferred k vss ts ->
  Forall (fun t => Forall (importable cname env hidden) (classes t)) ts ->
  mapM (store_rt cname site env hidden) ts = Some ds ->       (* the decoded copies, in trace order *)
  incl stored ds ->                                           (* any of them, any order and multiplicity *)
  shrink_top k stored = Some T ->                             (* merged *)
  let T' := rw_chain h bt rs T in                             (* rewritten *)
  let out := rtd T' hint in                                   (* annotation type + generated class stubs *)
  forallb (td_boundedb k) ts = true
  /\ forallb (td_boundedb k) ds = true
  /\ td_boundedb k T = true
  /\ td_boundedb k T' = true
  /\ td_boundedb k (fst out) = true
  /\ stubs_ok k (snd out)
  /\ (NoDup (map cs_name (snd out)) -> cstubs_boundedb k (snd out) = true).
Proof.
  intros TOK INF IMP HD SUB HS T' out.
  destruct (inferred_facts k vss ts INF) as [Bts Its].
  assert (OK : Forall (fun t => inferable t /\ Forall (importable cname env hidden) (classes t)) ts).
  { rewrite Forall_forall in *. intros t Ht. split; auto. }
  destruct (store_rt_list cname site env hidden k ts ds TOK OK HD) as [Bds [_ Wds]].
  rewrite Bts in Bds.
  assert (Bst : forallb (td_boundedb k) stored = true).
  { rewrite forallb_forall in *. intros x Hx. apply Bds. apply SUB. exact Hx. }
  assert (Wst : Forall wf_ty stored).
  { rewrite Forall_forall in *. intros x Hx. apply Wds. apply SUB. exact Hx. }
  pose proof (merge_bd k stored T Wst Bst HS) as BT.
  pose proof (rw_chain_bd h bt k rs T BT) as BT'. fold T' in BT'.
  destruct (rtd_bounded k T' hint BT') as [Bout Sout]. fold out in Bout, Sout.
  repeat (split; [assumption|]). intros ND. apply stubs_ok_by_name; assumption.
Qed.

(* limit 0: no TypedDict in any inferred type, stored JSON, decoded type, merged or rewritten type; no class
   stub is generated; and (the decoded types being live typing objects, i.e. their unions normal) the annotation
   type handed to the renderer is the rewritten type itself *)
Theorem k0_e2e rs (vss : list (list value)) (ts ds stored : list ty) T hint :
  typing_ok env ->
  inferred 0 vss ts ->
  Forall (fun t => Forall (importable cname env hidden) (classes t)) ts ->
  mapM (store_rt cname site env hidden) ts = Some ds ->
  incl stored ds ->
  shrink_top 0 stored = Some T ->
  let T' := rw_chain h bt rs T in
  let out := rtd T' hint in
  existsb has_td ts = false
  /\ (forall t j, In t ts -> type_to_json cname site t = Ok j -> json_has_td j = false)
  /\ existsb has_td ds = false
  /\ has_td T = false
  /\ has_td T' = false
  /\ has_td (fst out) = false
  /\ snd out = []
  /\ (forallb normal stored = true -> out = (T', [])).
Proof.
  intros TOK INF IMP HD SUB HS T' out.
  destruct (k_limit_e2e 0 rs vss ts ds stored T hint TOK INF IMP HD SUB HS) as [Bts [Bds [BT [BT' [Bo [So _]]]]]].
  fold T' in BT', Bo, So. fold out in Bo, So.
  destruct (inferred_facts 0 vss ts INF) as [_ Its].
  assert (Nts : forall t, In t ts -> has_td t = false).
  { intros t Ht. apply bd0_iff_no_td. rewrite forallb_forall in Bts. apply Bts. exact Ht. }
  assert (Nds : forall t, In t ds -> has_td t = false).
  { intros t Ht. apply bd0_iff_no_td. rewrite forallb_forall in Bds. apply Bds. exact Ht. }
  apply bd0_iff_no_td in BT, BT', Bo.
  split; [apply existsb_false_forall; exact Nts|].
  split.
  { intros t j Ht EJ. rewrite Forall_forall in Its, IMP.
    assert (OKt : inferable t /\ Forall (importable cname env hidden) (classes t)) by (split; auto).
    destruct (type_roundtrip_ok cname site env hidden t TOK OKt) as [j0 [t' [E0 [D0 _]]]].
    rewrite EJ in E0. injection E0 as <-.
    destruct (no_td_survives_store cname site env hidden t j t' TOK OKt (Nts t Ht) EJ D0) as [X _]. exact X. }
  split; [apply existsb_false_forall; exact Nds|].
  split; [exact BT|]. split; [exact BT'|]. split; [exact Bo|].
  destruct (rtd_no_td T' hint BT') as [E1 [_ E2]]. fold out in E1, E2. split; [exact E1|].
  intros NS.
  assert (Wst : Forall wf_ty stored).
  { assert (OK : Forall (fun t => inferable t /\ Forall (importable cname env hidden) (classes t)) ts).
    { rewrite Forall_forall in *. intros t Ht. split; auto. }
    destruct (store_rt_list cname site env hidden 0 ts ds TOK OK HD) as [_ [_ Wds]].
    rewrite Forall_forall in *. intros x Hx. apply Wds. apply SUB. exact Hx. }
  pose proof (merge_normal 0 stored T Wst NS HS) as NT.
  pose proof (rw_chain_normal h bt rs T NT) as NT'. fold T' in NT'.
  specialize (E2 NT'). destruct out as [o1 o2]. cbn [fst snd] in *. subst. reflexivity.
Qed.
End E2E.

Print Assumptions k_limit_e2e.
Print Assumptions k0_e2e.

(* ================================================================================================
   non-vacuity, by evaluation: k = 2, values with nested str-keyed dicts of 1, 2 and 3 keys
   ================================================================================================ *)
From MT Require Import EncodeExamples.
Open Scope string_scope.
Open Scope nat_scope.

Definition ex_i (n : N) : value := VAtom cInt n.
Definition ex_d1 : value := VDict [(VStr "a", ex_i 1)].                                         (* 1 key *)
Definition ex_d2 : value := VDict [(VStr "p", ex_d1); (VStr "q", VStr "s")].                    (* 2 keys *)
Definition ex_d3 : value := VDict [(VStr "x", ex_i 1); (VStr "y", VStr "s"); (VStr "z", VAtom cNone 0)].  (* 3 keys *)
Definition ex_v1 : value := VDict [(VStr "one", VDict [(VStr "a", ex_i 1); (VStr "b", ex_d3)]); (VStr "two", ex_d2)].
Definition ex_v2 : value := VDict [(VStr "one", VDict [(VStr "a", ex_i 7); (VStr "b", ex_d3)])].
Definition ex_rs : list rewriter := [RRemoveEmpty; RConfigDict; RLargeUnion 2; RGenerator; RCommonBase].
Definition ex_site : string := "monkeytype.typing".

Definition ex_one : ty :=
  TTypedDict [("a", TCls 2%N); ("b", TDict (TCls 3%N) (TUnion [TCls 2%N; TCls 3%N; TCls 1%N]))] [].
Definition ex_two : ty := TTypedDict [("p", TTypedDict [("a", TCls 2%N)] []); ("q", TCls 3%N)] [].
Definition ex_ts : list ty := [TTypedDict [("one", ex_one); ("two", ex_two)] []; TTypedDict [("one", ex_one)] []].
Definition ex_T : ty := TTypedDict [("one", ex_one)] [("two", ex_two)].

Lemma ex_importable : Forall (fun t => Forall (importable ex_cn ex_ev ex_hd) (classes t)) ex_ts.
Proof. repeat constructor. Qed.

(* the hypotheses of k_limit_e2e hold of two traces (the 3-key dict became Dict[str, ...], the 1- and 2-key dicts
   TypedDicts; the second trace lacks "two", which becomes optional in the merge), and its conclusion, evaluated:
   five classes of 2, 1, 1, 2 and 1 fields; ArgTypedDict__RENAME_ME__NonTotal with its base has 2; bounded at
   limit 2 and not at limit 1 *)
Example ex_k_limit_e2e :
  typing_ok ex_ev
  /\ inferred 2 [[ex_v1]; [ex_v2]] ex_ts
  /\ Forall (fun t => Forall (importable ex_cn ex_ev ex_hd) (classes t)) ex_ts
  /\ mapM (store_rt ex_cn ex_site ex_ev ex_hd) ex_ts = Some ex_ts
  /\ incl (ex_ts ++ ex_ts) ex_ts
  /\ shrink_top 2 (ex_ts ++ ex_ts) = Some ex_T
  /\ (let out := rtd (rw_chain [] [] ex_rs ex_T) "arg" in
      fst out = TFwd "ArgTypedDict__RENAME_ME__NonTotal"
      /\ map (fun s => (cs_header s, nfields s)) (snd out)
         = [("OneTypedDict__RENAME_ME__(TypedDict)", 2); ("ArgTypedDict__RENAME_ME__(TypedDict)", 1);
            ("PTypedDict__RENAME_ME__(TypedDict)", 1); ("TwoTypedDict__RENAME_ME__(TypedDict)", 2);
            ("ArgTypedDict__RENAME_ME__NonTotal(ArgTypedDict__RENAME_ME__, total=False)", 1)]
      /\ td_boundedb 2 (rw_chain [] [] ex_rs ex_T) = true
      /\ td_boundedb 1 (rw_chain [] [] ex_rs ex_T) = false
      /\ NoDup (map cs_name (snd out))
      /\ cstubs_boundedb 2 (snd out) = true
      /\ cstubs_boundedb 1 (snd out) = false).
Proof.
  split; [exact ex_typing_ok|].
  split; [repeat constructor; vm_compute; reflexivity|].
  split; [exact ex_importable|].
  split; [vm_compute; reflexivity|].
  split; [intros x Hx; apply in_app_or in Hx; destruct Hx; assumption|].
  split; [vm_compute; reflexivity|].
  cbv zeta. split; [vm_compute; reflexivity|]. split; [vm_compute; reflexivity|].
  split; [vm_compute; reflexivity|]. split; [vm_compute; reflexivity|].
  split; [|split; vm_compute; reflexivity].
  vm_compute. repeat (constructor; [cbn [In]; intuition discriminate|]). constructor.
Qed.

(* the same input at limit 0: nothing TypedDict-like at any stage, no class stub, the stored JSON holds no
   "is_typed_dict" marker *)
Example ex_k0_e2e :
  exists ts0 T0,
    inferred 0 [[ex_v1]; [ex_v2]] ts0
    /\ Forall (fun t => Forall (importable ex_cn ex_ev ex_hd) (classes t)) ts0
    /\ mapM (store_rt ex_cn ex_site ex_ev ex_hd) ts0 = Some ts0
    /\ shrink_top 0 ts0 = Some T0
    /\ forallb normal ts0 = true
    /\ existsb has_td ts0 = false
    /\ forallb (fun t => match type_to_json ex_cn ex_site t with Ok j => negb (json_has_td j) | _ => false end) ts0 = true
    /\ has_td T0 = false
    /\ rtd (rw_chain [] [] ex_rs T0) "arg" = (rw_chain [] [] ex_rs T0, [])
    /\ rw_chain [] [] ex_rs T0 <> T0.
Proof.
  eexists. eexists.
  split; [constructor; [split; [vm_compute; reflexivity|vm_compute; reflexivity]|
          constructor; [split; [vm_compute; reflexivity|vm_compute; reflexivity]|constructor]]|].
  split; [repeat constructor|].
  split; [vm_compute; reflexivity|].
  split; [vm_compute; reflexivity|].
  repeat (split; [vm_compute; reflexivity|]). vm_compute. discriminate.
Qed.

(* ================================================================================================
   the by-name reading fails under a class-name collision (C11's finding class kf_hint_collision): a function
   g(x, y) traced twice at limit 2 —  g({"f": {"a": 1}}, {"f": {"a": 1, "b": 2}})  and
   g({"f": {"a": 1, "c": 2}}, {"f": {"a": 1, "b": 2}}).  Every TypedDict node has at most 2 fields, every generated
   class is bounded structurally (stubs_ok), but two classes are called FTypedDict__RENAME_ME__ — one with field a,
   one with fields a, b — and FTypedDict__RENAME_ME__NonTotal(FTypedDict__RENAME_ME__, total=False) adds c: read by
   name against the 2-field class it has 3 keys.  (Reproduced on monkeytype.stubs.build_module_stubs_from_traces:
   the rendered module, executed, defines FTypedDict__RENAME_ME__NonTotal with keys a, b, c.)
   ================================================================================================ *)
Definition ex_coll_fdef : fdef :=
  Build_fdef [] "g" false [("x", 0); ("y", 0)]
    [("x", TTypedDict [("f", TTypedDict [("a", TCls 2%N)] [("c", TCls 2%N)])] []);
     ("y", TTypedDict [("f", TTypedDict [("a", TCls 2%N); ("b", TCls 2%N)] [])] [])]
    (Some (TCls 1%N)) None.

Example ex_collision_exceeds_limit :
  let cs := snd (fd_replaced ex_coll_fdef) in
  infer 2 [VDict [(VStr "f", VDict [(VStr "a", ex_i 1)])]; VDict [(VStr "f", VDict [(VStr "a", ex_i 1); (VStr "c", ex_i 2)])]]
    = Some (TTypedDict [("f", TTypedDict [("a", TCls 2%N)] [("c", TCls 2%N)])] [])
  /\ forallb (fun a => td_boundedb 2 (snd a)) (fd_args ex_coll_fdef) = true
  /\ map (fun s => (cs_header s, nfields s)) cs
     = [("FTypedDict__RENAME_ME__(TypedDict)", 1);
        ("FTypedDict__RENAME_ME__NonTotal(FTypedDict__RENAME_ME__, total=False)", 1);
        ("XTypedDict__RENAME_ME__(TypedDict)", 1);
        ("FTypedDict__RENAME_ME__(TypedDict)", 2);
        ("YTypedDict__RENAME_ME__(TypedDict)", 1)]
  /\ cstubs_boundedb 2 cs = false
  /\ cstubs_boundedb 3 cs = true.
Proof. vm_compute. repeat split; reflexivity. Qed.
