(* Proofs/FilterGate.v — the gate in CallTracer.__call__ and CallTraceStoreLogger, for all events, histories
   and trace lists. *)
From Coq Require Import List Bool Arith String Ascii Lia.
From MT Require Import Filter.
Import ListNotations.
Open Scope list_scope.

(* ------------------------------------------------------------------------------------------ *)
(* CallTraceStoreLogger                                                                        *)
(* ------------------------------------------------------------------------------------------ *)
Definition not_main (t : trace) : bool := negb (is_main t).

Lemma is_main_iff : forall t, is_main t = true <-> tr_module t = Some "__main__"%string.
Proof.
  intro t. unfold is_main. destruct (tr_module t) as [m|].
  - rewrite String.eqb_eq. split; [intros ->; reflexivity|intro H; inversion H; reflexivity].
  - split; discriminate.
Qed.

Lemma log_fold : forall ts b, fold_left log ts b = b ++ filter not_main ts.
Proof.
  induction ts as [|t ts IH]; intro b; cbn [fold_left filter].
  - symmetry. apply app_nil_r.
  - rewrite IH. unfold log, not_main. destruct (is_main t); cbn [negb]; [reflexivity|].
    rewrite <- app_assoc. reflexivity.
Qed.

Lemma main_never_stored : forall ts,
  Forall (fun t => tr_module t <> Some "__main__"%string) (batch ts)
  /\ batch ts = filter not_main ts.
Proof.
  intro ts. unfold batch. rewrite log_fold. cbn [app]. split; [|reflexivity].
  apply Forall_forall. intros t H. apply filter_In in H. destruct H as [_ H].
  unfold not_main in H. apply negb_true_iff in H. intro E. apply is_main_iff in E. congruence.
Qed.

(* every trace of another module is in the batch *)
Lemma others_all_stored : forall ts t, In t ts -> tr_module t <> Some "__main__"%string -> In t (batch ts).
Proof.
  intros ts t Hin Hm. destruct (main_never_stored ts) as [_ ->]. apply filter_In. split; [exact Hin|].
  unfold not_main. apply negb_true_iff. destruct (is_main t) eqn:E; [|reflexivity].
  apply is_main_iff in E. contradiction.
Qed.

(* any interleaving of log and flush: what the store has received plus what is still buffered is exactly the
   non-__main__ traces logged so far, in order; a flush empties the buffer *)
Lemma lrun_invariant : forall ops s,
  List.concat (added (lrun s ops)) ++ buf (lrun s ops) = List.concat (added s) ++ buf s ++ filter not_main (logged_of ops).
Proof.
  induction ops as [|o ops IH]; intro s; unfold lrun in *; cbn [fold_left logged_of flat_map filter].
  - rewrite app_nil_r. reflexivity.
  - rewrite IH. fold (logged_of ops). destruct o as [t|]; cbn [lstep added buf app].
    + unfold log. cbn [filter]. unfold not_main at 2. destruct (is_main t); cbn [negb].
      * reflexivity.
      * rewrite <- !app_assoc. reflexivity.
    + rewrite concat_app. cbn [List.concat]. rewrite app_nil_r, <- app_assoc. reflexivity.
Qed.

Lemma logger_history : forall ops,
  let s := lrun slogger0 (ops ++ [Flush]) in
  List.concat (added s) = filter not_main (logged_of ops) /\ buf s = [].
Proof.
  intro ops. cbn zeta. unfold lrun. rewrite fold_left_app. cbn [fold_left lstep buf added].
  split; [|reflexivity]. rewrite concat_app. cbn [List.concat]. rewrite app_nil_r.
  exact (lrun_invariant ops slogger0).
Qed.

(* ------------------------------------------------------------------------------------------ *)
(* the gate                                                                                    *)
(* ------------------------------------------------------------------------------------------ *)
Section GateFacts.
  Variables code frame T : Type.
  Variable inner : T -> evkind -> code -> frame -> T * list trace.
  Variable is_trace_types : code -> bool.
  Variable filt : option (code -> bool).

  Notation gate := (gate code frame T inner is_trace_types filt).
  Notation ungated := (ungated code frame T inner).
  Notation passes := (passes code frame is_trace_types filt).
  Notation rejected := (rejected code filt).
  Notation run := (run code frame T).

  (* one event *)
  Lemma gate_step : forall (s : T) (e : event code frame),
    (forall f, filt = Some f -> f (ev_code e) = false -> gate s e = (s, []))
    /\ (supported (ev_kind e) = true -> is_trace_types (ev_code e) = false ->
        (forall f, filt = Some f -> f (ev_code e) = true) -> gate s e = ungated s e).
  Proof.
    intros s e. unfold Filter.gate, Filter.passes, Filter.rejected, Filter.ungated. split.
    - intros f -> Hf. rewrite Hf. cbn. rewrite !orb_true_r. reflexivity.
    - intros Hs Ht Hf. rewrite Hs, Ht. destruct filt as [f|]; [rewrite (Hf f eq_refl)|]; reflexivity.
  Qed.

  (* a whole history: the gated tracer is the tracer behind the gate run on the admitted sub-history *)
  Lemma gate_history : forall (H : list (event code frame)) (s : T),
    run gate s H = run ungated s (filter passes H).
  Proof.
    induction H as [|e H IH]; intro s; cbn [Filter.run filter]; [reflexivity|].
    unfold Filter.gate at 1. destruct (passes e) eqn:P.
    - cbn [Filter.run]. unfold Filter.ungated at 1.
      destruct (inner s (ev_kind e) (ev_code e) (ev_frame e)) as [s1 l1]. rewrite IH. reflexivity.
    - rewrite IH. destruct (run ungated s (filter passes H)). reflexivity.
  Qed.

  (* nothing the delegate does not emit for admitted code ever reaches the logger *)
  Lemma logged_invariant : forall (P : trace -> Prop),
    (forall s k c fr t, rejected c = false -> In t (snd (inner s k c fr)) -> P t) ->
    forall (H : list (event code frame)) (s : T), Forall P (snd (run gate s H)).
  Proof.
    intros P HP. induction H as [|e H IH]; intro s; cbn [Filter.run]; [constructor|].
    unfold Filter.gate at 1. destruct (passes e) eqn:Pe.
    - destruct (inner s (ev_kind e) (ev_code e) (ev_frame e)) as [s1 l1] eqn:E.
      specialize (IH s1). destruct (run gate s1 H) as [s2 l2]. cbn [snd] in *.
      apply Forall_app. split; [|exact IH]. apply Forall_forall. intros t Ht.
      apply (HP s (ev_kind e) (ev_code e) (ev_frame e)); [|rewrite E; exact Ht].
      unfold Filter.passes in Pe. apply negb_true_iff in Pe. apply orb_false_iff in Pe. tauto.
    - specialize (IH s). destruct (run gate s H) as [s2 l2]. exact IH.
  Qed.

  (* a history consisting of rejected code only changes nothing and logs nothing *)
  Lemma rejected_history_inert : forall f (H : list (event code frame)) (s : T),
    filt = Some f -> Forall (fun e => f (ev_code e) = false) H -> run gate s H = (s, []).
  Proof.
    intros f H s Hf Hall. rewrite gate_history.
    assert (filter passes H = []) as ->; [|reflexivity].
    induction Hall as [|e H He _ IH]; [reflexivity|]. cbn [filter].
    assert (passes e = false) as ->; [|exact IH].
    unfold Filter.passes, Filter.rejected. rewrite Hf, He. cbn. rewrite !orb_true_r. reflexivity.
  Qed.
End GateFacts.

(* ------------------------------------------------------------------------------------------ *)
(* the concrete small tracer behind the gate: for every history whatsoever, every trace that    *)
(* reaches the logger belongs to code the filter admits                                         *)
(* ------------------------------------------------------------------------------------------ *)
Section Mini.
  Variable resolve : nat -> option trace.
  Variable is_tt : nat -> bool.
  Variable filt : option (nat -> bool).

  Notation mgate := (gate nat nat mini_state (mini_inner resolve) is_tt filt).
  Notation mrun := (run nat nat mini_state).
  Notation rej := (rejected nat filt).

  Definition live_admitted (s : mini_state) : Prop := Forall (fun fc => rej (snd fc) = false) s.
  Definition from_admitted (t : trace) : Prop := exists c, resolve c = Some t /\ rej c = false.

  Lemma find_frame_in : forall f s c, find_frame f s = Some c -> In (f, c) s.
  Proof.
    induction s as [|[g c'] s IH]; intros c H; cbn [find_frame] in H; [discriminate|].
    destruct (Nat.eqb f g) eqn:E.
    - apply Nat.eqb_eq in E. inversion H; subst. left. reflexivity.
    - right. apply IH. exact H.
  Qed.

  Lemma remove_frame_admitted : forall f s, live_admitted s -> live_admitted (remove_frame f s).
  Proof.
    unfold live_admitted. induction s as [|[g c] s IH]; intro H; cbn [remove_frame]; [constructor|].
    inversion H; subst. destruct (Nat.eqb f g); [assumption|]. constructor; [assumption|apply IH; assumption].
  Qed.

  Lemma mini_step : forall s e s' l, live_admitted s -> mgate s e = (s', l) ->
    live_admitted s' /\ Forall from_admitted l.
  Proof.
    intros s e s' l Hs Hg. unfold Filter.gate in Hg. destruct (passes nat nat is_tt filt e) eqn:P.
    - assert (Hr : rej (ev_code e) = false).
      { unfold passes in P. apply negb_true_iff in P. apply orb_false_iff in P. tauto. }
      unfold mini_inner in Hg. destruct (ev_kind e).
      + destruct (resolve (ev_code e)); [|inversion Hg; subst; split; [assumption|constructor]].
        destruct (find_frame (ev_frame e) s); inversion Hg; subst; (split; [|constructor]); [assumption|].
        constructor; [exact Hr|exact Hs].
      + destruct (find_frame (ev_frame e) s) as [c'|] eqn:F.
        * inversion Hg; subst. split; [apply remove_frame_admitted; exact Hs|].
          apply find_frame_in in F. unfold live_admitted in Hs. rewrite Forall_forall in Hs.
          specialize (Hs _ F). cbn [snd] in Hs.
          destruct (resolve c') as [t|] eqn:R; [|constructor].
          constructor; [|constructor]. exists c'. split; assumption.
        * inversion Hg; subst. split; [assumption|constructor].
      + inversion Hg; subst. split; [assumption|constructor].
    - inversion Hg; subst. split; [assumption|constructor].
  Qed.

  Lemma mini_logged_admitted : forall (H : list (event nat nat)) s, live_admitted s ->
    Forall from_admitted (snd (mrun mgate s H)).
  Proof.
    induction H as [|e H IH]; intros s Hs; cbn [Filter.run]; [constructor|].
    destruct (mgate s e) as [s1 l1] eqn:E. destruct (mini_step s e s1 l1 Hs E) as [Hs1 Hl1].
    specialize (IH s1 Hs1). destruct (mrun mgate s1 H) as [s2 l2]. cbn [snd] in *.
    apply Forall_app. split; assumption.
  Qed.

  (* the whole pipeline tracer -> logger -> store.add: every row handed to the store comes from code the
     filter admits and from a module other than __main__ *)
  Notation pipeline_rows := (pipeline_rows resolve is_tt filt).

  Lemma pipeline_rows_sound : forall H,
    Forall (fun t => from_admitted t /\ tr_module t <> Some "__main__"%string) (pipeline_rows H).
  Proof.
    intro H. unfold Filter.pipeline_rows. destruct (main_never_stored (snd (mrun mgate [] H))) as [Hm He].
    apply Forall_forall. intros t Ht. split.
    - rewrite He in Ht. apply filter_In in Ht. destruct Ht as [Ht _].
      pose proof (mini_logged_admitted H [] (Forall_nil _)) as Ha. rewrite Forall_forall in Ha. apply Ha. exact Ht.
    - rewrite Forall_forall in Hm. apply Hm. exact Ht.
  Qed.

  (* and an admitted, resolvable, non-__main__ call that completes is stored: one call/return pair *)
  Lemma pipeline_single_call_stored : forall c f t,
    resolve c = Some t -> rej c = false -> is_tt c = false -> tr_module t <> Some "__main__"%string ->
    pipeline_rows [Build_event KCall c f; Build_event KReturn c f] = [t].
  Proof.
    intros c f t Hr Hj Ht Hm. unfold Filter.pipeline_rows. cbn [Filter.run]. unfold Filter.gate, passes.
    cbn [ev_kind ev_code ev_frame supported negb orb]. rewrite Ht, Hj. cbn [orb negb].
    unfold mini_inner at 1. rewrite Hr. cbn [find_frame].
    unfold mini_inner. cbn [find_frame]. rewrite Nat.eqb_refl. rewrite Hr. cbn.
    unfold batch. cbn [fold_left]. unfold log. destruct (is_main t) eqn:E; [|reflexivity].
    apply is_main_iff in E. contradiction.
  Qed.
End Mini.
