(* Proofs/ApplyIdemBase.v — C15 idempotence, part 1: generic facts about the walk of Model/Apply.v.
   - [insq Q a b]: b is a with statements satisfying Q inserted;
   - a statement the stub does not touch is returned unchanged by the walk;
   - walking an already walked statement again, under an environment that differs only in the source-derived
     parts (global names, visited classes) on names no offered annotation mentions, changes nothing. *)
From Coq Require Import List Bool Arith String Ascii Lia.
From MT Require Import Apply ApplyFacts.
Import ListNotations.
Open Scope list_scope.

(* ---------------------------------------------------------------- str_in *)
Lemma str_in_In : forall x l, str_in x l = true <-> In x l.
Proof.
  intros. unfold str_in. rewrite existsb_exists. split.
  - intros [y [Hy E]]. apply String.eqb_eq in E. subst. assumption.
  - intro H. exists x. split; [assumption|apply String.eqb_refl].
Qed.
Lemma str_in_false : forall x l, str_in x l = false <-> ~ In x l.
Proof.
  intros. rewrite <- str_in_In. destruct (str_in x l); split; intro H; congruence.
Qed.
Lemma str_in_incl : forall x a b, incl a b -> str_in x a = true -> str_in x b = true.
Proof. intros x a b I H. apply str_in_In. apply I. apply str_in_In. assumption. Qed.

(* ---------------------------------------------------------------- insertion of Q-statements *)
Section InsQ.
Context (Q : stmt -> Prop).
Inductive insq : list stmt -> list stmt -> Prop :=
| insq_nil : insq [] []
| insq_keep : forall x s r, insq s r -> insq (x :: s) (x :: r)
| insq_add : forall x s r, Q x -> insq s r -> insq s (x :: r).
Lemma insq_refl : forall s, insq s s.
Proof. induction s; constructor; assumption. Qed.
Lemma insq_adds : forall new s r, Forall Q new -> insq s r -> insq s (new ++ r).
Proof. induction new as [|x n IH]; intros s r H I; cbn; [assumption|]. inversion H; subst. apply insq_add; auto. Qed.
Lemma insq_app : forall a a' b b', insq a a' -> insq b b' -> insq (a ++ b) (a' ++ b').
Proof. intros a a' b b' I J. induction I; cbn; try constructor; auto. Qed.
Lemma insq_trans : forall a b c, insq a b -> insq b c -> insq a c.
Proof.
  intros a b c I J. revert a I. induction J; intros a I.
  - assumption.
  - inversion I; subst; [apply insq_keep|apply insq_add]; auto.
  - apply insq_add; auto.
Qed.
Lemma insq_insert_at : forall n new s, Forall Q new -> insq s (insert_at n new s).
Proof.
  intros. unfold insert_at. rewrite <- (firstn_skipn n s) at 1.
  apply insq_app; [apply insq_refl|]. apply insq_adds; [assumption|apply insq_refl].
Qed.
Lemma insq_In : forall a b, insq a b -> forall x, In x b -> In x a \/ Q x.
Proof.
  intros a b I. induction I; intros y Hy.
  - destruct Hy.
  - destruct Hy as [E|Hy]; [left; left; assumption|]. destruct (IHI y Hy); [left; right|right]; assumption.
  - destruct Hy as [E|Hy]; [subst; right; assumption|]. apply IHI. assumption.
Qed.
Lemma insq_incl : forall a b, insq a b -> incl a b.
Proof.
  intros a b I. induction I; intros y Hy.
  - assumption.
  - destruct Hy as [E|Hy]; [left; assumption|right; apply IHI; assumption].
  - right. apply IHI. assumption.
Qed.
End InsQ.
Lemma insq_mono : forall (Q Q' : stmt -> Prop) a b, (forall x, Q x -> Q' x) -> insq Q a b -> insq Q' a b.
Proof. intros Q Q' a b H I. induction I; constructor; auto. Qed.

(* ---------------------------------------------------------------- unfolding the nested fixpoints *)
Lemma touches_Class : forall e path n d b body,
  touches e path (Class n d b body) = existsb (touches e (path ++ [n])) body.
Proof. intros. cbn [touches]. induction body as [|x r IH]; cbn; [reflexivity|]. now rewrite IH. Qed.
Lemma touches_Block : forall e path t body, touches e path (Block t body) = existsb (touches e path) body.
Proof. intros. cbn [touches]. induction body as [|x r IH]; cbn; [reflexivity|]. now rewrite IH. Qed.
Lemma global_names_Block : forall t body, global_names (Block t body) = global_names_list body.
Proof. reflexivity. Qed.
Lemma all_items_Def : forall h body, all_items (Def h body) = all_items_list body.
Proof. reflexivity. Qed.
Lemma all_items_Class : forall n d b body, all_items (Class n d b body) = all_items_list body.
Proof. reflexivity. Qed.
Lemma all_items_Block : forall t body, all_items (Block t body) = all_items_list body.
Proof. reflexivity. Qed.

(* ---------------------------------------------------------------- what the walk leaves alone *)
Lemma walk_global_names : forall s e vis path, global_names (walk e vis path s) = global_names s.
Proof.
  induction s using stmt_ind'; intros; try reflexivity.
  rewrite walk_Block, !global_names_Block. revert vis.
    induction H as [|x r Hx Hr IH]; intro vis; cbn; [reflexivity|].
    unfold global_names_list in *. cbn. now rewrite Hx, IH.
Qed.
Lemma walk_list_global_names : forall ss e vis path,
  global_names_list (walk_list e vis path ss) = global_names_list ss.
Proof.
  induction ss as [|x r IH]; intros; cbn; [reflexivity|]. unfold global_names_list in *. cbn.
  now rewrite walk_global_names, IH.
Qed.
Lemma walk_all_items : forall s e vis path, all_items (walk e vis path s) = all_items s.
Proof.
  induction s using stmt_ind'; intros; try reflexivity.
  - rewrite walk_Class, !all_items_Class. revert vis.
    induction H as [|x r Hx Hr IH]; intro vis; cbn; [reflexivity|].
    unfold all_items_list in *. cbn. now rewrite Hx, IH.
  - rewrite walk_Block, !all_items_Block. revert vis.
    induction H as [|x r Hx Hr IH]; intro vis; cbn; [reflexivity|].
    unfold all_items_list in *. cbn. now rewrite Hx, IH.
Qed.
Lemma walk_list_all_items : forall ss e vis path, all_items_list (walk_list e vis path ss) = all_items_list ss.
Proof.
  induction ss as [|x r IH]; intros; cbn; [reflexivity|]. unfold all_items_list in *. cbn.
  now rewrite walk_all_items, IH.
Qed.
Lemma walk_list_classes_in : forall ss e vis path, classes_in_list (walk_list e vis path ss) = classes_in_list ss.
Proof.
  induction ss as [|x r IH]; intros; cbn; [reflexivity|]. unfold classes_in_list in *. cbn.
  now rewrite walk_classes_in, IH.
Qed.

(* ---------------------------------------------------------------- two environments that differ only in source-derived names *)
Definition single_of (a : anno) : list string := match a with [AName [x]] => [x] | _ => [] end.
Definition oanno_list (o : option anno) : list anno := match o with Some a => [a] | None => [] end.
(* every annotation a stub header can offer, after dequalification *)
Definition hdr_annos (simp : list (string * string)) (sh : defhdr) : list anno :=
  oanno_list (option_map (resolve simp) (d_ret sh))
  ++ flat_map (fun p => oanno_list (p_anno (resolve_param simp p))) (d_params sh).
(* the names x for which some stub function offers the one-name annotation `x` (the only annotations
   libcst may turn into a forward-reference string) *)
Definition single_names (simp : list (string * string)) (funs : list (list string * defhdr)) : list string :=
  flat_map (fun ph => flat_map single_of (hdr_annos simp (snd ph))) funs.
(* quoting decisions can differ only when annotations are (re)written on the second pass, i.e. when overwriting *)
Definition cands (e : env) : list string := if e_ow e then single_names (e_simp e) (e_funs e) else [].
Definition agree (C a b : list string) : Prop := forall x, In x C -> str_in x a = str_in x b.
Definition env_sim (e e' : env) : Prop :=
  e_ow e' = e_ow e /\ e_simp e' = e_simp e /\ e_funs e' = e_funs e /\ agree (cands e) (e_globals e) (e_globals e').

Lemma agree_app : forall C a b l, agree C a b -> agree C (a ++ l) (b ++ l).
Proof. intros C a b l H x Hx. rewrite !str_in_app, (H x Hx). reflexivity. Qed.
Lemma agree_app_r : forall C a b l, agree C a b -> (forall x, In x C -> str_in x l = false) -> agree C a (b ++ l).
Proof. intros C a b l H N x Hx. rewrite str_in_app, (H x Hx), (N x Hx), orb_false_r. reflexivity. Qed.

Lemma find_last_In : forall path ps fs h, find_last path ps fs = Some h -> exists p, In (p, h) fs.
Proof.
  induction fs as [|[p h0] r IH]; intros h E; cbn in E; [discriminate|].
  destruct (find_last path ps r) as [h'|] eqn:E'.
  - inversion E; subst. destruct (IH h eq_refl) as [q Hq]. exists q. right. assumption.
  - destruct (key_eqb _ _ _ _); [|discriminate]. inversion E; subst. exists p. left. reflexivity.
Qed.
Lemma matching_In : forall e path h sh, matching e path h = Some sh -> exists p, In (p, sh) (e_funs e).
Proof.
  intros e path h sh M. unfold matching in M.
  destruct (find_last _ _ _) as [sh'|] eqn:E; [|discriminate].
  destruct (names_match _ _); [|discriminate]. inversion M; subst. eapply find_last_In; eauto.
Qed.
Lemma stub_param_anno_In : forall n k sps a,
  stub_param_anno n k sps = Some a -> exists sp, In sp sps /\ p_anno sp = Some a.
Proof.
  induction sps as [|sp r IH]; intros a E; cbn in E; [discriminate|].
  destruct (stub_param_anno n k r) as [a'|] eqn:E'.
  - inversion E; subst. destruct (IH a eq_refl) as [q [Hq Ha]]. exists q. split; [right|]; assumption.
  - destruct (_ && _); [|discriminate]. exists sp. split; [left; reflexivity|assumption].
Qed.
Lemma in_single_names : forall simp funs p sh a x,
  In (p, sh) funs -> In a (hdr_annos simp sh) -> a = [AName [x]] -> In x (single_names simp funs).
Proof.
  intros simp funs p sh a x Hf Ha E. unfold single_names. apply in_flat_map. exists (p, sh). split; [assumption|].
  cbn [snd]. apply in_flat_map. exists a. split; [assumption|]. subst a. left. reflexivity.
Qed.
Lemma offered_in_annos : forall e sh p a, offered e sh p = Some a -> In a (hdr_annos (e_simp e) sh).
Proof.
  intros e sh p a E. unfold offered in E. destruct (star_kind (p_kind p)); [discriminate|].
  apply stub_param_anno_In in E as [sp [Hsp Ha]]. apply in_map_iff in Hsp as [sp0 [E0 H0]]. subst sp.
  unfold hdr_annos. apply in_or_app. right. apply in_flat_map. exists sp0. split; [assumption|].
  rewrite Ha. left. reflexivity.
Qed.
Lemma offered_ret_in_annos : forall e sh a, offered_ret e sh = Some a -> In a (hdr_annos (e_simp e) sh).
Proof.
  intros e sh a E. unfold offered_ret in E. unfold hdr_annos. apply in_or_app. left. rewrite E. left. reflexivity.
Qed.

Lemma quote_agree : forall C vis vis' gl gl' a,
  agree C vis vis' -> agree C gl gl' -> (forall x, a = [AName [x]] -> In x C) ->
  quote vis' gl' a = quote vis gl a.
Proof.
  intros C vis vis' gl gl' a Av Ag H. unfold quote.
  destruct a as [|[[|x [|y p]]|t] [|a2 r]]; try reflexivity.
  rewrite (Av x (H x eq_refl)), (Ag x (H x eq_refl)). reflexivity.
Qed.

Section Sim.
Context (e e' : env) (S : env_sim e e').
Lemma sim_matching : forall path h, matching e' path h = matching e path h.
Proof. intros. destruct S as (_ & _ & Hf & _). unfold matching. rewrite Hf. reflexivity. Qed.
Lemma sim_offered : forall sh p, offered e' sh p = offered e sh p.
Proof. intros. destruct S as (_ & Hs & _ & _). unfold offered. rewrite Hs. reflexivity. Qed.
Lemma sim_offered_ret : forall sh, offered_ret e' sh = offered_ret e sh.
Proof. intros. destruct S as (_ & Hs & _ & _). unfold offered_ret. rewrite Hs. reflexivity. Qed.
Lemma sim_takes : forall cur, takes e' cur = takes e cur.
Proof. intros. destruct S as (Ho & _ & _ & _). unfold takes. rewrite Ho. reflexivity. Qed.
Lemma sim_touches_hdr : forall path h, touches_hdr e' path h = touches_hdr e path h.
Proof.
  intros. unfold touches_hdr. rewrite sim_matching. destruct (matching e path h) as [sh|]; [|reflexivity].
  rewrite sim_offered_ret, sim_takes. f_equal.
  induction (d_params h) as [|p r IH]; cbn; [reflexivity|]. now rewrite sim_offered, sim_takes, IH.
Qed.

Lemma sim_quote : forall path h sh vis vis' a,
  matching e path h = Some sh -> In a (hdr_annos (e_simp e) sh) -> e_ow e = true -> agree (cands e) vis vis' ->
  quote vis' (e_globals e') a = quote vis (e_globals e) a.
Proof.
  intros path h sh vis vis' a M Ha Ow Av. destruct S as (_ & _ & _ & Ag).
  apply (quote_agree (cands e)); try assumption.
  intros x Ex. unfold cands. rewrite Ow. destruct (matching_In _ _ _ _ M) as [p Hp].
  eapply in_single_names; eauto.
Qed.

(* the second pass over an annotated header *)
Lemma sim_annotate_idem : forall vis vis' path h,
  agree (cands e) vis vis' ->
  annotate e' vis' path (annotate e vis path h) = annotate e vis path h.
Proof.
  intros vis vis' path h Av. unfold annotate at 1. rewrite sim_matching, matching_annotated.
  destruct (matching e path h) as [sh|] eqn:M; [|unfold annotate; rewrite M; reflexivity].
  unfold annotate. rewrite M. cbn [d_name d_async d_decos d_params d_ret]. f_equal.
  - rewrite map_map. apply map_ext. intro p.
    unfold annotate_param at 1. rewrite sim_offered, offered_annotated.
    destruct (offered e sh p) as [a|] eqn:Eo; [|unfold annotate_param; rewrite Eo; reflexivity].
    unfold annotate_param. rewrite Eo, sim_takes.
    destruct (takes e (p_anno p)) eqn:Et; cbn [p_anno p_name p_kind p_default].
    + unfold takes. destruct (e_ow e) eqn:Ow; cbn [orb]; [|reflexivity].
      rewrite (sim_quote path h sh vis vis' a M (offered_in_annos _ _ _ _ Eo) Ow Av). reflexivity.
    + rewrite Et. reflexivity.
  - unfold annotate_ret. rewrite sim_offered_ret.
    destruct (offered_ret e sh) as [a|] eqn:Eo; [|reflexivity]. rewrite sim_takes.
    destruct (takes e (d_ret h)) eqn:Et.
    + unfold takes. destruct (e_ow e) eqn:Ow; cbn [orb]; [|reflexivity].
      rewrite (sim_quote path h sh vis vis' a M (offered_ret_in_annos _ _ _ Eo) Ow Av). reflexivity.
    + rewrite Et. reflexivity.
Qed.
Lemma sim_walk_idem : forall s vis vis' path,
  agree (cands e) vis vis' -> walk e' vis' path (walk e vis path s) = walk e vis path s.
Proof.
  induction s using stmt_ind'; intros vis vis' path Av; try reflexivity.
  - cbn. now rewrite sim_annotate_idem.
  - rewrite !walk_Class. f_equal. revert vis vis' Av.
    induction H as [|x r Hx Hr IH]; intros vis vis' Av; cbn; [reflexivity|].
    rewrite (Hx vis vis' _ Av), walk_classes_in, IH; [reflexivity|apply agree_app; assumption].
  - rewrite !walk_Block. f_equal. revert vis vis' Av.
    induction H as [|x r Hx Hr IH]; intros vis vis' Av; cbn; [reflexivity|].
    rewrite (Hx vis vis' _ Av), walk_classes_in, IH; [reflexivity|apply agree_app; assumption].
Qed.

(* a statement the stub does not touch is returned as it is *)
Lemma map_id_in : forall A (f : A -> A) l, (forall x, In x l -> f x = x) -> map f l = l.
Proof. intros A f l H. induction l as [|a r IH]; cbn; [reflexivity|]. rewrite H by (left; reflexivity). f_equal. apply IH. intros. apply H. right. assumption. Qed.
Lemma sim_untouched_hdr : forall vis path h, touches_hdr e path h = false -> annotate e' vis path h = h.
Proof.
  intros vis path h T. rewrite <- sim_touches_hdr in T. unfold touches_hdr in T. unfold annotate.
  destruct (matching e' path h) as [sh|]; [|reflexivity].
  apply orb_false_iff in T as [T1 T2]. destruct h as [n a d ps r]. cbn [d_name d_async d_decos d_params d_ret] in *.
  f_equal.
  - apply map_id_in. intros p Hp. unfold annotate_param.
    destruct (offered e' sh p) eqn:Eo; [|reflexivity].
    destruct (takes e' (p_anno p)) eqn:Et; [|reflexivity].
    exfalso. assert (X : existsb (fun p => match offered e' sh p with Some _ => takes e' (p_anno p) | None => false end) ps = true).
    { apply existsb_exists. exists p. split; [assumption|]. rewrite Eo. assumption. }
    congruence.
  - unfold annotate_ret. destruct (offered_ret e' sh); [|reflexivity]. rewrite T2. reflexivity.
Qed.
Lemma sim_untouched : forall s vis path, touches e path s = false -> walk e' vis path s = s.
Proof.
  induction s using stmt_ind'; intros vis path T; try reflexivity.
  - cbn in *. now rewrite sim_untouched_hdr.
  - rewrite walk_Class. f_equal. rewrite touches_Class in T. revert vis T.
    induction H as [|x r Hx Hr IH]; intros vis T; cbn in *; [reflexivity|].
    apply orb_false_iff in T as [T1 T2]. now rewrite Hx, IH.
  - rewrite walk_Block. f_equal. rewrite touches_Block in T. revert vis T.
    induction H as [|x r Hx Hr IH]; intros vis T; cbn in *; [reflexivity|].
    apply orb_false_iff in T as [T1 T2]. now rewrite Hx, IH.
Qed.
Lemma sim_untouched_list : forall ss vis path, existsb (touches e path) ss = false -> walk_list e' vis path ss = ss.
Proof.
  induction ss as [|x r IH]; intros vis path T; cbn in *; [reflexivity|].
  apply orb_false_iff in T as [T1 T2]. now rewrite sim_untouched, IH.
Qed.

(* the second pass over the walked source with untouched statements inserted *)
Lemma sim_walk_list_ins : forall (Q : stmt -> Prop) path,
  (forall x, Q x -> touches e path x = false /\ (forall c, In c (cands e) -> str_in c (classes_in x) = false)) ->
  forall out ss vis vis', agree (cands e) vis vis' ->
    insq Q (walk_list e vis path ss) out -> walk_list e' vis' path out = out.
Proof.
  intros Q path HQ out ss vis vis' Av I. remember (walk_list e vis path ss) as M eqn:EM.
  revert ss vis vis' Av EM. induction I; intros ss vis vis' Av EM.
  - reflexivity.
  - destruct ss as [|s0 ss]; cbn in EM; [discriminate|]. inversion EM; subst. cbn.
    rewrite sim_walk_idem by assumption. f_equal.
    apply (IHI ss (vis ++ classes_in s0)); [|reflexivity].
    rewrite walk_classes_in. apply agree_app. assumption.
  - destruct (HQ x H) as [T N]. cbn. rewrite sim_untouched by assumption. f_equal.
    apply (IHI ss vis); [|assumption]. apply agree_app_r; assumption.
Qed.
End Sim.

Lemma env_sim_refl : forall e, env_sim e e.
Proof. intro e. repeat split; try reflexivity. Qed.
Lemma untouched_list : forall e ss vis path, existsb (touches e path) ss = false -> walk_list e vis path ss = ss.
Proof. intros e. apply (sim_untouched_list e e (env_sim_refl e)). Qed.

(* global names of the source with Q-statements inserted *)
Lemma insq_global_names : forall (Q : stmt -> Prop) C,
  (forall x, Q x -> forall c, In c C -> str_in c (global_names x) = false) ->
  forall a b, insq Q a b -> agree C (global_names_list a) (global_names_list b).
Proof.
  intros Q C HQ a b I. induction I; intros c Hc.
  - reflexivity.
  - change (global_names_list (x :: s)) with (global_names x ++ global_names_list s).
    change (global_names_list (x :: r)) with (global_names x ++ global_names_list r).
    rewrite !str_in_app. f_equal. apply IHI. assumption.
  - change (global_names_list (x :: r)) with (global_names x ++ global_names_list r).
    rewrite str_in_app, (HQ x H c Hc). cbn [orb]. apply IHI. assumption.
Qed.
