(* Proofs/StubRenderSig.v — C12, signatures: what render_signature writes, Python's parameter grammar reads back,
   in either layout. *)
From Coq Require Import List Bool Arith ZArith String Ascii Lia.
From MT Require Import StubRender.
Import ListNotations.
Open Scope list_scope.

(* ---------------------------------------------------------------------------------------------- *)
(* tokens of one entry and the comma structure                                                     *)
(* ---------------------------------------------------------------------------------------------- *)
Definition stars_of (k : pkind) : pstars := match k with VP => S1 | VK => S2 | _ => S0 end.

Definition pitem_of (it : fitem) : pitem :=
  match it with
  | FSlash => ISlash
  | FStar => IStar
  | FParam p => IParam (stars_of (p_kind p)) (p_name p) (isSome (p_anno p)) (p_default p)
  end.

Definition seg_of (it : fitem) : list token := strip_layout (fitem_tokens it).

Definition sep_free (t : token) : Prop := t <> TComma /\ t <> TRParen.

Lemma seg_parses : forall it, parse_seg (seg_of it) = Some (pitem_of it).
Proof.
  intros [| | [n k a d]]; try reflexivity.
  destruct k, a, d; reflexivity.
Qed.

Lemma seg_sep_free : forall it, Forall sep_free (seg_of it).
Proof.
  intros [| | [n k a d]]; unfold seg_of; cbn.
  - repeat constructor; discriminate.
  - repeat constructor; discriminate.
  - destruct k, a, d; cbn; repeat constructor; discriminate.
Qed.

Lemma seg_nonempty : forall it, seg_of it <> [].
Proof.
  intros [| | [n k a d]]; unfold seg_of; cbn; try discriminate.
  destruct k, a, d; cbn; discriminate.
Qed.

Fixpoint join_comma (segs : list (list token)) : list token :=
  match segs with
  | [] => []
  | [s] => s
  | s :: r => s ++ TComma :: join_comma r
  end.

Lemma split_commas_seg : forall seg rest0,
  Forall sep_free seg ->
  forall segs rest,
    split_commas rest0 = Some (segs, rest) ->
    split_commas (seg ++ rest0) = match segs with
                                  | s :: segs' => Some ((seg ++ s) :: segs', rest)
                                  | [] => None
                                  end.
Proof.
  induction seg as [| t seg IH]; intros rest0 Hf segs rest Hs.
  - cbn. rewrite Hs. destruct segs; [|reflexivity].
    (* split_commas never returns an empty list of segments *)
    exfalso. clear -Hs. revert rest Hs. induction rest0 as [| t r IHr]; intros rest Hs; cbn in Hs; [discriminate|].
    destruct t; try (destruct (split_commas r) as [[[|? ?] ?]|]; discriminate).
  - inversion Hf as [| ? ? [Hc Hp] Hf']; subst.
    cbn [app]. specialize (IH rest0 Hf' segs rest Hs).
    destruct segs as [| s segs'].
    + destruct t; cbn; rewrite ?IH; try reflexivity; congruence.
    + destruct t; cbn; rewrite ?IH; try reflexivity; congruence.
Qed.

Lemma split_commas_join : forall segs rest,
  segs <> [] -> Forall (Forall sep_free) segs ->
  split_commas (join_comma segs ++ TRParen :: rest) = Some (segs, rest).
Proof.
  induction segs as [| s [| s2 r] IH]; intros rest Hne Hf.
  - congruence.
  - cbn [join_comma]. inversion Hf; subst.
    erewrite split_commas_seg; eauto; [|reflexivity]. cbn. now rewrite app_nil_r.
  - inversion Hf as [| ? ? Hs Hr]; subst.
    change (join_comma (s :: s2 :: r)) with (s ++ TComma :: join_comma (s2 :: r)).
    rewrite <- app_assoc. cbn [app].
    erewrite split_commas_seg with (segs := [] :: s2 :: r) (rest := rest); eauto.
    + now rewrite app_nil_r.
    + cbn [split_commas]. rewrite IH; [reflexivity|discriminate|assumption].
Qed.

(* ---------------------------------------------------------------------------------------------- *)
(* both layouts have the same tokens                                                               *)
(* ---------------------------------------------------------------------------------------------- *)
Lemma strip_layout_app : forall a b, strip_layout (a ++ b) = strip_layout a ++ strip_layout b.
Proof. intros; unfold strip_layout; apply filter_app. Qed.

Lemma strip_join_single : forall its, strip_layout (join_single its) = join_comma (map seg_of its).
Proof.
  induction its as [| it [| it2 r] IH]; [reflexivity|reflexivity|].
  change (join_single (it :: it2 :: r)) with (fitem_tokens it ++ [TComma; sp] ++ join_single (it2 :: r)).
  rewrite !strip_layout_app, IH. reflexivity.
Qed.

Lemma strip_lines_multi : forall prefix its, strip_layout (lines_multi prefix its) = join_comma (map seg_of its).
Proof.
  intros prefix. induction its as [| it [| it2 r] IH]; [reflexivity| |].
  - cbn [lines_multi]. rewrite !strip_layout_app. cbn. now rewrite !app_nil_r.
  - change (lines_multi prefix (it :: it2 :: r))
      with ([TLayout (String nl (prefix ++ "    "))] ++ fitem_tokens it ++ [TComma] ++ lines_multi prefix (it2 :: r)).
    rewrite !strip_layout_app, IH. reflexivity.
Qed.

Lemma strip_render_return : forall ret,
  strip_layout (render_return ret) = match ret with Some a => [TArrow; TAnno a] | None => [] end.
Proof. destruct ret; reflexivity. Qed.

Lemma strip_render_sig : forall l ps ret,
  strip_layout (render_sig l ps ret) =
  TLParen :: join_comma (map seg_of (formatted_params ps)) ++ TRParen :: strip_layout (render_return ret).
Proof.
  intros [|prefix] ps ret; unfold render_sig; rewrite !strip_layout_app.
  - rewrite strip_join_single. reflexivity.
  - rewrite strip_lines_multi. reflexivity.
Qed.

Lemma wrap_irrelevant_layout : forall l1 l2 ps ret,
  strip_layout (render_sig l1 ps ret) = strip_layout (render_sig l2 ps ret).
Proof. intros. now rewrite !strip_render_sig. Qed.

Lemma wrap_irrelevant_lemma : forall prefix ps ret,
  strip_layout (render_sig (Multi prefix) ps ret) = strip_layout (render_sig Single ps ret).
Proof. intros. apply wrap_irrelevant_layout. Qed.

Lemma render_signature_layout : forall mx prefix ps ret,
  strip_layout (render_signature mx prefix ps ret) = strip_layout (render_sig Single ps ret).
Proof. intros. unfold render_signature. apply wrap_irrelevant_layout. Qed.

(* ---------------------------------------------------------------------------------------------- *)
(* reparse of a rendered signature = classify of the entries                                       *)
(* ---------------------------------------------------------------------------------------------- *)
Lemma map_opt_map : forall {A B C} (f : B -> option C) (g : A -> B) (h : A -> C) l,
  (forall a, f (g a) = Some (h a)) -> map_opt f (map g l) = Some (map h l).
Proof. intros A B C f g h l H. induction l; cbn; [reflexivity|]. now rewrite H, IHl. Qed.

Lemma classify_nil : classify [] = Some [].
Proof. reflexivity. Qed.

Lemma reparse_sig_render : forall l ps ret,
  reparse_sig (render_sig l ps ret) =
  match classify (map pitem_of (formatted_params ps)) with
  | Some es => Some (es, isSome ret)
  | None => None
  end.
Proof.
  intros l ps ret. unfold reparse_sig. rewrite strip_render_sig.
  destruct (formatted_params ps) as [| it its] eqn:E.
  - cbn. destruct ret; reflexivity.
  - rewrite split_commas_join.
    + assert (Hm : map_opt parse_seg (map seg_of (it :: its)) = Some (map pitem_of (it :: its)))
        by (apply map_opt_map, seg_parses).
      assert (Hne : forall X Y : option (list pentry),
                 match map seg_of (it :: its) with [[]] => X | _ => Y end = Y).
      { intros. cbn [map]. destruct (seg_of it) eqn:Es; [now apply seg_nonempty in Es|]. destruct its; reflexivity. }
      rewrite Hne, Hm.
      destruct (classify (map pitem_of (it :: its))); [|reflexivity].
      destruct ret; reflexivity.
    + discriminate.
    + apply Forall_forall. intros s Hs. apply in_map_iff in Hs as [x [<- _]]. apply seg_sep_free.
Qed.

(* ---------------------------------------------------------------------------------------------- *)
(* the two flags of render_signature against the phases of the grammar                             *)
(* ---------------------------------------------------------------------------------------------- *)
Definition not_po (p : param) : Prop := p_kind p <> PO.

Lemma fmt_go_po : forall p r b rks, p_kind p = PO -> fmt_go b rks (p :: r) = FParam p :: fmt_go true rks r.
Proof. intros p r b rks H. cbn. rewrite H. destruct b; reflexivity. Qed.

Lemma fmt_go_po_prefix : forall pos rest b rks,
  Forall (fun p => p_kind p = PO) pos ->
  fmt_go b rks (pos ++ rest) = map FParam pos ++ fmt_go (match pos with [] => b | _ => true end) rks rest.
Proof.
  induction pos as [| p pos IH]; intros rest b rks H; [reflexivity|].
  inversion H; subst. cbn [app map]. rewrite fmt_go_po by assumption. rewrite IH by assumption.
  destruct pos; reflexivity.
Qed.

Lemma fmt_go_slash : forall p r rks, p_kind p <> PO -> fmt_go true rks (p :: r) = FSlash :: fmt_go false rks (p :: r).
Proof. intros p r rks H. cbn. destruct (p_kind p) eqn:E; try congruence; destruct rks; reflexivity. Qed.

Definition rel (top : pkind) (rks : bool) (ph : phase) : Prop :=
  match top with
  | PO | PK => rks = true /\ ph = PhPos
  | VP | KO => rks = false /\ ph = PhKw false
  | VK => ph = PhDone
  end.

Lemma classify_rest_fmt : forall rest top sd rks ph,
  Forall not_po rest -> valid_go top sd rest = true -> rel top rks ph ->
  classify_rest ph sd (map pitem_of (fmt_go false rks rest)) = Some (map erase rest)
  /\ ~ In ISlash (map pitem_of (fmt_go false rks rest)).
Proof.
  induction rest as [| p r IH]; intros top sd rks ph Hn Hv Hr.
  - cbn. split; [|tauto]. destruct top; cbn in Hr; try (destruct Hr as [Hr1 Hr2]; subst; reflexivity). now subst.
  - inversion Hn as [| ? ? Hp Hn']; subst. unfold not_po in Hp.
    destruct p as [n k a d]. cbn [p_kind] in Hp.
    cbn [valid_go p_kind p_default] in Hv.
    destruct k; try congruence.
    + (* PK *)
      destruct top; cbn in Hv; try discriminate; destruct Hr as [-> ->];
        cbn [fmt_go p_kind]; cbn [app map pitem_of p_kind p_name p_anno p_default stars_of classify_rest];
        apply andb_true_iff in Hv as [Hv1 Hv]; cbn in Hv1;
        (destruct (IH PK (sd || d) true PhPos Hn' Hv (conj eq_refl eq_refl)) as [IH1 IH2]);
        (split; [| cbn; intros [H|H]; [discriminate|tauto]]);
        rewrite IH1; destruct sd, d; cbn in *; try discriminate; reflexivity.
    + (* VP *)
      destruct d; [destruct top; cbn in Hv; discriminate|].
      destruct top; cbn in Hv; try discriminate; destruct Hr as [-> ->];
        cbn [fmt_go p_kind]; cbn [app map pitem_of p_kind p_name p_anno p_default stars_of classify_rest];
        (destruct (IH VP sd false (PhKw false) Hn' Hv (conj eq_refl eq_refl)) as [IH1 IH2]);
        (split; [| cbn; intros [H|H]; [discriminate|tauto]]);
        rewrite IH1; reflexivity.
    + (* KO *)
      destruct top; cbn in Hv; try discriminate; destruct Hr as [-> ->];
        cbn [fmt_go p_kind]; cbn [app map pitem_of p_kind p_name p_anno p_default stars_of classify_rest];
        (destruct (IH KO sd false (PhKw false) Hn' Hv (conj eq_refl eq_refl)) as [IH1 IH2]);
        (split; [| cbn; intros H; repeat (destruct H as [H|H]; [discriminate|]); tauto]);
        rewrite IH1; reflexivity.
    + (* VK *)
      destruct d; [destruct top; cbn in Hv; discriminate|].
      destruct top; cbn in Hv; try discriminate.
      1,2: destruct Hr as [-> ->].
      3,4: destruct Hr as [-> ->].
      all: cbn [fmt_go p_kind]; cbn [app map pitem_of p_kind p_name p_anno p_default stars_of classify_rest];
        (match goal with |- context [fmt_go false ?b _] => destruct (IH VK sd b PhDone Hn' Hv eq_refl) as [IH1 IH2] end);
        (split; [| cbn; intros [H|H]; [discriminate|tauto]]);
        rewrite IH1; reflexivity.
Qed.

(* once a kind other than PO has been seen no PO can follow *)
Lemma valid_go_no_po : forall ps top sd, top <> PO -> valid_go top sd ps = true -> Forall not_po ps.
Proof.
  induction ps as [| p r IH]; intros top sd Ht Hv; [constructor|].
  cbn [valid_go] in Hv. repeat (apply andb_true_iff in Hv as [Hv ?]).
  assert (Hk : p_kind p <> PO) by (destruct top, (p_kind p); cbn in Hv; congruence).
  constructor; [exact Hk|]. eapply IH; eauto.
Qed.

Lemma valid_go_pos_prefix : forall pos rest sd,
  Forall (fun p => p_kind p = PO) pos -> valid_go PO sd (pos ++ rest) = true ->
  exists sd', classify_pos sd (map pitem_of (map FParam pos)) = Some (map erase pos, sd')
              /\ valid_go PO sd' rest = true.
Proof.
  induction pos as [| p pos IH]; intros rest sd Hf Hv.
  - exists sd. split; [reflexivity|assumption].
  - inversion Hf as [| ? ? Hk Hf']; subst. destruct p as [n k a d]. cbn in Hk. subst k.
    cbn [app valid_go p_kind p_default is_variadic is_positional] in Hv.
    repeat (apply andb_true_iff in Hv as [Hv ?]).
    destruct (IH rest (sd || d) Hf' H) as [sd' [Hc Hv']].
    exists sd'. split; [|assumption].
    cbn [map pitem_of p_kind p_name p_anno p_default stars_of classify_pos].
    rewrite Hc. destruct sd, d; cbn in *; try discriminate; reflexivity.
Qed.

Lemma split_slash_none : forall its, ~ In ISlash its -> split_slash its = None.
Proof.
  induction its as [| it r IH]; intros H; [reflexivity|].
  cbn. destruct it; [exfalso; apply H; now left| |]; rewrite IH; auto; intros ?; apply H; now right.
Qed.

Lemma split_slash_params : forall pos post,
  split_slash (map pitem_of (map FParam pos) ++ ISlash :: post) = Some (map pitem_of (map FParam pos), post).
Proof. induction pos as [| p pos IH]; intros post; [reflexivity|]. cbn. now rewrite IH. Qed.

(* the longest positional-only prefix *)
Lemma po_prefix : forall ps : list param,
  exists pos rest, ps = pos ++ rest /\ Forall (fun p => p_kind p = PO) pos
                   /\ match rest with [] => True | p :: _ => p_kind p <> PO end.
Proof.
  induction ps as [| p r [pos [rest [-> [Hf Hr]]]]].
  - exists [], []. repeat split; constructor.
  - destruct (p_kind p) eqn:E.
    1: exists (p :: pos), rest; repeat split; [constructor; assumption|assumption].
    all: exists [], (p :: pos ++ rest); repeat split; [constructor|congruence].
Qed.

Theorem classify_formatted : forall ps,
  valid_signature ps = true -> classify (map pitem_of (formatted_params ps)) = Some (map erase ps).
Proof.
  intros ps Hv. unfold valid_signature in Hv. unfold formatted_params.
  destruct (po_prefix ps) as [pos [rest [-> [Hf Hr]]]].
  destruct (valid_go_pos_prefix pos rest false Hf Hv) as [sd' [Hc Hv']].
  assert (Hn : Forall not_po rest).
  { destruct rest as [| p r]; [constructor|].
    cbn [valid_go] in Hv'. repeat (apply andb_true_iff in Hv' as [Hv' ?]).
    constructor; [exact Hr|]. eapply valid_go_no_po; eauto. }
  rewrite fmt_go_po_prefix by assumption. rewrite map_app, map_app.
  destruct pos as [| p0 pos'].
  - (* no positional-only parameter: no "/" anywhere *)
    cbn [map app]. cbn in Hc. injection Hc as <-.
    destruct (classify_rest_fmt rest PO false true PhPos Hn Hv' (conj eq_refl eq_refl)) as [H1 H2].
    unfold classify. rewrite split_slash_none by assumption. assumption.
  - set (pos := p0 :: pos') in *.
    assert (Hx : exists post, map pitem_of (fmt_go true true rest) = ISlash :: post
                              /\ classify_rest PhPos sd' post = Some (map erase rest)).
    { destruct rest as [| p r].
      - exists []. split; reflexivity.
      - rewrite fmt_go_slash by exact Hr.
        destruct (classify_rest_fmt (p :: r) PO sd' true PhPos Hn Hv' (conj eq_refl eq_refl)) as [H1 _].
        eexists. split; [reflexivity|exact H1]. }
    destruct Hx as [post [Hp Hcr]]. rewrite Hp.
    unfold classify. rewrite split_slash_params.
    change (map pitem_of (map FParam pos)) with (pitem_of (FParam p0) :: map pitem_of (map FParam pos')).
    change (pitem_of (FParam p0) :: map pitem_of (map FParam pos')) with (map pitem_of (map FParam pos)).
    destruct (map pitem_of (map FParam pos)) as [| x xs] eqn:Ex; [discriminate|].
    rewrite Hc, Hcr. reflexivity.
Qed.

(* ---------------------------------------------------------------------------------------------- *)
(* C12: signature round trip                                                                       *)
(* ---------------------------------------------------------------------------------------------- *)
Theorem reparse_sig_roundtrip : forall l ps ret,
  valid_signature ps = true -> reparse_sig (render_sig l ps ret) = Some (map erase ps, isSome ret).
Proof. intros. rewrite reparse_sig_render, classify_formatted by assumption. reflexivity. Qed.

Theorem signature_roundtrip_lemma : forall l ps ret,
  valid_signature ps = true -> reparse (render_sig l ps ret) = Some (map erase ps).
Proof. intros. unfold reparse. now rewrite reparse_sig_roundtrip. Qed.

Theorem signature_roundtrip_chosen : forall mx prefix ps ret,
  valid_signature ps = true -> reparse (render_signature mx prefix ps ret) = Some (map erase ps).
Proof. intros. unfold render_signature. now apply signature_roundtrip_lemma. Qed.

(* ---------------------------------------------------------------------------------------------- *)
(* strip_modules touches annotation texts only                                                     *)
(* ---------------------------------------------------------------------------------------------- *)
Definition strip_param (mods : list string) (p : param) : param :=
  Param (p_name p) (p_kind p) (option_map (strip_text mods) (p_anno p)) (p_default p).
Definition strip_fitem (mods : list string) (it : fitem) : fitem :=
  match it with FParam p => FParam (strip_param mods p) | x => x end.

Lemma strip_fitem_tokens : forall mods it, map (strip_tok mods) (fitem_tokens it) = fitem_tokens (strip_fitem mods it).
Proof. intros mods [| | [n k a d]]; try reflexivity. destruct k, a, d; reflexivity. Qed.

Lemma strip_join_single_tok : forall mods its,
  map (strip_tok mods) (join_single its) = join_single (map (strip_fitem mods) its).
Proof.
  intros mods. induction its as [| it [| it2 r] IH]; [reflexivity|apply strip_fitem_tokens|].
  change (join_single (it :: it2 :: r)) with (fitem_tokens it ++ [TComma; sp] ++ join_single (it2 :: r)).
  rewrite !map_app, IH, strip_fitem_tokens. reflexivity.
Qed.

Lemma strip_lines_multi_tok : forall mods prefix its,
  map (strip_tok mods) (lines_multi prefix its) = lines_multi prefix (map (strip_fitem mods) its).
Proof.
  intros mods prefix. induction its as [| it r IH]; [reflexivity|].
  cbn [lines_multi map]. rewrite !map_app, IH, strip_fitem_tokens.
  destruct r; reflexivity.
Qed.

Lemma fmt_go_strip : forall mods ps b rks,
  fmt_go b rks (map (strip_param mods) ps) = map (strip_fitem mods) (fmt_go b rks ps).
Proof.
  intros mods. induction ps as [| p r IH]; intros b rks.
  - cbn. destruct b; reflexivity.
  - cbn [map fmt_go]. change (p_kind (strip_param mods p)) with (p_kind p).
    destruct (p_kind p), b, rks; cbn; rewrite IH; reflexivity.
Qed.

Lemma strip_render_sig_tok : forall mods l ps ret,
  map (strip_tok mods) (render_sig l ps ret)
  = render_sig l (map (strip_param mods) ps) (option_map (strip_text mods) ret).
Proof.
  intros mods l ps ret.
  assert (Hr : map (strip_tok mods) (render_return ret) = render_return (option_map (strip_text mods) ret))
    by (destruct ret; reflexivity).
  destruct l; unfold render_sig, formatted_params; rewrite !map_app, Hr, fmt_go_strip.
  - now rewrite strip_join_single_tok.
  - now rewrite strip_lines_multi_tok.
Qed.

Lemma valid_go_strip : forall mods ps top sd, valid_go top sd (map (strip_param mods) ps) = valid_go top sd ps.
Proof. intros mods. induction ps as [| p r IH]; intros; [reflexivity|]. cbn. now rewrite IH. Qed.

Lemma erase_strip : forall mods ps, map erase (map (strip_param mods) ps) = map erase ps.
Proof.
  intros. rewrite map_map. apply map_ext. intros [n k a d]. unfold erase; cbn. destruct a; reflexivity.
Qed.

Theorem reparse_sig_stripped : forall mods l ps ret,
  valid_signature ps = true ->
  reparse_sig (map (strip_tok mods) (render_sig l ps ret)) = Some (map erase ps, isSome ret).
Proof.
  intros. rewrite strip_render_sig_tok, reparse_sig_roundtrip.
  - rewrite erase_strip. destruct ret; reflexivity.
  - unfold valid_signature. now rewrite valid_go_strip.
Qed.

Theorem reparse_sig_as_rendered : forall (mods : list string) (mx : option Z) (prefix : string) ps ret,
  valid_signature ps = true ->
  reparse_sig (map (strip_tok mods) (render_signature mx prefix ps ret)) = Some (map erase ps, isSome ret).
Proof. intros. unfold render_signature. now apply reparse_sig_stripped. Qed.
