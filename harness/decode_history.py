"""python -m harness.decode_history <spec.json>  — a two-command history in ONE process (cwd = the run directory).

spec = {"remove": [paths relative to cwd, files or directories], "prime_argv": [...], "argv": [...]}
1. the listed files/directories are removed (the module / sub-package is missing), cli.main(prime_argv) runs;
2. they are put back exactly as they were, importlib.invalidate_caches() (what any long-lived process does after the
   source tree changed), and cli.main(argv) runs.
Only the second command's stdout / stderr / status are passed on: they must be those of a fresh process in the restored
world."""
import importlib
import io
import json
import os
import shutil
import sys
import traceback


def run(argv):
    from monkeytype import cli
    out, err = io.StringIO(), io.StringIO()
    try:
        rc = cli.main(argv, out, err)
    except SystemExit as e:
        rc = e.code if isinstance(e.code, int) else 1
    except BaseException:
        err.write(traceback.format_exc())
        rc = 1
    return rc, out.getvalue(), err.getvalue()


def main(spec_path):
    spec = json.load(open(spec_path))
    sys.path.insert(0, os.getcwd())
    keep = os.path.join(os.getcwd(), ".kept")
    os.makedirs(keep)
    for i, rel in enumerate(spec["remove"]):
        shutil.move(rel, os.path.join(keep, str(i)))
    importlib.invalidate_caches()
    run(spec["prime_argv"])
    for i, rel in enumerate(spec["remove"]):
        shutil.move(os.path.join(keep, str(i)), rel)
    os.rmdir(keep)
    importlib.invalidate_caches()
    rc, out, err = run(spec["argv"])
    sys.stdout.write(out)
    sys.stderr.write(err)
    sys.exit(rc)


if __name__ == "__main__":
    main(sys.argv[1])
