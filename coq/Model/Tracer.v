(* Model/Tracer.v — the call tracer (monkeytype/tracing.py: CallTracer.__call__, handle_call, handle_return)
   as a state machine over profile events, plus the reference monitor it is compared with.
   Executable definitions only.  The opcode tables, the coroutine guard and the order of handle_call's guards
   come from Gen/TracerConstants.v, regenerated from the source on every run. *)
From MT Require Export Types TracerConstants.
Open Scope list_scope.

(* what the tracer can learn about a code object *)
Inductive ckind := KPlain | KGen | KCoro | KAsyncGen.
Record code := Code {
  c_id : N;
  c_trace_types : bool;          (* co_name == "trace_types" *)
  c_admit : bool;                (* answer of the code filter (true when there is none) *)
  c_func : option N;             (* what get_func resolves it to; cached per code object, None cached forever *)
  c_kind : ckind
}.
Definition kind_eqb (a b : ckind) : bool :=
  match a, b with KPlain, KPlain | KGen, KGen | KCoro, KCoro | KAsyncGen, KAsyncGen => true | _, _ => false end.
Definition code_eqb (a b : code) : bool :=
  N.eqb (c_id a) (c_id b) && Bool.eqb (c_trace_types a) (c_trace_types b) && Bool.eqb (c_admit a) (c_admit b)
  && match c_func a, c_func b with Some x, Some y => N.eqb x y | None, None => true | _, _ => false end
  && kind_eqb (c_kind a) (c_kind b).
Definition c_coroutine (c : code) : bool := match c_kind c with KCoro => true | _ => false end. (* CO_COROUTINE *)

(* ground truth carried next to each return event: what the program really did when control left the frame *)
Inductive sem := SYield | SAwait | SReturn | SRaise.

Inductive ev :=
| EvCall (f : N) (c : code) (args : list (string * ty)) (draw : nat)
    (* `args`: get_type of the locals bound to co_varnames[:argcount+kwonly] at this event;
       `draw`: what random.randrange(sample_rate) returns if handle_call asks (ignored otherwise) *)
| EvReturn (f : N) (c : code) (s : sem) (op : string) (a : ty)
    (* op = opname of co_code[f_lasti]; a = get_type(arg) *)
| EvOther (f : N) (c : code).    (* c_call / c_return / c_exception: not in SUPPORTED_EVENTS *)

Definition ev_frame (e : ev) : N := match e with EvCall f _ _ _ | EvReturn f _ _ _ _ | EvOther f _ => f end.
Definition ev_code (e : ev) : code := match e with EvCall _ c _ _ | EvReturn _ c _ _ _ | EvOther _ c => c end.

Record trace := Trace { t_func : N; t_args : list (string * ty); t_ret : option ty; t_yield : option ty }.

(* CallTrace.add_yield_type *)
Definition with_yield (t : trace) (a : ty) : trace :=
  Trace (t_func t) (t_args t) (t_ret t)
        (match t_yield t with None => Some a | Some y => Some (union_mk [y; a]) end).
Definition with_ret (t : trace) (a : ty) : trace := Trace (t_func t) (t_args t) (Some a) (t_yield t).

(* ---- association lists keyed by frame id (CallTracer.traces) ---- *)
Fixpoint lookup {A} (f : N) (l : list (N * A)) : option A :=
  match l with [] => None | (g, x) :: r => if N.eqb f g then Some x else lookup f r end.
Fixpoint remove {A} (f : N) (l : list (N * A)) : list (N * A) :=
  match l with [] => [] | (g, x) :: r => if N.eqb f g then remove f r else (g, x) :: remove f r end.
Definition update {A} (f : N) (x : A) (l : list (N * A)) : list (N * A) := (f, x) :: remove f l.

Record tstate := TState {
  live : list (N * trace);       (* CallTracer.traces: frame -> in-flight trace *)
  logged : list (N * trace)      (* calls of logger.log, most recent first; the frame id is ghost state *)
}.
Definition init : tstate := TState [] [].

Definition is_op (ops : list string) (op : string) : bool := existsb (String.eqb op) ops.

(* `self.sample_rate and random.randrange(self.sample_rate) != 0` *)
Definition sampling (rate : option nat) : bool := match rate with Some (S _) => true | _ => false end.
Definition skipped_by_sampling (rate : option nat) (draw : nat) : bool :=
  sampling rate && negb (Nat.eqb draw 0).

(* the gate of __call__ (event support is in the constructor) *)
Definition gate_on (tag : string) : bool := existsb (String.eqb tag) tr_call_gates.
Definition gated (c : code) : bool :=
  (gate_on "trace_types" && c_trace_types c) || (gate_on "filter_rejects" && negb (c_admit c)).

(* handle_call, guards in the order tr_handle_call_steps records *)
Definition handle_call (rate : option nat) (s : tstate) (f : N) (c : code) (args : list (string * ty)) (draw : nat)
  : tstate :=
  if skipped_by_sampling rate draw then s else
  match c_func c with
  | None => s
  | Some fn =>
      match lookup f (live s) with
      | Some _ => s                                  (* resuming a generator: frame already seen *)
      | None => TState ((f, Trace fn args None None) :: live s) (logged s)
      end
  end.

Definition handle_return (s : tstate) (f : N) (c : code) (op : string) (a : ty) : tstate :=
  match lookup f (live s) with
  | None => s
  | Some t =>
      if is_op tr_yield_ops op then
        if tr_yield_skips_coroutines && c_coroutine c then s
        else TState (update f (with_yield t a) (live s)) (logged s)
      else
        let t' := if is_op tr_return_ops op then with_ret t a else t in
        TState (remove f (live s)) ((f, t') :: logged s)
  end.

Definition step (rate : option nat) (s : tstate) (e : ev) : tstate :=
  match e with
  | EvOther _ _ => s
  | EvCall f c args d => if gated c then s else handle_call rate s f c args d
  | EvReturn f c _ op a => if gated c then s else handle_return s f c op a
  end.
Definition run (rate : option nat) (H : list ev) : tstate := fold_left (step rate) H init.

(* ---- the reference monitor: same bookkeeping, but it looks at the ground truth `sem`, never at the opcode,
        and never samples ---- *)
Definition spec_return (s : tstate) (f : N) (sm : sem) (a : ty) : tstate :=
  match lookup f (live s) with
  | None => s
  | Some t =>
      match sm with
      | SYield => TState (update f (with_yield t a) (live s)) (logged s)
      | SAwait => s
      | SReturn => TState (remove f (live s)) ((f, with_ret t a) :: logged s)
      | SRaise => TState (remove f (live s)) ((f, t) :: logged s)
      end
  end.
Definition spec_step (s : tstate) (e : ev) : tstate :=
  match e with
  | EvOther _ _ => s
  | EvCall f c args _ => if gated c then s else handle_call None s f c args 0
  | EvReturn f c sm _ a => if gated c then s else spec_return s f sm a
  end.
Definition spec_run (H : list ev) : tstate := fold_left spec_step H init.

(* ---- what CPython delivers (assumption; validated on every recorded stream) ---- *)
Definition op_yield : string := "YIELD_VALUE".
Definition op_retv : string := "RETURN_VALUE".
Definition op_retc : string := "RETURN_CONST".
Definition consistent (c : code) (sm : sem) (op : string) : bool :=
  match sm with
  | SYield => String.eqb op op_yield && negb (c_coroutine c)
  | SAwait => String.eqb op op_yield && c_coroutine c
  | SReturn => String.eqb op op_retv || String.eqb op op_retc
  | SRaise => negb (String.eqb op op_yield) && negb (String.eqb op op_retv) && negb (String.eqb op op_retc)
  end.
(* known finding class: an exception thrown into a suspended generator (close(), throw(), GC) unwinds the frame
   with f_lasti still at the YIELD_VALUE *)
Definition kf_raise_at_yield (e : ev) : bool :=
  match e with EvReturn _ _ SRaise op _ => String.eqb op op_yield | _ => false end.
(* known finding class: async generators (awaits and wrapped values both leave through YIELD_VALUE) *)
Definition kf_async_generator (e : ev) : bool :=
  match c_kind (ev_code e) with KAsyncGen => true | _ => false end.
Definition ev_consistent (e : ev) : bool :=
  match e with EvReturn _ c sm op _ => consistent c sm op | _ => true end.

(* ---- per-frame view ---- *)
Definition proj (f : N) (H : list ev) : list ev := filter (fun e => N.eqb (ev_frame e) f) H.

(* per-frame machine of the tracer: entry of this frame in `traces`, and what it logs *)
Definition pf_step (rate : option nat) (st : option trace) (e : ev) : option trace * list trace :=
  match e with
  | EvOther _ _ => (st, [])
  | EvCall _ c args d =>
      if gated c then (st, []) else
      if skipped_by_sampling rate d then (st, []) else
      match c_func c, st with
      | None, _ => (st, [])
      | Some _, Some _ => (st, [])
      | Some fn, None => (Some (Trace fn args None None), [])
      end
  | EvReturn _ c _ op a =>
      if gated c then (st, []) else
      match st with
      | None => (None, [])
      | Some t =>
          if is_op tr_yield_ops op then
            if tr_yield_skips_coroutines && c_coroutine c then (st, []) else (Some (with_yield t a), [])
          else (None, [if is_op tr_return_ops op then with_ret t a else t])
      end
  end.
(* returns the final entry and everything logged, most recent first *)
Fixpoint pf_run (rate : option nat) (st : option trace) (es : list ev) : option trace * list trace :=
  match es with
  | [] => (st, [])
  | e :: r => let '(st1, out1) := pf_step rate st e in
              let '(st2, out2) := pf_run rate st1 r in (st2, out2 ++ out1)
  end.
Definition logged_for (f : N) (s : tstate) : list trace :=
  map snd (filter (fun p => N.eqb (fst p) f) (logged s)).

(* ---- the declarative description of one call (one frame's events), from ground truth only ---- *)
Definition is_final (sm : sem) : bool := match sm with SReturn | SRaise => true | _ => false end.

(* well-formed event sequence of ONE frame: call . (suspend . call)* . [final return]; unsupported events anywhere;
   one code object throughout *)
Fixpoint wf_frame_from (c : code) (suspended_or_new : bool) (es : list ev) : bool :=
  match es with
  | [] => true
  | EvOther _ c' :: r => code_eqb c' c && wf_frame_from c suspended_or_new r
  | EvCall _ c' _ _ :: r => suspended_or_new && code_eqb c' c && wf_frame_from c false r
  | EvReturn _ c' sm _ _ :: r =>
      negb suspended_or_new && code_eqb c' c
      && (if is_final sm then forallb (fun e => match e with EvOther _ _ => true | _ => false end) r
          else wf_frame_from c true r)
  end.
Definition wf_frame (es : list ev) : bool :=
  match es with
  | [] => true
  | e :: _ => wf_frame_from (ev_code e) true es
  end.

(* the yield type of a call: union of the types of the values it yielded, absent if none *)
Fixpoint yields_of (acc : option ty) (es : list ev) : option ty :=
  match es with
  | [] => acc
  | EvReturn _ _ SYield _ a :: r =>
      yields_of (match acc with None => Some a | Some y => Some (union_mk [y; a]) end) r
  | _ :: r => yields_of acc r
  end.
Fixpoint final_of (es : list ev) : option (sem * ty) :=
  match es with
  | [] => None
  | EvReturn _ _ sm _ a :: r => if is_final sm then Some (sm, a) else final_of r
  | _ :: r => final_of r
  end.
Fixpoint first_call (es : list ev) : option (code * list (string * ty)) :=
  match es with
  | [] => None
  | EvCall _ c args _ :: _ => Some (c, args)
  | EvReturn _ _ _ _ _ :: _ => None
  | EvOther _ _ :: r => first_call r
  end.
(* what the log must contain for this frame: nothing unless the call is of admitted, resolvable code and has
   finished; then exactly one trace: the function, the argument types at entry, the return type iff it returned,
   the union of its yields *)
Definition expected_frame (es : list ev) : list trace :=
  match first_call es with
  | Some (c, args) =>
      if gated c then [] else
      match c_func c, final_of es with
      | Some fn, Some (sm, a) =>
          [Trace fn args (match sm with SReturn => Some a | _ => None end) (yields_of None es)]
      | _, _ => []
      end
  | None => []
  end.
(* is the call still in flight (started, admitted, resolvable, not finished)? *)
Definition pending_frame (es : list ev) : bool :=
  match first_call es with
  | Some (c, _) => negb (gated c) && match c_func c with Some _ => true | None => false end
                   && match final_of es with None => true | Some _ => false end
  | None => false
  end.

(* ---- history-level well-formedness ---- *)
Fixpoint frames_of (H : list ev) : list N :=
  match H with [] => [] | e :: r => let fs := frames_of r in
                                    if existsb (N.eqb (ev_frame e)) fs then fs else ev_frame e :: fs end.
Definition wf_history (H : list ev) : bool :=
  forallb (fun f => wf_frame (proj f H)) (frames_of H) && forallb ev_consistent H.

(* ---- sampling vocabulary (C18) ---- *)
(* the draw taken at the frame's FIRST call event decides; later (resumption) draws must not matter *)
Fixpoint first_draw (es : list ev) : option nat :=
  match es with
  | [] => None
  | EvCall _ _ _ d :: _ => Some d
  | EvReturn _ _ _ _ _ :: _ => None
  | EvOther _ _ :: r => first_draw r
  end.
Fixpoint later_zero (seen_first : bool) (es : list ev) : bool :=
  match es with
  | [] => false
  | EvCall _ _ _ d :: r => if seen_first then Nat.eqb d 0 || later_zero true r else later_zero true r
  | _ :: r => later_zero seen_first r
  end.
Definition any_later_draw_zero (es : list ev) : bool := later_zero false es.
(* known finding class (C18): the first call event of a generator-like frame was not sampled but a later
   resumption was: the trace starts mid-life *)
Definition kf_resume_sampled_after_skip (rate : option nat) (es : list ev) : bool :=
  sampling rate && match first_draw es with Some d => negb (Nat.eqb d 0) | None => false end
  && any_later_draw_zero es.
