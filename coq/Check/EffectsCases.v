(* Check/EffectsCases.v — C03 verdict on one traced/untraced pair of runs of the tripwire workload. *)
From MT Require Export Effects Common.
Open Scope string_scope.

Record ecase := ECase {
  e_fault : string;
  e_extra : list string;        (* hook invocations journaled in the traced run and not in the untraced one *)
  e_missing : list string;      (* ... and the other way round *)
  e_results_equal : bool; e_stdout_equal : bool; e_exc_equal : bool;
  e_restored : bool; e_flushes : nat; e_flush_reached_program : bool;
  e_residue : nat               (* frames left in CallTracer.traces after a workload whose calls have all finished *)
}.

(* finding classes, as predicates on one journal entry *)
Definition lookup_entries : list string :=
  ["GlobalGA.__getattribute__(__code__)"; "GlobalGA.__getattribute__(__wrapped__)"; "GlobalGA.__getattribute__(__class__)";
   "CallableGA.__getattribute__(__code__)"; "CallableGA.__getattribute__(__wrapped__)"].
Definition kf_lookup_getattr (e : string) : bool := str_in e lookup_entries.
Definition kf_metaclass_hash_eq (e : string) : bool := prefix "MetaHash.__hash__" e || prefix "MetaHash.__eq__" e.

(* what the model predicts for the journal: type collection adds nothing (get_type_runs_no_user_code_partial);
   lookup adds getattr/isinstance hooks only on lookup candidates (globals by name, callable outer locals) *)
Definition verdict_effects (c : ecase) : nat :=
  if negb (e_results_equal c && e_stdout_equal c && e_exc_equal c) then 2
  else if negb (e_restored c) || negb (Nat.eqb (e_flushes c) 1) || e_flush_reached_program c then 2
  else if negb (Nat.eqb (e_residue c) 0) then 2
  else if negb (Nat.eqb (List.length (e_missing c)) 0) then 2
  else if negb (forallb (fun e => kf_lookup_getattr e || kf_metaclass_hash_eq e) (e_extra c)) then 2
  else match existsb kf_lookup_getattr (e_extra c), existsb kf_metaclass_hash_eq (e_extra c) with
       | true, true => 7 | true, false => 5 | false, true => 6 | false, false => 0 end.
