#!/bin/bash
# tools/precommit.sh [--run]  — sanity gate before committing /verif: python syntax, manifest, schemas, full Coq build;
# with --run also every quick check on /repo (regenerates the evidence files).
cd "$(dirname "$0")/.." || exit 2
fail=0
for f in harness/*.py harness/props/*.py tools/*.py; do
  /venv/bin/python -c "import ast,sys; ast.parse(open('$f').read())" 2>/dev/null || { echo "SYNTAX ERROR in $f"; fail=1; }
done
python3 tools/gen_manifest.py > /dev/null || { echo "gen_manifest failed"; fail=1; }
# files listed (as substrings) in _work/inprogress.txt are being written by a proof builder right now and may fail
inprogress() {
  [ -f _work/inprogress.txt ] || return 1
  while read -r pat; do
    [ -n "$pat" ] && case "$1" in *"$pat"*) return 0;; esac
  done < _work/inprogress.txt
  return 1
}
tools/mk -k > _work/precommit_mk.log 2>&1 || {
  bad=$(grep -oE '^File "\./[^"]+"' _work/precommit_mk.log | sort -u | sed 's/File "\.\///; s/"//')
  [ -z "$bad" ] && { echo "Coq build failed (no file named):"; tail -5 _work/precommit_mk.log; fail=1; }
  for b in $bad; do
    if inprogress "$b"; then echo "note: $b does not compile (in progress)"; else echo "Coq build failed in $b"; fail=1; fi
  done
}
if [ "$1" = "--run" ]; then
  tools/run_all.sh quick 2>&1 | grep -v conda | sort > _work/precommit_run.log
  grep -v "rc=0" _work/precommit_run.log && { echo "a quick check did not exit 0"; fail=1; }
fi
python3-vt - <<'PY' || fail=1
import json, jsonschema, glob, sys
ok = True
try:
    jsonschema.validate(json.load(open('MANIFEST.json')), json.load(open('/root/.vp/MANIFEST.schema.json')))
except Exception as e:
    print("MANIFEST invalid:", str(e)[:300]); ok = False
s = json.load(open('/root/.vp/EVIDENCE.schema.json'))
claimed = {c['property_id'] for c in json.load(open('MANIFEST.json'))['checks']}
for p in sorted(claimed):
    f = f'evidence/{p}.json'
    try:
        d = json.load(open(f)); jsonschema.validate(d, s)
        if d.get('violations'):
            print(f, "records violations (evidence of a changed tree?)"); ok = False
    except Exception as e:
        print(f, "INVALID:", str(e)[:200]); ok = False
sys.exit(0 if ok else 1)
PY
[ $fail -eq 0 ] && echo "precommit OK" || echo "precommit FAILED"
exit $fail
