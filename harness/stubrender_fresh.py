"""C12 history stream, the fresh-process side: for each entry (module name, source, traced functions, strategy) write
the source into a directory of its own, import it for the first time in this process, take the store path
(CallTraceRow.from_trace -> to_trace -> build_module_stubs_from_traces) and report what ast.parse sees in the stub.
Usage: python -m harness.stubrender_fresh IN.json OUT.json"""
import json
import os
import sys


def main(argv):
    from harness import stubrender_reify as rf
    from harness.props import C12
    entries = json.load(open(argv[1]))
    work = os.path.join(os.path.dirname(os.path.abspath(argv[1])), "fresh_modules")
    os.makedirs(work, exist_ok=True)
    fx = C12.Fixtures(work)
    out = {}
    for e in entries:
        try:
            mod = fx.load(e["module"], e["source"])
            _fcs, _defs, _stubs, ref_stubs, _notes = C12.defs_store(mod, e["module"], e["traced"], e["strategy"])
            out[e["module"]] = rf.items_of_text(ref_stubs[e["module"]].render())[0]
        except Exception as ex:      # fail closed: a term no in-process parse equals
            out[e["module"]] = '(Some [Item [] "?fresh-process-raised: %s"%%string [] false [] false])' % type(ex).__name__
    json.dump(out, open(argv[2], "w"))
    return 0


if __name__ == "__main__":
    sys.exit(main(sys.argv))
