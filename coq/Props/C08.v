(* C08 — types and call traces survive serialisation unchanged.
   Model: Model/Encode.v (encoding.py, util.get_name_in_module/get_func_in_module on JSON trees).
   External behaviour is universally quantified: cname/fname (the __module__/__qualname__ of classes and
   functions), env (what importlib + getattr find for a name), hidden (_HIDDEN_BUILTIN_TYPES' classes),
   site (the module that constructed the TypedDict classes below the encoded type).
     importable cname env hidden c : the class's own (module, qualname) resolves back to class c
     importable_func cname fname env f : get_func_in_module (unwrap, __func__ / read-only fget, then the recorded-name
                                     test of commit 7b578c3) of f's own (module, qualname) is f
     typing_ok env                 : typing.Any / Union / List / ... are what the typing module exports
     inferable t                   : no Tuple[T, ...] / forward reference below t, every Union in typing's
                                     normal form, TypedDict keys distinct (true of every type get_type /
                                     shrink_types / the shipped rewriters build, Tuple[T, ...] excepted)
   Known defects outside these premises: Refuted/C08.v. *)
From MT Require Import Types Encode EncodeRoundtrip EncodeStruct EncodeExamples.
Open Scope string_scope.

(* every inferable type over importable classes encodes, decodes, and comes back structurally identical
   (corrb: union members as multisets, TypedDict fields as finite maps) — for ALL types, by induction *)
Theorem type_roundtrip :
  forall (cname : cls -> string * string) (site : string) (env : string -> string -> lookup)
         (hidden : string -> option cls) (t : ty),
    typing_ok env ->
    inferable t /\ Forall (importable cname env hidden) (classes t) ->
    exists j t', type_to_json cname site t = Ok j /\ type_from_json env hidden j = Ok t' /\ corrb t t' = true.
Proof. exact type_roundtrip_ok. Qed.
Print Assumptions type_roundtrip.

Example ex_type_roundtrip :
  typing_ok ex_ev
  /\ (inferable ex_t /\ Forall (importable ex_cn ex_ev ex_hd) (classes ex_t))
  /\ exists j t', type_to_json ex_cn "monkeytype.typing" ex_t = Ok j /\ type_from_json ex_ev ex_hd j = Ok t'
                  /\ corrb ex_t t' = true /\ has_td t' = true /\ ty_eqb ex_t t' = false.
Proof.
  split; [exact ex_typing_ok|]. split; [exact ex_t_ok|]. eexists. eexists.
  split; [vm_compute; reflexivity|]. split; [vm_compute; reflexivity|]. repeat split; vm_compute; reflexivity.
Qed.

(* nothing observed (None) stays NULL and reads back as nothing; an observed type — NoneType included —
   never encodes to NULL or "null", never reads back as nothing, and reads back as itself *)
Theorem absent_vs_none :
  forall (cname : cls -> string * string) (site : string) (env : string -> string -> lookup)
         (hidden : string -> option cls),
    maybe_encode_type cname site None = Ok None
    /\ maybe_decode_type env hidden None = Ok None
    /\ maybe_decode_type env hidden (Some JNull) = Ok None
    /\ (forall t e, maybe_encode_type cname site (Some t) = Ok e ->
          e <> None /\ e <> Some JNull /\ maybe_decode_type env hidden e <> Ok None)
    /\ (forall t, typing_ok env -> inferable t /\ Forall (importable cname env hidden) (classes t) ->
          exists j t', maybe_encode_type cname site (Some t) = Ok (Some j)
                       /\ maybe_decode_type env hidden (Some j) = Ok (Some t') /\ corrb t t' = true).
Proof. exact absent_vs_none_ok. Qed.
Print Assumptions absent_vs_none.

Example ex_absent_vs_none :
  (inferable (TCls cNone) /\ Forall (importable ex_cn ex_ev ex_hd) (classes (TCls cNone)))
  /\ exists j, maybe_encode_type ex_cn "monkeytype.typing" (Some (TCls cNone)) = Ok (Some j)
               /\ maybe_decode_type ex_ev ex_hd (Some j) = Ok (Some (TCls cNone))
               /\ maybe_encode_type ex_cn "monkeytype.typing" None = Ok None.
Proof.
  split; [split; [repeat split|repeat constructor]|]. eexists. repeat split; vm_compute; reflexivity.
Qed.

(* a call trace of an importable function over inferable types decodes back to the same function, argument
   types, return type and yield type; absent return / yield stay absent at the row and after decoding *)
Theorem trace_roundtrip :
  forall (cname : cls -> string * string) (fname : fid -> string * string) (site : string)
         (env : string -> string -> lookup) (hidden : string -> option cls) (tr : trace),
    typing_ok env ->
    ok_trace cname fname env hidden tr ->
    exists r d,
      from_trace cname fname site tr = Ok r
      /\ to_trace cname fname env hidden r = Ok d
      /\ r_module r = fst (fname (tr_func tr)) /\ r_qualname r = snd (fname (tr_func tr))
      /\ dt_func d = OFunc (tr_func tr)
      /\ args_corrb (tr_args tr) (dt_args d) = true
      /\ opt_corrb (tr_ret tr) (dt_ret d) = true
      /\ opt_corrb (tr_yield tr) (dt_yield d) = true
      /\ (tr_ret tr = None <-> r_ret r = None) /\ (tr_ret tr = None <-> dt_ret d = None)
      /\ (tr_yield tr = None <-> r_yield r = None) /\ (tr_yield tr = None <-> dt_yield d = None).
Proof. exact trace_roundtrip_ok. Qed.
Print Assumptions trace_roundtrip.

(* serialize_traces drops no such trace *)
Theorem serialize_traces_keeps :
  forall (cname : cls -> string * string) (fname : fid -> string * string) (site : string)
         (env : string -> string -> lookup) (hidden : string -> option cls) (trs : list trace),
    Forall (ok_trace cname fname env hidden) trs ->
    List.length (serialize_traces cname fname site trs) = List.length trs.
Proof. exact serialize_traces_keeps_ok. Qed.
Print Assumptions serialize_traces_keeps.

Example ex_trace_roundtrip :
  ok_trace ex_cn ex_fn ex_ev ex_hd ex_trace
  /\ importable_func ex_cn ex_fn ex_ev 1 /\ importable_func ex_cn ex_fn ex_ev 2 /\ importable_func ex_cn ex_fn ex_ev 3
  /\ ~ importable_func ex_cn ex_fn ex_ev 4          (* a property with a setter is not importable *)
  /\ exists r d, from_trace ex_cn ex_fn "monkeytype.typing" ex_trace = Ok r /\ to_trace ex_cn ex_fn ex_ev ex_hd r = Ok d
                 /\ dt_func d = OFunc 1 /\ dt_ret d = Some (TCls cNone) /\ dt_yield d = None /\ r_yield r = None.
Proof.
  split; [exact ex_trace_ok|]. split; [reflexivity|]. split; [reflexivity|]. split; [reflexivity|].
  split; [vm_compute; discriminate|]. eexists. eexists.
  split; [vm_compute; reflexivity|]. split; [vm_compute; reflexivity|]. repeat split.
Qed.

(* encoding is a function of the structure: reordering TypedDict fields does not change the JSON —
   for TypedDict classes constructed in the same module (one `site` on both sides; without that premise
   the statement is false, Refuted/C08.v td_site_refuted) *)
Theorem encode_structural :
  forall (cname : cls -> string * string) (site : string) (env : string -> string -> lookup)
         (hidden : string -> option cls) (t1 t2 : ty),
    inferable t1 /\ Forall (importable cname env hidden) (classes t1) ->
    inferable t2 /\ Forall (importable cname env hidden) (classes t2) ->
    fields_perm t1 t2 ->
    type_to_json cname site t1 = type_to_json cname site t2.
Proof. exact encode_structural_ok. Qed.
Print Assumptions encode_structural.

Example ex_encode_structural :
  (inferable ex_t /\ Forall (importable ex_cn ex_ev ex_hd) (classes ex_t))
  /\ (inferable ex_t_perm /\ Forall (importable ex_cn ex_ev ex_hd) (classes ex_t_perm))
  /\ fields_perm ex_t ex_t_perm /\ ty_eqb ex_t ex_t_perm = false
  /\ exists j, type_to_json ex_cn "monkeytype.typing" ex_t = Ok j
               /\ type_to_json ex_cn "monkeytype.typing" ex_t_perm = Ok j.
Proof.
  split; [exact ex_t_ok|]. split; [exact ex_t_perm_ok|]. split; [exact ex_fields_perm|].
  split; [vm_compute; reflexivity|]. eexists. split; vm_compute; reflexivity.
Qed.

(* ... and so is the stored row: two traces of the same function whose argument dicts list the same names in any
   insertion order, with field-permuted argument / return / yield types, give the same CallTraceRow (module,
   qualname and the three JSON values), hence the same stored text and one row after the store's de-duplication *)
Theorem row_structural :
  forall (cname : cls -> string * string) (fname : fid -> string * string) (site : string)
         (env : string -> string -> lookup) (hidden : string -> option cls) (tr1 tr2 : trace),
    ok_trace cname fname env hidden tr1 -> ok_trace cname fname env hidden tr2 -> trace_perm tr1 tr2 ->
    from_trace cname fname site tr1 = from_trace cname fname site tr2.
Proof. exact from_trace_structural. Qed.
Print Assumptions row_structural.

Example ex_row_structural :
  ok_trace ex_cn ex_fn ex_ev ex_hd ex_trace /\ ok_trace ex_cn ex_fn ex_ev ex_hd ex_trace_perm
  /\ trace_perm ex_trace ex_trace_perm
  /\ tr_args ex_trace <> tr_args ex_trace_perm
  /\ exists r, from_trace ex_cn ex_fn "monkeytype.typing" ex_trace = Ok r
               /\ from_trace ex_cn ex_fn "monkeytype.typing" ex_trace_perm = Ok r.
Proof.
  split; [exact ex_trace_ok|]. split; [exact ex_trace_perm_ok|]. split; [exact ex_trace_perm_rel|].
  split; [vm_compute; discriminate|]. eexists. split; vm_compute; reflexivity.
Qed.

(* the repaired last step of get_func_in_module (/repo 7b578c3): a decoded function carries the recorded qualified name;
   a name that is now bound to ANOTHER function (an alias, the inner function of a non-wrapping decorator) is a stale
   row — InvalidTypeError — never that other function.  For the traced function's own name the test is vacuous:
   trace_roundtrip's premise importable_func is exactly "lookup, unwrap and the kind steps lead back to f". *)
Theorem decoded_function_has_recorded_name :
  forall (cname : cls -> string * string) (fname : fid -> string * string) (env : string -> string -> lookup)
         (m q : string) (func : pyobj) (own : string),
    get_func_in_module env cname fname m q = Ok func ->
    obj_qualname cname fname func = Ok (Some own) -> own = q.
Proof. exact EncodeRoundtrip.decoded_function_has_recorded_name. Qed.
Print Assumptions decoded_function_has_recorded_name.

Theorem rebound_name_rejected :
  forall (cname : cls -> string * string) (fname : fid -> string * string) (env : string -> string -> lookup)
         (m q : string) (o : pyobj) (g : fid),
    env m q = LFound o -> func_of_kind (unwrap o) = Ok (OFunc g) -> snd (fname g) <> q ->
    get_func_in_module env cname fname m q = Raises InvalidTypeError.
Proof. exact EncodeRoundtrip.rebound_name_rejected. Qed.
Print Assumptions rebound_name_rejected.

Theorem importable_func_iff :
  forall (cname : cls -> string * string) (fname : fid -> string * string) (env : string -> string -> lookup) (f : fid),
    importable_func cname fname env f <->
    exists o, env (fst (fname f)) (snd (fname f)) = LFound o /\ func_of_kind (unwrap o) = Ok (OFunc f).
Proof. exact EncodeRoundtrip.importable_func_iff. Qed.
Print Assumptions importable_func_iff.

Example ex_rebound_name :
  ex_ev "pkg.mod" "alias" = LFound (OFunc 0) /\ snd (ex_fn 0) <> "alias"
  /\ get_func_in_module ex_ev ex_cn ex_fn "pkg.mod" "alias" = Raises InvalidTypeError
  /\ get_func_in_module ex_ev ex_cn ex_fn "pkg.mod" "shadowed" = Raises InvalidTypeError
  /\ get_func_in_module ex_ev ex_cn ex_fn "pkg.mod" "wrapped" = Ok (OFunc 1)
  /\ get_func_in_module ex_ev ex_cn ex_fn "pkg.mod" "plain" = Ok (OFunc 0).
Proof. repeat split; try reflexivity. vm_compute. discriminate. Qed.
