"""C12 reifiers: FunctionDefinition / inspect.Signature -> Gallina `fdef`, stub text -> token stream (via `tokenize`)
and -> item list (via `ast`).  All fail closed: anything unrecognised becomes a term no model output equals."""
import ast
import inspect
import io
import tokenize

from harness.common import coq_bool, coq_list, coq_opt, coq_str

KIND = {
    inspect.Parameter.POSITIONAL_ONLY: "PO",
    inspect.Parameter.POSITIONAL_OR_KEYWORD: "PK",
    inspect.Parameter.VAR_POSITIONAL: "VP",
    inspect.Parameter.KEYWORD_ONLY: "KO",
    inspect.Parameter.VAR_KEYWORD: "VK",
}
FKIND = {"MODULE": "KModule", "CLASS": "KClass", "INSTANCE": "KInstance", "STATIC": "KStatic",
         "PROPERTY": "KProperty", "DJANGO_CACHED_PROPERTY": "KCachedProperty"}


def param_parts(param):
    """(name, kind, annotation text or None, has_default) of one inspect.Parameter, the annotation text taken from
    /repo's own render_parameter (so the Optional[...] wrapping and render_annotation are the real ones)."""
    from monkeytype.stubs import render_parameter
    formatted = render_parameter(param)
    body = formatted.lstrip("*")
    stars = len(formatted) - len(body)
    want = {"VP": 1, "VK": 2}.get(KIND[param.kind], 0)
    anno = None
    bad = stars != want or not body.startswith(param.name)
    rest = body[len(param.name):]
    has_default = rest.endswith(" = ...")
    if has_default:
        rest = rest[: -len(" = ...")]
    if rest.startswith(": "):
        anno = rest[2:]
    elif rest != "":
        bad = True
    if (anno is not None) != (param.annotation is not inspect.Parameter.empty):
        bad = True
    if has_default != (param.default is not inspect.Parameter.empty):
        bad = True
    if bad:
        anno = "?unparsed:" + formatted
    return param.name, KIND[param.kind], anno, has_default


def coq_param(param):
    n, k, a, d = param_parts(param)
    return f"(Param {coq_str(n)} {k} {coq_opt(coq_str(a) if a is not None else None)} {coq_bool(d)})"


def strip_modules_of(defn):
    """what build_module_stubs hands to FunctionStub as strip_modules"""
    from monkeytype.stubs import get_imports_for_signature
    imports = get_imports_for_signature(defn.signature)
    if defn.typed_dict_class_stubs:
        imports["mypy_extensions"].add("TypedDict")
    return list(imports.keys())


def coq_fdef(defn):
    from monkeytype.stubs import render_annotation
    sig = defn.signature
    ret = None
    if sig.return_annotation is not inspect.Signature.empty:
        ret = render_annotation(sig.return_annotation)
    kind = FKIND.get(defn.kind.name, "KModule")
    return "(FDef %s %s %s %s %s %s %s)" % (
        coq_str(defn.module), coq_str(defn.qualname), kind, coq_bool(defn.is_async),
        coq_list(coq_param(p) for p in sig.parameters.values()),
        coq_opt(coq_str(ret) if ret is not None else None),
        coq_list(coq_str(m) for m in strip_modules_of(defn)))


def coq_pentry(name, kind, has_default, annotated):
    return f"({coq_str(name)}, {kind}, {coq_bool(has_default)}, {coq_bool(annotated)})"


def gt_params_of_signature(sig):
    """names, kinds, order, presence of defaults (and of source annotations) of a live function"""
    return [(p.name, KIND[p.kind], p.default is not inspect.Parameter.empty,
             p.annotation is not inspect.Parameter.empty) for p in sig.parameters.values()]


# ------------------------------------------------------------------------------------------------
# text -> tokens
# ------------------------------------------------------------------------------------------------
_LAYOUT = {tokenize.NEWLINE, tokenize.NL, tokenize.INDENT, tokenize.DEDENT, tokenize.ENDMARKER, tokenize.COMMENT}
_OPS = {":": "TColon", "=": "TEq", "...": "TEllipsis", "*": "TStar", "**": "TStarStar", "/": "TSlash",
        ",": "TComma", "(": "TLParen", ")": "TRParen", "->": "TArrow", "@": "TAt", ".": "TDot"}
_OPEN, _CLOSE = "([{", ")]}"


def tokens_of_text(text):
    """Python's own tokenizer; layout tokens dropped; the expression after a parameter's ':' or after '->' grouped
    into one TAnno carrying its source text."""
    try:
        toks = [t for t in tokenize.generate_tokens(io.StringIO(text).readline) if t.type not in _LAYOUT]
    except (tokenize.TokenError, IndentationError, SyntaxError) as e:
        return [f"(TKw {coq_str('?tokenize-failed:' + str(e))})"]
    lines = text.split("\n")
    out = []
    depth = 0
    i = 0

    def span_text(a, b):
        if a.start[0] != b.end[0]:
            return "?multiline-annotation"
        return lines[a.start[0] - 1][a.start[1]:b.end[1]]

    def collect(j, stops):
        """tokens j.. up to (not including) the first token in `stops` at bracket depth 0"""
        d = 0
        k = j
        while k < len(toks):
            s = toks[k].string
            if d == 0 and toks[k].type == tokenize.OP and s in stops:
                break
            if toks[k].type == tokenize.OP and s in _OPEN:
                d += 1
            elif toks[k].type == tokenize.OP and s in _CLOSE:
                d -= 1
            k += 1
        return k

    while i < len(toks):
        t = toks[i]
        if t.type == tokenize.NAME:
            if t.string in ("def", "async", "class"):
                out.append(f"(TKw {coq_str(t.string)})")
            else:
                out.append(f"(TName {coq_str(t.string)})")
            i += 1
        elif t.type == tokenize.OP and t.string in _OPS:
            s = t.string
            out.append(_OPS[s])
            i += 1
            if s == "(":
                depth += 1
            elif s == ")":
                depth -= 1
            elif (s == ":" and depth >= 1) or s == "->":
                stops = (",", "=", ")") if s == ":" else (":",)
                k = collect(i, stops)
                if k > i:
                    out.append(f"(TAnno {coq_str(span_text(toks[i], toks[k - 1]))})")
                i = k
        else:
            out.append(f"(TKw {coq_str('?token:' + tokenize.tok_name[t.type] + ':' + t.string)})")
            i += 1
    return out


# ------------------------------------------------------------------------------------------------
# text -> items
# ------------------------------------------------------------------------------------------------
def _entries(a: ast.arguments):
    pos = list(a.posonlyargs) + list(a.args)
    ndef = len(a.defaults)
    out = []
    for idx, arg in enumerate(pos):
        kind = "PO" if idx < len(a.posonlyargs) else "PK"
        out.append((arg.arg, kind, idx >= len(pos) - ndef, arg.annotation is not None))
    if a.vararg:
        out.append((a.vararg.arg, "VP", False, a.vararg.annotation is not None))
    for arg, d in zip(a.kwonlyargs, a.kw_defaults):
        out.append((arg.arg, "KO", d is not None, arg.annotation is not None))
    if a.kwarg:
        out.append((a.kwarg.arg, "VK", False, a.kwarg.annotation is not None))
    return out


def _item(path, name, decor, is_async, entries, ret):
    return "(Item %s %s %s %s %s %s)" % (
        coq_list(coq_str(c) for c in path), coq_str(name), coq_list(coq_str(d) for d in decor),
        coq_bool(is_async), coq_list(coq_pentry(*e) for e in entries), coq_bool(ret))


def _is_ellipsis_body(body):
    return (len(body) == 1 and isinstance(body[0], ast.Expr) and isinstance(body[0].value, ast.Constant)
            and body[0].value.value is Ellipsis)


def items_of_text(text):
    """ast.parse of a stub -> (coq term of `option (list item)`, python list of dict) ; import statements are
    skipped, every other statement kind becomes an item no expectation matches."""
    try:
        tree = ast.parse(text)
    except SyntaxError as e:
        return "None", None, f"{type(e).__name__}: {e.msg} (line {e.lineno}: {(e.text or '').strip()[:80]})"
    terms, plain = [], []

    def walk(body, path):
        for node in body:
            if isinstance(node, (ast.Import, ast.ImportFrom)) and not path:
                continue
            if isinstance(node, (ast.FunctionDef, ast.AsyncFunctionDef)):
                decor = [d.id if isinstance(d, ast.Name) else "?decorator" for d in node.decorator_list]
                name = node.name if _is_ellipsis_body(node.body) else "?body:" + node.name
                ents = _entries(node.args)
                is_async = isinstance(node, ast.AsyncFunctionDef)
                terms.append(_item(path, name, decor, is_async, ents, node.returns is not None))
                plain.append({"class": list(path), "name": name, "decorators": decor, "async": is_async,
                              "params": ents})
            elif isinstance(node, ast.ClassDef) and not node.bases and not node.keywords and not node.decorator_list:
                walk(node.body, path + [node.name])
            else:
                terms.append(_item(path, "?stmt:" + type(node).__name__, [], False, [], False))
                plain.append({"class": list(path), "name": "?stmt:" + type(node).__name__})

    walk(tree.body, [])
    return f"(Some {coq_list(terms)})", plain, None


def lines_of_text(text):
    """header lines of a stub, read with two regular expressions (no tokenizer, no parser): `class <dotted name>` and
    `[async] def <name>(` with the column they start in -> list of Coq `tline` terms.  Continuation lines of a wrapped
    signature hold parameters, never a header."""
    import re
    out = []
    for ln in text.split("\n"):
        m = re.match(r"^( *)class\s+([A-Za-z_0-9.]+)\s*[:(]", ln)
        if m:
            out.append(f"(TLClass {len(m.group(1))} {coq_list(coq_str(c) for c in m.group(2).split('.'))})")
            continue
        m = re.match(r"^( *)(?:async\s+)?def\s+([A-Za-z_0-9]+)\s*\(", ln)
        if m:
            out.append(f"(TLDef {len(m.group(1))} {coq_str(m.group(2))})")
    return out


def params_of_def_text(text):
    """for the grammar stream: `def f<params>: ...` -> option (list pentry)"""
    try:
        tree = ast.parse(text)
    except SyntaxError:
        return "None"
    fn = tree.body[0]
    return f"(Some {coq_list(coq_pentry(*e) for e in _entries(fn.args))})"
