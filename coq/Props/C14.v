(* C14 — placeholder until the proof files land (the prove-C14 builder owns this file). *)
From MT Require Import Types StubSet.
Theorem equivb_any_refl_partial : equivb TAny TAny = true.
Proof. reflexivity. Qed.
Print Assumptions equivb_any_refl_partial.
