(* C06 — the TypedDict size limit is honoured end to end; zero disables TypedDicts. *)
From MT Require Import Types Infer TypesFacts TdBounded.

(* limit 0: no TypedDict anywhere in the inferred type *)
Theorem k0_no_typeddict :
  forall vs t, forallb wf_valueb vs = true -> infer 0 vs = Some t -> has_td t = false.
Proof. exact TdBounded.k0_no_typeddict. Qed.
Print Assumptions k0_no_typeddict.

(* limit k: every TypedDict node of the inferred type has between 1 and k fields, at every depth,
   for single values and after merging any number of values *)
Theorem td_bounded_infer :
  forall k vs t, forallb wf_valueb vs = true -> infer k vs = Some t -> td_boundedb k t = true.
Proof. exact infer_bd. Qed.
Print Assumptions td_bounded_infer.

(* merging already-bounded types (what stub generation does with types decoded from the store) *)
Theorem td_bounded_merge :
  forall k ts t, Forall wf_ty ts -> forallb (td_boundedb k) ts = true -> shrink_top k ts = Some t ->
                 td_boundedb k t = true.
Proof. exact merge_bd. Qed.
Print Assumptions td_bounded_merge.

(* only non-empty dicts whose keys are all strings (and at most k of them) become TypedDicts *)
Theorem td_from_str_dicts_only :
  forall k v r o, get_type k v = Some (TTypedDict r o) ->
    exists kvs, v = VDict kvs /\ kvs <> [] /\ forallb is_strkey kvs = true
                /\ List.length kvs <= k /\ o = [] /\ map fst r = map strkey kvs.
Proof. exact td_only_from_str_dicts. Qed.
Print Assumptions td_from_str_dicts_only.

Example ex_c06_nonvacuous :
  let vs := [VDict [(VStr "a", VAtom cInt 1); (VStr "b", VStr "x"); (VStr "c", VAtom cNone 0)];
             VDict [(VStr "a", VAtom cInt 1)]] in
  forallb wf_valueb vs = true
  /\ infer 0 vs = Some (TUnion [TDict (TCls cStr) (TUnion [TCls cInt; TCls cStr; TCls cNone]);
                                TDict (TCls cStr) (TCls cInt)])
  /\ infer 3 vs = Some (TTypedDict [("a"%string, TCls cInt)] [("b"%string, TCls cStr); ("c"%string, TCls cNone)])
  /\ td_boundedb 3 (TTypedDict [("a"%string, TCls cInt)] [("b"%string, TCls cStr); ("c"%string, TCls cNone)]) = true.
Proof. vm_compute. repeat split; reflexivity. Qed.
