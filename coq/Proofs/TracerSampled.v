(* Proofs/TracerSampled.v — the GLOBAL statements about the call tracer under sampling ON (C18), outside the known
   finding class kf_resume_sampled_after_skip:
     - the log, read oldest first, is exactly the unsampled completion sequence restricted to the calls whose FIRST
       call event was sampled: same traces, same order; hence a sublist of the unsampled log;
     - the table holds exactly the pending frames whose first call was sampled, each with the partial trace of the
       unsampled run; no duplicate keys; empty once every sampled frame has finished;
     - the number of log entries is the number of completed traceable frames whose first draw is 0.
   Everything is for EVERY well-formed history; only the Examples at the end are computations. *)
From Coq Require Import Lia Permutation.
From MT Require Import Types Tracer TracerFacts TracerOrder.
Arguments gated : simpl never.

(* ================= the side condition: no frame of the history is in the finding class ================= *)
Definition kf_free (rate : option nat) (H : list ev) : bool :=
  forallb (fun f => negb (kf_resume_sampled_after_skip rate (proj f H))) (frames_of H).

Lemma kf_nil rate : kf_resume_sampled_after_skip rate [] = false.
Proof. unfold kf_resume_sampled_after_skip. cbn. destruct (sampling rate); reflexivity. Qed.

Lemma kf_free_iff rate H :
  kf_free rate H = true <-> forall f, kf_resume_sampled_after_skip rate (proj f H) = false.
Proof.
  unfold kf_free. rewrite forallb_forall. split.
  - intros A f. destruct (existsb (N.eqb f) (frames_of H)) eqn:X.
    + apply in_frames_of in X. apply negb_true_iff. apply A. exact X.
    + rewrite (proj_nil_not_in f H X). apply kf_nil.
  - intros A f _. rewrite A. reflexivity.
Qed.

(* ---- first_draw / first_taken only look at the first call event: appending events changes nothing ---- *)
Lemma first_draw_app es es' d : first_draw es = Some d -> first_draw (es ++ es') = Some d.
Proof.
  induction es as [|e r IH]; intros F; [discriminate F|].
  destruct e as [g c args d'|g c sm op a|g c]; cbn [app first_draw] in *; [exact F|discriminate F|apply IH; exact F].
Qed.

Lemma first_call_has_draw es c args : first_call es = Some (c, args) -> exists d, first_draw es = Some d.
Proof.
  induction es as [|e r IH]; intros F; [discriminate F|].
  destruct e as [g c' args' d'|g c' sm op a|g c']; cbn [first_call first_draw] in *;
    [exists d'; reflexivity|discriminate F|apply IH; exact F].
Qed.

Lemma expected_has_draw es : expected_frame es <> [] -> exists d, first_draw es = Some d.
Proof.
  unfold expected_frame. destruct (first_call es) as [[c args]|] eqn:F; [|intros N; exfalso; apply N; reflexivity].
  intros _. apply (first_call_has_draw es c args F).
Qed.

Lemma first_taken_app rate es es' d :
  first_draw es = Some d -> first_taken rate (es ++ es') = first_taken rate es.
Proof. intros F. unfold first_taken. rewrite (first_draw_app es es' d F), F. reflexivity. Qed.

Lemma later_zero_app es es' : forall b, later_zero b es = true -> later_zero b (es ++ es') = true.
Proof.
  induction es as [|e r IH]; intros b L; [discriminate L|].
  destruct e as [g c args d|g c sm op a|g c]; cbn [app later_zero] in *; try (apply IH; exact L).
  destruct b; [|apply IH; exact L].
  apply orb_prop in L. destruct L as [L|L]; [rewrite L; reflexivity|]. rewrite (IH _ L). apply orb_true_r.
Qed.

(* the finding class is closed under extension, so its complement is prefix closed *)
Lemma kf_prefix rate es es' :
  kf_resume_sampled_after_skip rate (es ++ es') = false -> kf_resume_sampled_after_skip rate es = false.
Proof.
  intros K. destruct (kf_resume_sampled_after_skip rate es) eqn:K0; [|reflexivity]. exfalso.
  unfold kf_resume_sampled_after_skip in *. apply andb_prop in K0. destruct K0 as [K0 L].
  apply andb_prop in K0. destruct K0 as [S D]. destruct (first_draw es) as [d|] eqn:F; [|discriminate D].
  unfold any_later_draw_zero in *. rewrite S, (first_draw_app es es' d F), D, (later_zero_app es es' false L) in K.
  discriminate K.
Qed.

Lemma kf_all_app_l rate H1 H2 :
  (forall f, kf_resume_sampled_after_skip rate (proj f (H1 ++ H2)) = false) ->
  forall f, kf_resume_sampled_after_skip rate (proj f H1) = false.
Proof. intros K f. specialize (K f). rewrite proj_app in K. apply kf_prefix in K. exact K. Qed.

Lemma kf_free_app_l rate H1 H2 : kf_free rate (H1 ++ H2) = true -> kf_free rate H1 = true.
Proof. rewrite !kf_free_iff. apply kf_all_app_l. Qed.

Lemma kf_free_firstn rate n H : kf_free rate H = true -> kf_free rate (firstn n H) = true.
Proof. intros K. rewrite <- (firstn_skipn n H) in K. apply kf_free_app_l in K. exact K. Qed.

(* ================= sublists ================= *)
Inductive sublist {A : Type} : list A -> list A -> Prop :=
| sub_nil : sublist [] []
| sub_skip x l1 l2 : sublist l1 l2 -> sublist l1 (x :: l2)
| sub_take x l1 l2 : sublist l1 l2 -> sublist (x :: l1) (x :: l2).

Lemma sublist_refl {A} (l : list A) : sublist l l.
Proof. induction l; constructor; assumption. Qed.

Lemma filter_sublist {A} (p : A -> bool) l : sublist (filter p l) l.
Proof. induction l as [|x l IH]; cbn; [constructor|]. destruct (p x); constructor; exact IH. Qed.

Lemma sublist_length {A} (l1 l2 : list A) : sublist l1 l2 -> List.length l1 <= List.length l2.
Proof. induction 1; cbn; lia. Qed.

Lemma sublist_In {A} (l1 l2 : list A) x : sublist l1 l2 -> In x l1 -> In x l2.
Proof. induction 1; cbn; intros I; [exact I|right; auto|destruct I; [left; assumption|right; auto]]. Qed.

Lemma sublist_app {A} (a1 a2 b1 b2 : list A) : sublist a1 a2 -> sublist b1 b2 -> sublist (a1 ++ b1) (a2 ++ b2).
Proof. intros Sa Sb. induction Sa; cbn; [exact Sb|constructor; exact IHSa|constructor; exact IHSa]. Qed.

Lemma sublist_rev {A} (l1 l2 : list A) : sublist l1 l2 -> sublist (rev l1) (rev l2).
Proof.
  induction 1; cbn; [constructor| |].
  - rewrite <- (app_nil_r (rev l1)). apply sublist_app; [exact IHsublist|]. apply sub_skip. constructor.
  - apply sublist_app; [exact IHsublist|apply sublist_refl].
Qed.

(* ================= the sampled log is the restricted completion sequence ================= *)
(* was the first call event of the frame of this log entry taken?  Judged on the events of H *)
Definition taken_in (rate : option nat) (H : list ev) (p : N * trace) : bool := first_taken rate (proj (fst p) H).

(* one more event: the log grows by what the event completes, if that frame's first call was taken *)
Lemma sampled_log_step rate H e :
  sampling rate = true -> wf_history (H ++ [e]) = true ->
  (forall f, kf_resume_sampled_after_skip rate (proj f (H ++ [e])) = false) ->
  logged (run rate (H ++ [e])) = rev (filter (taken_in rate (H ++ [e])) (emit H e)) ++ logged (run rate H).
Proof.
  intros Hs W K. pose proof (wf_history_app_l _ _ W) as W0. pose proof (kf_all_app_l _ _ _ K) as K0.
  destruct (sampled_history rate _ (ev_frame e) Hs W (K _)) as [A _].
  destruct (sampled_history rate _ (ev_frame e) Hs W0 (K0 _)) as [B _].
  destruct (wf_history_frame _ (ev_frame e) W) as [Wf _].
  assert (ev_consistent e = true) as Ce.
  { apply wf_history_iff in W. destruct W as [_ C]. rewrite forallb_app in C. apply andb_prop in C.
    destruct C as [_ C]. cbn in C. rewrite andb_true_r in C. exact C. }
  rewrite proj_snoc_same in A, Wf.
  assert (run rate (H ++ [e]) = step rate (run rate H) e) as R by (unfold run; rewrite fold_left_app; reflexivity).
  rewrite R in *. clear R.
  destruct (step_log rate (run rate H) e) as [E|(f & c & sm & op & a & t & -> & Y & L & E)].
  - (* nothing logged: e completes nothing, or completes a frame whose first call was skipped *)
    rewrite E. unfold emit. destruct (completes e) as [f|] eqn:C; [|reflexivity].
    destruct (emit_completing_frame _ _ _ C Wf) as [E0 [t E1]].
    pose proof (completes_frame _ _ C) as ->.
    rewrite proj_snoc_same, E1. cbn [map filter]. unfold taken_in. cbn [fst]. rewrite proj_snoc_same.
    unfold logged_for in A, B. rewrite E, B, E0, E1 in A.
    destruct (first_taken rate (proj (ev_frame e) H ++ [e])); [|reflexivity].
    destruct (first_taken rate (proj (ev_frame e) H)); discriminate A.
  - (* one entry logged: e completes its frame, the first call was taken, the entry is the expected trace *)
    cbn [ev_frame] in *. rewrite E.
    unfold logged_for in A. rewrite E in A. cbn [filter fst map snd] in A. rewrite N.eqb_refl in A.
    cbn [map snd] in A. fold (logged_for f (run rate H)) in A. rewrite B in A.
    destruct (first_taken rate (proj f H ++ [EvReturn f c sm op a])) eqn:FT; [|discriminate A].
    assert (is_final sm = true) as Fi.
    { destruct (is_final sm) eqn:Fi; [reflexivity|]. cbn [ev_consistent] in Ce.
      rewrite (nonfinal_is_yield_op _ _ _ Ce Fi) in Y. discriminate Y. }
    assert (completes (EvReturn f c sm op a) = Some f) as C.
    { apply (expected_snoc_return_completes _ _ _ _ _ _ Wf Fi). rewrite <- A. discriminate. }
    pose proof (proj_snoc_same H (EvReturn f c sm op a)) as PS. cbn [ev_frame] in PS.
    destruct (emit_completing_frame _ _ _ C Wf) as [E0 _].
    unfold emit. rewrite C, PS, <- A, E0.
    assert ((if first_taken rate (proj f H) then @nil trace else []) = []) as -> by (destruct (first_taken rate (proj f H)); reflexivity).
    cbn [map filter]. unfold taken_in. cbn [fst]. rewrite PS, FT. reflexivity.
Qed.

(* an entry of the completion sequence belongs to a frame that has started: its first draw is fixed *)
Lemma completion_has_draw H f t : In (f, t) (completion_events H) -> exists d, first_draw (proj f H) = Some d.
Proof.
  intros I. apply completion_events_In in I. destruct I as (H1 & e & H2 & -> & C & I).
  destruct (expected_has_draw (proj f (H1 ++ [e]))) as [d D]; [intros N; rewrite N in I; destruct I|].
  exists d. replace (H1 ++ e :: H2) with ((H1 ++ [e]) ++ H2) by (rewrite <- app_assoc; reflexivity).
  rewrite proj_app. apply first_draw_app. exact D.
Qed.

(* ... so whether it is taken can be judged on any extension of the history: the whole history, the prefix up to
   the completion, or anything in between *)
Lemma taken_in_extend rate H H' p : In p (completion_events H) -> taken_in rate (H ++ H') p = taken_in rate H p.
Proof.
  destruct p as [f t]. intros I. destruct (completion_has_draw H f t I) as [d D].
  unfold taken_in. cbn [fst]. rewrite proj_app. apply (first_taken_app rate _ _ d D).
Qed.

Lemma filter_taken_extend rate H H' :
  filter (taken_in rate (H ++ H')) (completion_events H) = filter (taken_in rate H) (completion_events H).
Proof. apply filter_ext_in. intros p I. apply taken_in_extend. exact I. Qed.

(* judged on the prefix that ends with the completion event itself *)
Lemma taken_at_completion rate H1 e H2 f :
  wf_history (H1 ++ e :: H2) = true -> completes e = Some f ->
  first_taken rate (proj f (H1 ++ e :: H2)) = first_taken rate (proj f (H1 ++ [e])).
Proof.
  intros W C. replace (H1 ++ e :: H2) with ((H1 ++ [e]) ++ H2) in * by (rewrite <- app_assoc; reflexivity).
  apply wf_history_app_l in W. destruct (wf_history_frame _ f W) as [Wf _].
  pose proof (completes_frame _ _ C) as ->. rewrite proj_snoc_same in Wf.
  destruct (emit_completing_frame _ _ _ C Wf) as [_ [t E1]].
  destruct (expected_has_draw (proj (ev_frame e) H1 ++ [e])) as [d D]; [rewrite E1; discriminate|].
  rewrite proj_app, proj_snoc_same. apply (first_taken_app rate _ _ d D).
Qed.

(* THE SAMPLED ORDER THEOREM, with the side condition as a proposition *)
Theorem sampled_log_is_restricted_completion_sequence rate H :
  sampling rate = true -> wf_history H = true ->
  (forall f, kf_resume_sampled_after_skip rate (proj f H) = false) ->
  rev (logged (run rate H)) = filter (taken_in rate H) (completion_events H).
Proof.
  intros Hs. induction H as [|e H IH] using rev_ind; intros W K; [reflexivity|].
  rewrite (sampled_log_step rate H e Hs W K), completion_events_snoc, rev_app_distr, rev_involutive, filter_app.
  rewrite (IH (wf_history_app_l _ _ W) (kf_all_app_l _ _ _ K)), filter_taken_extend. reflexivity.
Qed.

(* 1. read oldest first, the sampled log is exactly the unsampled completion sequence restricted to the calls whose
   first call event was sampled: same traces, same order *)
Theorem sampled_log_is_subsequence rate H :
  sampling rate = true -> wf_history H = true -> kf_free rate H = true ->
  rev (logged (run rate H)) = filter (fun p => first_taken rate (proj (fst p) H)) (completion_events H).
Proof.
  intros Hs W K.
  apply (sampled_log_is_restricted_completion_sequence rate H Hs W (proj1 (kf_free_iff rate H) K)).
Qed.

(* the same thing against the unsampled RUN instead of the declarative sequence *)
Corollary sampled_log_filters_unsampled_log rate H :
  sampling rate = true -> wf_history H = true -> kf_free rate H = true ->
  rev (logged (run rate H)) = filter (fun p => first_taken rate (proj (fst p) H)) (rev (logged (run None H))).
Proof.
  intros Hs W K. rewrite (log_is_completion_sequence None H eq_refl W). apply sampled_log_is_subsequence; assumption.
Qed.

Corollary sampled_log_sublist_of_unsampled rate H :
  sampling rate = true -> wf_history H = true -> kf_free rate H = true ->
  sublist (rev (logged (run rate H))) (rev (logged (run None H))).
Proof. intros Hs W K. rewrite (sampled_log_filters_unsampled_log rate H Hs W K). apply filter_sublist. Qed.

Corollary sampled_log_sublist_of_unsampled_newest_first rate H :
  sampling rate = true -> wf_history H = true -> kf_free rate H = true ->
  sublist (logged (run rate H)) (logged (run None H)).
Proof.
  intros Hs W K. rewrite <- (rev_involutive (logged (run rate H))), <- (rev_involutive (logged (run None H))).
  apply sublist_rev. apply sampled_log_sublist_of_unsampled; assumption.
Qed.

(* at every moment of the run, with `taken` judged on the WHOLE history (or on the prefix: they agree) *)
Corollary sampled_log_is_subsequence_prefix rate H n :
  sampling rate = true -> wf_history H = true -> kf_free rate H = true ->
  rev (logged (run rate (firstn n H))) = filter (taken_in rate H) (completion_events (firstn n H)).
Proof.
  intros Hs W K. rewrite <- (firstn_skipn n H) at 2. rewrite filter_taken_extend.
  apply (sampled_log_is_subsequence rate (firstn n H) Hs (wf_history_firstn n H W) (kf_free_firstn rate n H K)).
Qed.

(* entry by entry: (f,t) is logged iff the call of f has finished with trace t — the trace of the unsampled
   description — and its first call event drew 0 *)
Definition first_draw_zero (es : list ev) : bool := match first_draw es with Some 0 => true | _ => false end.

Lemma first_taken_is_draw_zero rate es d :
  sampling rate = true -> first_draw es = Some d -> first_taken rate es = first_draw_zero es.
Proof.
  intros Hs D. unfold first_taken, first_draw_zero, skipped_by_sampling. rewrite D, Hs. destruct d; reflexivity.
Qed.

Theorem sampled_log_entries rate H f t :
  sampling rate = true -> wf_history H = true -> kf_free rate H = true ->
  (In (f, t) (logged (run rate H)) <-> expected_frame (proj f H) = [t] /\ first_draw_zero (proj f H) = true).
Proof.
  intros Hs W K. rewrite in_rev, (sampled_log_is_subsequence rate H Hs W K), filter_In.
  rewrite (completion_events_iff_expected None H f t eq_refl W). cbn [fst].
  split; intros [E T]; (split; [exact E|]);
    (destruct (expected_has_draw (proj f H)) as [d D]; [rewrite E; discriminate|]);
    rewrite (first_taken_is_draw_zero rate _ d Hs D) in *; exact T.
Qed.

Corollary sampled_logged_frames_nodup rate H :
  sampling rate = true -> wf_history H = true -> kf_free rate H = true -> NoDup (map fst (logged (run rate H))).
Proof.
  intros Hs W K. pose proof (sampled_log_sublist_of_unsampled_newest_first rate H Hs W K) as S.
  pose proof (logged_frames_nodup None H eq_refl W) as Nd. revert Nd.
  induction S; cbn [map fst]; intros Nd; [constructor| |]; inversion Nd as [|? ? Hn Hr]; subst.
  - apply IHS. exact Hr.
  - constructor; [|apply IHS; exact Hr]. intros I. apply Hn. apply in_map_iff in I. destruct I as (p & Ep & I).
    apply in_map_iff. exists p. split; [exact Ep|]. apply (sublist_In _ _ _ S I).
Qed.

(* ================= 2. the table under sampling ================= *)
Lemma frame_partial_taken_from rate c es :
  first_taken rate es = true -> wf_frame_from c true es = true -> forallb ev_consistent es = true ->
  fst (pf_run rate None es) = partial_frame es.
Proof.
  induction es as [|e r IH]; intros Hs W C; [reflexivity|].
  cbn [forallb] in C. apply andb_prop in C. destruct C as [Ce Cr].
  destruct e as [g c' args d|g c' sm op a|g c']; cbn [wf_frame_from] in W.
  - apply andb_prop in W. destruct W as [W Wr]. apply andb_prop in W. destruct W as [_ Ec].
    apply code_eqb_eq in Ec. subst c'.
    unfold partial_frame. cbn [first_call pf_run pf_step].
    destruct (gated c) eqn:G.
    { rewrite (pf_run_untraceable rate c false r); [reflexivity| |exact Wr]. unfold untraceable. rewrite G. reflexivity. }
    unfold first_taken in Hs. cbn in Hs. apply negb_true_iff in Hs. rewrite Hs.
    destruct (c_func c) as [fn|] eqn:F.
    2:{ rewrite (pf_run_untraceable rate c false r); [reflexivity| |exact Wr]. unfold untraceable. rewrite F. apply orb_true_r. }
    rewrite (pf_run_started rate c fn r false (Trace fn args None None) G F Wr Cr).
    cbn [t_func t_args t_ret t_yield final_of yields_of].
    destruct (final_of r) as [[sm a]|]; reflexivity.
  - cbn in W. discriminate W.
  - apply andb_prop in W. destruct W as [_ Wr]. cbn [pf_run pf_step]. unfold partial_frame in *.
    cbn [first_call final_of yields_of]. assert (first_taken rate r = true) as Hs' by exact Hs.
    rewrite <- (IH Hs' Wr Cr). destruct (pf_run rate None r) as [st out]. reflexivity.
Qed.

(* one frame (only this frame has to be outside the finding class) *)
Theorem sampled_table_entry rate H f :
  sampling rate = true -> wf_history H = true -> kf_resume_sampled_after_skip rate (proj f H) = false ->
  lookup f (live (run rate H)) = if first_taken rate (proj f H) then partial_frame (proj f H) else None.
Proof.
  intros Hs W K. destruct (wf_history_frame H f W) as [Wf Cf]. destruct (run_proj rate H f) as [A _]. rewrite A.
  destruct (first_taken rate (proj f H)) eqn:Ft.
  - destruct (proj f H) as [|e r] eqn:E; [reflexivity|]. apply (frame_partial_taken_from rate (ev_code e)); assumption.
  - rewrite (pf_run_unsampled rate _ Hs (kf_free_unsampled rate _ Hs Ft K)). reflexivity.
Qed.

(* the table holds exactly the pending frames whose first call was sampled, each with the partial trace of the
   unsampled description *)
Theorem sampled_table rate H f :
  sampling rate = true -> wf_history H = true -> kf_free rate H = true ->
  lookup f (live (run rate H)) = if first_taken rate (proj f H) then partial_frame (proj f H) else None.
Proof. intros Hs W K. apply sampled_table_entry; try assumption. apply kf_free_iff. exact K. Qed.

(* ... i.e. the table of the unsampled run, restricted *)
Corollary sampled_table_restricts_unsampled rate H f :
  sampling rate = true -> wf_history H = true -> kf_free rate H = true ->
  lookup f (live (run rate H)) = if first_taken rate (proj f H) then lookup f (live (run None H)) else None.
Proof. intros Hs W K. rewrite (live_entry_is_partial_trace None H f eq_refl W). apply sampled_table; assumption. Qed.

Theorem sampled_table_keys rate H f :
  sampling rate = true -> wf_history H = true -> kf_free rate H = true ->
  (In f (map fst (live (run rate H))) <-> first_taken rate (proj f H) = true /\ pending_frame (proj f H) = true).
Proof.
  intros Hs W K. rewrite in_keys_lookup, (sampled_table rate H f Hs W K), <- partial_frame_pending.
  destruct (first_taken rate (proj f H)); destruct (partial_frame (proj f H)); split;
    try (intros [? ?]; congruence); try (intros N; exfalso; apply N; reflexivity); try (intros _; split; reflexivity);
    try discriminate.
Qed.

Theorem sampled_table_nodup rate H : NoDup (map fst (live (run rate H))).
Proof. apply live_keys_nodup. Qed.

(* empty once every frame whose first call was sampled has finished — in particular once every frame has *)
Theorem sampled_table_empty rate H :
  sampling rate = true -> wf_history H = true -> kf_free rate H = true ->
  (forall f, In f (frames_of H) -> first_taken rate (proj f H) = true -> pending_frame (proj f H) = false) ->
  live (run rate H) = [].
Proof.
  intros Hs W K Fin. destruct (live (run rate H)) as [|[f t] l] eqn:E; [reflexivity|]. exfalso.
  assert (first_taken rate (proj f H) = true /\ pending_frame (proj f H) = true) as [T P].
  { apply (sampled_table_keys rate H f Hs W K). rewrite E. left. reflexivity. }
  destruct (existsb (N.eqb f) (frames_of H)) eqn:X.
  - apply in_frames_of in X. rewrite (Fin f X T) in P. discriminate P.
  - rewrite (proj_nil_not_in f H X) in P. discriminate P.
Qed.

Corollary sampled_table_empty_when_all_finished rate H :
  sampling rate = true -> wf_history H = true -> kf_free rate H = true ->
  (forall f, In f (frames_of H) -> pending_frame (proj f H) = false) ->
  live (run rate H) = [].
Proof. intros Hs W K Fin. apply sampled_table_empty; try assumption. intros f I _. apply Fin. exact I. Qed.

(* ================= 3. how many calls are logged ================= *)
(* the call of this frame is traceable and has finished *)
Definition completed_frame (es : list ev) : bool := match expected_frame es with [] => false | _ :: _ => true end.
(* the frames the sampler keeps: completed traceable calls whose FIRST draw is 0 *)
Definition sampled_frames (H : list ev) : list N :=
  filter (fun f => completed_frame (proj f H) && first_draw_zero (proj f H)) (frames_of H).

Lemma frames_of_nodup H : NoDup (frames_of H).
Proof.
  induction H as [|e r IH]; cbn [frames_of]; [constructor|].
  destruct (existsb (N.eqb (ev_frame e)) (frames_of r)) eqn:X; [exact IH|]. constructor; [|exact IH].
  intros I. apply in_frames_of in I. rewrite I in X. discriminate X.
Qed.

Lemma nodup_keys_filter {A} (p : N * A -> bool) l : NoDup (map fst l) -> NoDup (map fst (filter p l)).
Proof.
  induction l as [|x l IH]; cbn; intros Nd; [constructor|]. inversion Nd as [|? ? Hn Hr]. subst.
  destruct (p x); [|apply IH; exact Hr]. cbn. constructor; [|apply IH; exact Hr].
  intros I. apply Hn. apply in_map_iff in I. destruct I as (y & Ey & I). apply filter_In in I.
  apply in_map_iff. exists y. split; [exact Ey|apply I].
Qed.

Lemma expected_in_frames H f : expected_frame (proj f H) <> [] -> In f (frames_of H).
Proof.
  intros Ne. apply in_frames_of. destruct (existsb (N.eqb f) (frames_of H)) eqn:X; [reflexivity|].
  rewrite (proj_nil_not_in f H X) in Ne. exfalso. apply Ne. reflexivity.
Qed.

Theorem sampled_count rate H :
  sampling rate = true -> wf_history H = true -> kf_free rate H = true ->
  List.length (logged (run rate H)) = List.length (sampled_frames H).
Proof.
  intros Hs W K. rewrite <- rev_length, (sampled_log_is_subsequence rate H Hs W K).
  rewrite <- (map_length fst). apply Permutation_length. apply NoDup_Permutation.
  - apply nodup_keys_filter. apply completion_frames_nodup. exact W.
  - apply NoDup_filter. apply frames_of_nodup.
  - intros f. unfold sampled_frames. rewrite in_map_iff, filter_In. split.
    + intros ([g t] & Eg & I). cbn in Eg. subst g. apply filter_In in I. destruct I as [I T]. cbn [fst] in T.
      apply (completion_events_iff_expected None H f t eq_refl W) in I.
      destruct (expected_has_draw (proj f H)) as [d D]; [rewrite I; discriminate|].
      rewrite (first_taken_is_draw_zero rate _ d Hs D) in T.
      split; [apply expected_in_frames; rewrite I; discriminate|].
      unfold completed_frame. rewrite I, T. reflexivity.
    + intros [_ CT]. apply andb_prop in CT. destruct CT as [Cm Z]. unfold completed_frame in Cm.
      pose proof (expected_frame_le1 (proj f H)) as L1.
      destruct (expected_frame (proj f H)) as [|t [|t' l]] eqn:E; [discriminate Cm| |cbn in L1; lia].
      exists (f, t). split; [reflexivity|]. apply filter_In. split.
      * apply (completion_events_iff_expected None H f t eq_refl W). exact E.
      * cbn [fst]. destruct (expected_has_draw (proj f H)) as [d D]; [rewrite E; discriminate|].
        rewrite (first_taken_is_draw_zero rate _ d Hs D). exact Z.
Qed.

(* the frames the UNSAMPLED tracer logs, counted the same way: the sampled count is the part with first draw 0 *)
Definition completed_frames (H : list ev) : list N := filter (fun f => completed_frame (proj f H)) (frames_of H).

Theorem unsampled_count H :
  wf_history H = true -> List.length (logged (run None H)) = List.length (completed_frames H).
Proof.
  intros W. rewrite <- rev_length, (log_is_completion_sequence None H eq_refl W).
  rewrite <- (map_length fst). apply Permutation_length. apply NoDup_Permutation.
  - apply completion_frames_nodup. exact W.
  - apply NoDup_filter. apply frames_of_nodup.
  - intros f. unfold completed_frames. rewrite in_map_iff, filter_In. split.
    + intros ([g t] & Eg & I). cbn in Eg. subst g.
      apply (completion_events_iff_expected None H f t eq_refl W) in I.
      split; [apply expected_in_frames; rewrite I; discriminate|]. unfold completed_frame. rewrite I. reflexivity.
    + intros [_ Cm]. unfold completed_frame in Cm. pose proof (expected_frame_le1 (proj f H)) as L1.
      destruct (expected_frame (proj f H)) as [|t [|t' l]] eqn:E; [discriminate Cm| |cbn in L1; lia].
      exists (f, t). split; [reflexivity|]. apply (completion_events_iff_expected None H f t eq_refl W). exact E.
Qed.

Lemma sampled_frames_filter_completed H :
  sampled_frames H = filter (fun f => first_draw_zero (proj f H)) (completed_frames H).
Proof.
  unfold sampled_frames, completed_frames. induction (frames_of H) as [|f l IH]; [reflexivity|]. cbn [filter].
  destruct (completed_frame (proj f H)); cbn [andb filter]; [|exact IH].
  destruct (first_draw_zero (proj f H)); rewrite IH; reflexivity.
Qed.

Corollary sampled_count_le_unsampled rate H :
  sampling rate = true -> wf_history H = true -> kf_free rate H = true ->
  List.length (logged (run rate H)) <= List.length (logged (run None H)).
Proof. intros Hs W K. apply sublist_length. apply sampled_log_sublist_of_unsampled_newest_first; assumption. Qed.

(* ================= non-vacuity ================= *)
(* five interleaved frames, rate 2 (draws 0/1):
     10 generator, first draw 0, resumed with draws 1 and 1: kept, all yields recorded;
     11 generator, first draw 1, resumed with draw 1: dropped (and not in the finding class);
     20 plain, draw 0: kept;   21 plain, draw 1: dropped;
     12 generator, first draw 0, still suspended at the end: in the table with its partial trace;
     13 generator, first draw 1, still suspended at the end: not in the table.
   Unsampled completion order: 21, 11, 20, 10.  Sampled log: 20, 10. *)
Definition ex_sampled_history : list ev :=
  let g := Code 1 false true (Some 7%N) KGen in
  let h := Code 2 false true (Some 8%N) KGen in
  let p := Code 3 false true (Some 9%N) KPlain in
  [EvCall 10 g [("a"%string, TCls cInt)] 0; EvReturn 10 g SYield op_yield (TCls cInt);
   EvCall 11 h [("b"%string, TCls cStr)] 1; EvReturn 11 h SYield op_yield (TCls cStr);
   EvCall 21 p [("x"%string, TCls cInt)] 1;
   EvCall 20 p [("x"%string, TCls cStr)] 0; EvOther 20 p;
   EvCall 10 g [("a"%string, TCls cStr)] 1; EvReturn 10 g SYield op_yield (TCls cStr);
   EvReturn 21 p SReturn op_retv (TCls cInt);
   EvCall 12 g [("a"%string, TCls cNone)] 0; EvReturn 12 g SYield op_yield (TCls cNone);
   EvCall 13 h [] 1; EvReturn 13 h SYield op_yield (TCls cInt);
   EvCall 11 h [] 1; EvReturn 11 h SReturn op_retc (TCls cNone);
   EvReturn 20 p SRaise "RERAISE"%string (TCls cNone);
   EvCall 10 g [] 1; EvReturn 10 g SReturn op_retv (TCls cInt)].

Example ex_sampled_nonvacuous :
  let H := ex_sampled_history in
  let rate := Some 2 in
  let t21 := Trace 9 [("x"%string, TCls cInt)] (Some (TCls cInt)) None in
  let t11 := Trace 8 [("b"%string, TCls cStr)] (Some (TCls cNone)) (Some (TCls cStr)) in
  let t20 := Trace 9 [("x"%string, TCls cStr)] None None in
  let t10 := Trace 7 [("a"%string, TCls cInt)] (Some (TCls cInt)) (Some (TUnion [TCls cInt; TCls cStr])) in
  wf_history H = true /\ sampling rate = true /\ kf_free rate H = true
  /\ frames_of H = [21%N; 12%N; 13%N; 11%N; 20%N; 10%N]
  /\ completion_events H = [(21%N, t21); (11%N, t11); (20%N, t20); (10%N, t10)]
  /\ rev (logged (run None H)) = completion_events H
  /\ map (fun f => first_taken rate (proj f H)) [10%N; 11%N; 20%N; 21%N; 12%N; 13%N] = [true; false; true; false; true; false]
  /\ rev (logged (run rate H)) = [(20%N, t20); (10%N, t10)]
  /\ rev (logged (run rate H)) = filter (fun p => first_taken rate (proj (fst p) H)) (completion_events H)
  /\ live (run rate H) = [(12%N, Trace 7 [("a"%string, TCls cNone)] None (Some (TCls cNone)))]
  /\ map fst (live (run None H)) = [13%N; 12%N]
  /\ map (fun f => partial_frame (proj f H)) [12%N; 13%N]
     = [Some (Trace 7 [("a"%string, TCls cNone)] None (Some (TCls cNone))); Some (Trace 8 [] None (Some (TCls cInt)))]
  /\ completed_frames H = [21%N; 11%N; 20%N; 10%N] /\ sampled_frames H = [20%N; 10%N]
  /\ List.length (logged (run rate H)) = 2 /\ List.length (logged (run None H)) = 4
  (* halfway (after 10 events): only 21 has finished and it was skipped; the table holds 20 and 10 but not 11 *)
  /\ rev (logged (run rate (firstn 10 H))) = [] /\ completion_events (firstn 10 H) = [(21%N, t21)]
  /\ map fst (live (run rate (firstn 10 H))) = [10%N; 20%N]
  /\ map fst (live (run None (firstn 10 H))) = [10%N; 20%N; 11%N].
Proof. vm_compute. repeat split; reflexivity. Qed.

(* the side condition is needed: inside the finding class the global statement fails as well (the generator of
   Refuted/C18.v: first call skipped, a resumption sampled — an entry that the restricted sequence lacks) *)
Example ex_sampled_needs_kf_free :
  let g := Code 1 false true (Some 5%N) KGen in
  let H := [EvCall 1 g [("a"%string, TCls cInt)] 1; EvReturn 1 g SYield op_yield (TCls cInt);
            EvCall 1 g [("a"%string, TCls cStr)] 0; EvReturn 1 g SReturn op_retv (TCls cNone)] in
  wf_history H = true /\ kf_free (Some 2) H = false
  /\ rev (logged (run (Some 2) H)) = [(1%N, Trace 5 [("a"%string, TCls cStr)] (Some (TCls cNone)) None)]
  /\ filter (fun p => first_taken (Some 2) (proj (fst p) H)) (completion_events H) = [].
Proof. vm_compute. repeat split; reflexivity. Qed.
