"""Shared harness code: class table, reifiers (live Python objects -> Gallina terms),
Coq case-file runner, paths.  Runs under /venv/bin/python with PYTHONPATH=/repo."""
import collections
import collections.abc
import hashlib
import os
import re
import shutil
import subprocess
import sys
import types
import typing
from typing import Any

VERIF = os.path.dirname(os.path.dirname(os.path.abspath(__file__)))
COQ = os.path.join(VERIF, "coq")
REPO = os.environ.get("VERIF_REPO", "/repo")
PY = "/venv/bin/python"
NCPU = min(16, os.cpu_count() or 4)


def work_dir(tag: str) -> str:
    d = os.path.join(VERIF, "_work", f"{tag}-{os.getpid()}")
    shutil.rmtree(d, ignore_errors=True)
    os.makedirs(d)
    return d


def write_coqproject() -> bool:
    """_CoqProject lists every .v file under the fixed sub-directories (so adding a file needs no edit).
    Returns True when the list changed (the Makefile must then be regenerated)."""
    files = []
    for sub in ("Gen", "Model", "Proofs", "Check", "Props", "Refuted"):
        d = os.path.join(COQ, sub)
        if os.path.isdir(d):
            files += sorted(f"{sub}/{fn}" for fn in os.listdir(d) if fn.endswith(".v") and not fn.startswith("."))
    text = "-Q . MT\n" + "\n".join(files) + "\n"
    path = os.path.join(COQ, "_CoqProject")
    old = open(path).read() if os.path.exists(path) else ""
    if old != text:
        with open(path, "w") as f:
            f.write(text)
        return True
    return False


GEN_OF = {"extract_constants": "Constants", "extract_tracer": "TracerConstants", "extract_effects": "EffectsConstants",
          "extract_store": "StoreConstants", "extract_stubrender": "StubRenderConstants"}
LAST_GEN_FAILURES = {}      # generated file (basename without .v) -> message, from the last regenerate_all()


def regenerate_all():
    """Run every source-derived generator: harness/extract_*.py, each exposing regenerate() -> (ok, msg) and
    writing coq/Gen/<something>.v from /repo's current source.  Fail closed, but run ALL of them: which failure matters
    to which property is decided by gen_failures_for()."""
    import importlib
    hd = os.path.join(VERIF, "harness")
    LAST_GEN_FAILURES.clear()
    for fn in sorted(os.listdir(hd)):
        if fn.startswith("extract_") and fn.endswith(".py"):
            mod = importlib.import_module("harness." + fn[:-3])
            try:
                ok, msg = mod.regenerate()
            except Exception as e:      # an extractor that crashes has failed
                ok, msg = False, f"{type(e).__name__}: {e}"
            if not ok:
                LAST_GEN_FAILURES[GEN_OF.get(fn[:-3], fn[:-3])] = f"source extractor {fn}: {msg}"
    if LAST_GEN_FAILURES:
        return False, "; ".join(LAST_GEN_FAILURES.values())
    return True, "ok"


def coq_closure(rel_files):
    """Transitive closure of `From MT Require Import/Export ...` over coq/<dir>/<Name>.v files: set of module basenames."""
    import re as _re
    index = {}
    for d in ("Model", "Proofs", "Props", "Refuted", "Check", "Gen"):
        dd = os.path.join(COQ, d)
        if os.path.isdir(dd):
            for fn in os.listdir(dd):
                if fn.endswith(".v"):
                    index.setdefault(fn[:-2], []).append(os.path.join(dd, fn))
    seen, todo = set(), [os.path.join(COQ, f) for f in rel_files]
    names = set()
    while todo:
        f = todo.pop()
        if f in seen or not os.path.exists(f):
            continue
        seen.add(f)
        names.add(os.path.basename(f)[:-2])
        src = open(f).read()
        for m in _re.finditer(r"(?:From\s+MT\s+)?Require\s+(?:Import\s+|Export\s+)?([^.]*?)\.\s", src):
            for tok in m.group(1).replace("\n", " ").split():
                tok = tok.split(".")[-1]
                for cand in index.get(tok, []):
                    todo.append(cand)
    return names


def gen_failures_for(rel_files):
    """the extractor failures that concern a property: those whose generated file its Coq files (transitively) import"""
    if not LAST_GEN_FAILURES:
        return {}
    deps = coq_closure(rel_files)
    return {g: m for g, m in LAST_GEN_FAILURES.items() if g in deps}


def sub_env(extra=None):
    env = dict(os.environ)
    env["PYTHONPATH"] = REPO + os.pathsep + VERIF
    env["PYTHONHASHSEED"] = "0"
    env["PYTHONDONTWRITEBYTECODE"] = "1"
    env.pop("MONKEYTYPE_TRACE_MODULES", None)
    if extra:
        env.update(extra)
    return env


# ----------------------------------------------------------------------------------------------
# Gallina literals
# ----------------------------------------------------------------------------------------------
def coq_str(s: str) -> str:
    out = []
    for ch in s:
        o = ord(ch)
        if ch == '"':
            out.append('""')
        elif 32 <= o < 127:
            out.append(ch)
        else:
            # keep case files pure ASCII: escape anything else visibly (injective enough for the tie)
            out.append("\\u%04x" % o)
    return '"' + "".join(out) + '"%string'


def coq_list(items) -> str:
    return "[" + "; ".join(items) + "]"


def coq_N(n: int) -> str:
    return f"{n}%N"


def coq_opt(x) -> str:
    return "None" if x is None else f"(Some {x})"


def coq_bool(b) -> str:
    return "true" if b else "false"


# ----------------------------------------------------------------------------------------------
# class table
# ----------------------------------------------------------------------------------------------
BUILTIN_CODES = [
    (object, 0), (type(None), 1), (int, 2), (str, 3), (list, 4), (set, 5), (tuple, 6), (dict, 7),
    (collections.defaultdict, 8), (type, 9), (types.FunctionType, 10), (types.GeneratorType, 11),
    (float, 12), (bool, 13), (bytes, 14), (complex, 15),
]


class ClassTable:
    """Numbers classes; builtins have fixed codes, everything else gets >= 16 on first sight."""

    def __init__(self):
        self.code = {}
        self.by_code = {}
        for c, n in BUILTIN_CODES:
            self.code[c] = n
            self.by_code[n] = c
        self.next = 16

    def of(self, c) -> int:
        if c not in self.code:
            self.code[c] = self.next
            self.by_code[self.next] = c
            self.next += 1
            for b in c.__mro__[1:]:
                self.of(b)
        return self.code[c]

    def hierarchy(self) -> str:
        rows = []
        for c, n in sorted(self.code.items(), key=lambda kv: kv[1]):
            mro = [self.of(b) for b in c.__mro__]
            rows.append(f"({coq_N(n)}, {coq_list(coq_N(m) for m in mro)})")
        # self.of may have added bases; re-run until stable
        if len(rows) != len(self.code):
            return self.hierarchy()
        return coq_list(rows)

    def bases_table(self) -> str:
        rows = []
        for c, n in sorted(self.code.items(), key=lambda kv: kv[1]):
            rows.append(f"({coq_N(n)}, {coq_list(coq_N(self.of(b)) for b in c.__bases__)})")
        if len(rows) != len(self.code):
            return self.bases_table()
        return coq_list(rows)


# ----------------------------------------------------------------------------------------------
# reifiers
# ----------------------------------------------------------------------------------------------
_CALLABLE_TYPES = (types.FunctionType, types.LambdaType, types.MethodType,
                   types.BuiltinMethodType, types.BuiltinFunctionType, types.MethodWrapperType,
                   types.WrapperDescriptorType, types.MethodDescriptorType, types.ClassMethodDescriptorType)


class Unreifiable(Exception):
    pass


def reify_value(v, ct: ClassTable) -> str:
    if isinstance(v, type):
        return f"(VClassObj {coq_N(ct.of(v))})"
    if isinstance(v, _CALLABLE_TYPES):
        return "VCallable"
    if isinstance(v, types.GeneratorType):
        return "VGen"
    t = type(v)
    if t is str:
        return f"(VStr {coq_str(v)})"
    if t is list:
        return f"(VList {coq_list(reify_value(e, ct) for e in v)})"
    if t is set:
        return f"(VSet {coq_list(reify_value(e, ct) for e in v)})"
    if t is tuple:
        return f"(VTuple {coq_list(reify_value(e, ct) for e in v)})"
    if t is dict:
        return "(VDict %s)" % coq_list(f"({reify_value(k, ct)}, {reify_value(x, ct)})" for k, x in v.items())
    if t is collections.defaultdict:
        return "(VDefaultDict %s)" % coq_list(f"({reify_value(k, ct)}, {reify_value(x, ct)})" for k, x in v.items())
    payload = 0
    if t in (int, bool):
        payload = abs(int(v)) % 1000
    return f"(VAtom {coq_N(ct.of(t))} {coq_N(payload)})"


def _is_typed_dict(t):
    from mypy_extensions import _TypedDictMeta
    return isinstance(t, _TypedDictMeta)


def reify_type(t, ct: ClassTable) -> str:
    """Live typing object -> Gallina ty.  Fails closed: unknown shapes become TFwd "?opaque:..."
    which no model output equals."""
    if t is Any:
        return "TAny"
    if _is_typed_dict(t):
        if t.__name__ == "DUMMY_NAME" and set(t.__annotations__) == {"required_fields", "optional_fields"}:
            req = t.__annotations__["required_fields"].__annotations__
            opt = t.__annotations__["optional_fields"].__annotations__
            return "(TTypedDict %s %s)" % (
                coq_list(f"({coq_str(k)}, {reify_type(x, ct)})" for k, x in req.items()),
                coq_list(f"({coq_str(k)}, {reify_type(x, ct)})" for k, x in opt.items()))
        return f"(TFwd {coq_str('?opaque-typeddict:' + t.__name__)})"
    if t is typing.Callable:
        return "TCallable"
    if isinstance(t, typing.ForwardRef):
        return f"(TFwd {coq_str(t.__forward_arg__)})"
    origin = getattr(t, "__origin__", None)
    args = getattr(t, "__args__", None)
    if origin is not None and args is not None and not isinstance(t, type):
        def r(x):
            return reify_type(x, ct)
        if origin is typing.Union:
            return f"(TUnion {coq_list(r(a) for a in args)})"
        if origin is list and len(args) == 1:
            return f"(TList {r(args[0])})"
        if origin is set and len(args) == 1:
            return f"(TSet {r(args[0])})"
        if origin is dict and len(args) == 2:
            return f"(TDict {r(args[0])} {r(args[1])})"
        if origin is collections.defaultdict and len(args) == 2:
            return f"(TDefaultDict {r(args[0])} {r(args[1])})"
        if origin is type and len(args) == 1:
            return f"(TType {r(args[0])})"
        if origin is tuple:
            if args == ((),):
                return "(TTuple [])"
            if len(args) == 2 and args[1] is Ellipsis:
                return f"(TTupleVar {r(args[0])})"
            return f"(TTuple {coq_list(r(a) for a in args)})"
        if origin is collections.abc.Iterator and len(args) == 1:
            return f"(TIterator {r(args[0])})"
        if origin is collections.abc.Generator and len(args) == 3:
            return f"(TGenerator {r(args[0])} {r(args[1])} {r(args[2])})"
        return f"(TFwd {coq_str('?opaque:' + repr(t))})"
    if isinstance(t, type):
        return f"(TCls {coq_N(ct.of(t))})"
    return f"(TFwd {coq_str('?opaque:' + repr(t))})"


# ----------------------------------------------------------------------------------------------
# running Coq on generated case files
# ----------------------------------------------------------------------------------------------
def run_coqc(path: str, timeout=600):
    """coqc one file with the MT library on the path; returns (rc, stdout+stderr)."""
    # case files hold large literal terms: lift the stack limit for the parser (as far as the hard limit permits)
    cmd = 'ulimit -s unlimited 2>/dev/null || ulimit -s $(ulimit -Hs) 2>/dev/null; exec coqc -q -Q "$0" MT "$1"'
    p = subprocess.run(["bash", "-c", cmd, COQ, path], capture_output=True, text=True, timeout=timeout,
                       cwd=os.path.dirname(path))
    return p.returncode, p.stdout + p.stderr


def run_coq_shards(workdir: str, name: str, header: str, case_terms, case_type: str, eval_expr: str,
                   shard_size=400, timeout=900):
    """Write  Definition cases : list <case_type> := [...]  in shards, evaluate
    `eval_expr` (which mentions `cases`) by vm_compute in each, return list of (shard_offset, output).
    Raises RuntimeError if a shard does not compile (a broken tie, handled by the caller)."""
    case_terms = list(case_terms)
    files = []
    for si in range(0, max(1, len(case_terms)), shard_size):
        chunk = case_terms[si:si + shard_size]
        path = os.path.join(workdir, f"{name}_{si // shard_size}.v")
        with open(path, "w") as f:
            f.write(header + "\n")
            f.write(f"Definition cases : list ({case_type}) :=\n  [ ")
            f.write("\n  ; ".join(chunk))
            f.write(" ].\n")
            f.write(f"Eval vm_compute in ({eval_expr}).\n")
            f.write(f"Eval vm_compute in (List.length ({eval_expr})).\n")
        files.append((si, path))
    outs = []
    from concurrent.futures import ThreadPoolExecutor
    with ThreadPoolExecutor(max_workers=NCPU) as ex:
        for (si, path), (rc, out) in zip(files, ex.map(lambda sp: run_coqc(sp[1], timeout), files)):
            if rc != 0:
                raise RuntimeError(f"coqc failed on {path}:\n{out[-3000:]}")
            # self-check of the output parser: the number of (index, code) pairs must equal the printed length
            m = re.search(r"=\s*(\d+)\s*:\s*nat\s*$", out.strip())
            if m:
                body = out.strip()[:m.start()]
                if len(PAIR_RE.findall(body)) != int(m.group(1)):
                    raise RuntimeError(f"verdict output of {path} not understood: {int(m.group(1))} non-zero verdicts "
                                       f"announced, {len(PAIR_RE.findall(body))} parsed")
                out = body
            outs.append((si, out))
    return outs


PAIR_RE = re.compile(r"\(\s*(\d+)\s*,\s*(\d+)\s*\)")


def parse_bad(outs):
    """Parse `= [(i, code); ...]` outputs of run_coq_shards into global (index, code) pairs."""
    bad = []
    for si, out in outs:
        for m in PAIR_RE.finditer(out):
            bad.append((si + int(m.group(1)), int(m.group(2))))
    return bad


def digest(s: str) -> str:
    return hashlib.sha1(s.encode()).hexdigest()[:16]
