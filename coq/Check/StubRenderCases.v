(* Check/StubRenderCases.v — verdicts for the stub layout correspondence (C12).
   One case = one module's worth of function definitions handed to /repo's build_module_stubs, together with what
   the real ModuleStub.render() produced: its text, its `tokenize` stream (layout dropped, annotation spans grouped)
   and its `ast.parse` (reified), plus the ground truth about the live functions (generator's knowledge and
   inspect.signature).
   verdict: 0 ok; 1 model <> implementation, property predicate holds; 2 property predicate false on the
   implementation's own output; 3 malformed case.  verdict_kf adds 10 when the case is excused by the
   finding kf_nested_class (kf_excused: some traced function has two or more class components in its qualname, the text
   does not parse, and everything still judgeable — the FunctionDefinitions, one def line per traced function under
   its own dotted class header, nothing else — is right). *)
From Coq Require Import List Bool Arith String Ascii.
From MT Require Export StubRender Common.
Import ListNotations.
Open Scope list_scope.

Section ListEq.
Context {A : Type} (eqb : A -> A -> bool).
Fixpoint list_eqb (a b : list A) : bool :=
  match a, b with
  | [], [] => true
  | x :: a', y :: b' => eqb x y && list_eqb a' b'
  | _, _ => false
  end.
Definition option_eqb (a b : option A) : bool :=
  match a, b with Some x, Some y => eqb x y | None, None => true | _, _ => false end.
End ListEq.

Definition token_eqb (a b : token) : bool :=
  match a, b with
  | TName x, TName y | TAnno x, TAnno y | TLayout x, TLayout y | TKw x, TKw y => String.eqb x y
  | TColon, TColon | TEq, TEq | TEllipsis, TEllipsis | TStar, TStar | TStarStar, TStarStar | TSlash, TSlash
  | TComma, TComma | TLParen, TLParen | TRParen, TRParen | TArrow, TArrow | TAt, TAt | TDot, TDot => true
  | _, _ => false
  end.

Definition pentry_eqb (a b : pentry) : bool :=
  let '(n1, k1, d1, a1) := a in let '(n2, k2, d2, a2) := b in
  String.eqb n1 n2 && pkind_eqb k1 k2 && Bool.eqb d1 d2 && Bool.eqb a1 a2.
(* names, kinds, order, presence of defaults — what the property compares with the live function *)
Definition pentry_eqb3 (a b : pentry) : bool :=
  let '(n1, k1, d1, _) := a in let '(n2, k2, d2, _) := b in
  String.eqb n1 n2 && pkind_eqb k1 k2 && Bool.eqb d1 d2.

Definition item_eqb (a b : item) : bool :=
  list_eqb String.eqb (it_class a) (it_class b) && String.eqb (it_name a) (it_name b)
  && list_eqb String.eqb (it_decor a) (it_decor b) && Bool.eqb (it_async a) (it_async b)
  && list_eqb pentry_eqb (it_params a) (it_params b) && Bool.eqb (it_ret a) (it_ret b).

Record fcase := FCase {
  fc_gt_qual : list string;       (* the live function's qualname, split: class path then name *)
  fc_gt_kind : fkind;             (* as the generator wrote it: decorator / placement in the source *)
  fc_gt_async : bool;             (* `async def` without a `yield` *)
  fc_gt_params : list pentry;     (* inspect.signature of the live function; 4th component: annotated in the SOURCE *)
  fc_updated : bool;              (* fc_impl came out of get_updated_definition (false: hand-built FunctionDefinition) *)
  fc_traced : list string;        (* parameter names with a traced type *)
  fc_strategy : strategy;
  fc_impl : fdef                  (* the FunctionDefinition /repo produced *)
}.

(* the line structure of the real text, read off without Python's parser: `class <dotted name>` and `[async] def <name>`
   header lines with the column they start in *)
Inductive tline := TLClass (indent : nat) (name : list string) | TLDef (indent : nat) (name : string).

Record mcase := MCase {
  mc_module : string;
  mc_all : list fcase;            (* every definition handed to build_module_stubs, in order (all modules) *)
  mc_modkeys : list string;       (* keys of the returned dict, in order *)
  mc_text : string;               (* ModuleStub.render() of mc_module, import block removed *)
  mc_tokens : list token;
  mc_parse : option (list item);  (* ast.parse of the complete text; None = SyntaxError *)
  mc_lines : list tline           (* header lines of the complete text, in order *)
}.

(* (enclosing class path, name) of every def line: a header line closes the classes opened at its column or deeper;
   `class Outer.Inner:` at column 0 and `class Inner:` nested in `class Outer:` both give the path [Outer; Inner] *)
Fixpoint text_keys (stack : list (nat * list string)) (ls : list tline) : list (list string * string) :=
  match ls with
  | [] => []
  | TLClass i n :: r => text_keys ((i, n) :: filter (fun e => Nat.ltb (fst e) i) stack) r
  | TLDef i n :: r =>
      let st := filter (fun e => Nat.ltb (fst e) i) stack in
      (List.concat (rev (map snd st)), n) :: text_keys st r
  end.

Definition key_eqb (a b : list string * string) : bool :=
  list_eqb String.eqb (fst a) (fst b) && String.eqb (snd a) (snd b).

Definition gt_has_receiver (k : fkind) : bool :=
  match k with KClass | KInstance | KProperty | KCachedProperty => true | KModule | KStatic => false end.

Definition src_annotated (e : pentry) : bool := let '(_, _, _, a) := e in a.

(* a method's receiver is annotated in the stub only if the source annotates it *)
Definition receiver_ok (k : fkind) (shown gt : list pentry) : bool :=
  if gt_has_receiver k then
    match shown, gt with
    | s :: _, g :: _ => implb (src_annotated s) (src_annotated g)
    | _, _ => true
    end
  else true.

(* the FunctionDefinition mirrors the live function *)
Definition fcase_prop (c : fcase) : bool :=
  let d := fc_impl c in
  fkind_eqb (fd_kind d) (fc_gt_kind c) && Bool.eqb (fd_async d) (fc_gt_async c)
  && list_eqb String.eqb (fd_path d) (fc_gt_qual c)
  && list_eqb pentry_eqb3 (map erase (fd_params d)) (fc_gt_params c)
  && receiver_ok (fc_gt_kind c) (map erase (fd_params d)) (fc_gt_params c).

(* model of update_signature_args against the implementation: which parameters end up annotated *)
Definition fcase_model (c : fcase) : bool :=
  if fc_updated c then
    let src := map (fun e : pentry => let '(n, k, d, a) := e in
                                      Param n k (if a then Some EmptyString else None) d) (fc_gt_params c) in
    let traced := fun n => if existsb (String.eqb n) (fc_traced c) then Some EmptyString else None in
    list_eqb Bool.eqb
      (map (fun p => isSome (p_anno p)) (update_signature_args (fd_kind (fc_impl c)) (fc_strategy c) traced src))
      (map (fun p => isSome (p_anno p)) (fd_params (fc_impl c)))
  else true.

Definition gt_item_key (c : fcase) : list string * string :=
  (removelast (fc_gt_qual c), last (fc_gt_qual c) EmptyString).

Definition item_has_key (k : list string * string) (it : item) : bool :=
  list_eqb String.eqb (it_class it) (fst k) && String.eqb (it_name it) (snd k).

(* the stub shows this function exactly once, in its class, with its decorator, async flag and parameter list *)
Definition shown_ok (items : list item) (c : fcase) : bool :=
  match filter (item_has_key (gt_item_key c)) items with
  | [it] =>
      list_eqb String.eqb (it_decor it) (decorator_of (fc_gt_kind c))
      && Bool.eqb (it_async it) (fc_gt_async c)
      && list_eqb pentry_eqb3 (it_params it) (fc_gt_params c)
      && receiver_ok (fc_gt_kind c) (it_params it) (fc_gt_params c)
  | _ => false
  end.

Definition in_module (m : string) (c : fcase) : bool := String.eqb (fd_module (fc_impl c)) m.

Definition kf_case (c : mcase) : bool :=
  existsb (fun f => Nat.leb 2 (List.length (removelast (fc_gt_qual f)))) (filter (in_module (mc_module c)) (mc_all c)).

(* judged on the text alone (also when the text does not parse): every traced function has exactly one def line under
   the header(s) of its own class path, and there is no other def line — nothing lost, nothing merged, nothing added *)
Definition text_placed_ok (c : mcase) : bool :=
  let mine := filter (in_module (mc_module c)) (mc_all c) in
  let keys := text_keys [] (mc_lines c) in
  Nat.eqb (List.length keys) (List.length mine)
  && forallb (fun f => Nat.eqb (List.length (filter (key_eqb (gt_item_key f)) keys)) 1) mine.

(* all that is wrong with the case is what the finding kf_nested_class says: a traced function of a nested class, the
   text does not parse, but every FunctionDefinition mirrors its function and every def line sits under its own
   (dotted) class header *)
Definition kf_excused (c : mcase) : bool :=
  let mine := filter (in_module (mc_module c)) (mc_all c) in
  kf_case c && forallb fcase_prop mine && text_placed_ok c
  && match mc_parse c with None => true | Some _ => false end.

Definition verdict (c : mcase) : nat :=
  let mine := filter (in_module (mc_module c)) (mc_all c) in
  let ds := map fc_impl (mc_all c) in
  let valid := forallb (fun f => valid_def (fc_impl f)) mine in
  let quals := map (fun f => fd_qualname (fc_impl f)) mine in
  if negb (list_eqb String.eqb quals (nodup string_dec quals)) then 3
  else if negb (forallb (fun f => list_eqb String.eqb (split_dot (fd_qualname (fc_impl f))) (fd_path (fc_impl f))) mine) then 3
  else
  (* model against implementation *)
  let stubs := build_module_stubs ds in
  let model_ok :=
    list_eqb String.eqb (map fst stubs) (mc_modkeys c)
    && forallb fcase_model mine
    && match lookup (mc_module c) stubs with
       | Some m =>
           let ls := render_module m in
           String.eqb (lines_text ls) (mc_text c)
           && list_eqb token_eqb (lines_tokens ls) (mc_tokens c)
           && option_eqb (list_eqb item_eqb) (parse_module ls) (mc_parse c)
       | None => false
       end in
  (* property predicate on the implementation's own output *)
  let prop_ok :=
    if valid then
      forallb fcase_prop mine
      && text_placed_ok c
      && match mc_parse c with
         | Some items => Nat.eqb (List.length items) (List.length mine) && forallb (shown_ok items) mine
         | None => false
         end
    else true in
  if negb prop_ok then (if kf_excused c && negb model_ok then 1 else 2)
  else if negb model_ok then 1 else 0.

Definition verdict_kf (c : mcase) : nat :=
  let v := verdict c in
  if Nat.eqb v 0 then 0 else if kf_excused c then v + 10 else v.

(* ---- second stream: reparse against Python's own parser on arbitrary token sequences ---- *)
Record gcase := GCase {
  gc_tokens : list token;                       (* a parameter list in parentheses, possibly ungrammatical *)
  gc_python : option (list pentry)              (* ast.parse of "def f<text>: ..." reified; None = SyntaxError *)
}.
Definition verdict_g (c : gcase) : nat :=
  if option_eqb (list_eqb pentry_eqb) (reparse (gc_tokens c)) (gc_python c) then 0 else 1.

(* ---- third stream: histories.  One process stubs a module through the store path, the module's source is rewritten
   and reloaded, and it is stubbed again: hc_case is the SECOND stub (ground truth = the functions as they are now),
   hc_fresh what a fresh process that never saw the first version shows for the same traces. ---- *)
Record hcase := HCase {
  hc_case : mcase;
  hc_fresh : option (list item)
}.
Definition verdict_h (c : hcase) : nat :=
  let v := verdict (hc_case c) in
  if negb (Nat.eqb v 0) then v
  else if option_eqb (list_eqb item_eqb) (mc_parse (hc_case c)) (hc_fresh c) then 0 else 2.
