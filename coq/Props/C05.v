(* C05 — inferred types are tight: every alternative is witnessed by an observed value.
   The full statement is C05_full (real Gallina, kept visible); proved so far: the clauses that do not
   need the merge induction (`..._partial`).  The executable predicate tightb is evaluated on the
   implementation's output for every generated case (Check/TightCases.v). *)
From MT Require Import Types Infer Tight TightFacts.

Definition C05_full : Prop :=
  forall k vs t, vs <> [] -> forallb wf_valueb vs = true -> infer k vs = Some t -> tightb t vs = true.

(* leaves: class names are the exact runtime classes; class objects, callables, generators *)
Theorem get_type_tight_leaf_partial :
  forall k v t, is_leaf v = true -> get_type k v = Some t -> tightb t [v] = true.
Proof. exact get_type_tight_leaf. Qed.
Print Assumptions get_type_tight_leaf_partial.

(* `Any` is tight for the empty collection only: wherever tightb accepts an Any, nothing was seen there *)
Theorem any_only_where_nothing_seen_partial : forall vs, tightb TAny vs = true <-> vs = [].
Proof. exact tight_any_iff. Qed.
Print Assumptions any_only_where_nothing_seen_partial.

(* tightness entails membership under the exact-class, Any-admits-nothing reading (atomic types) *)
Theorem tight_admits_partial :
  forall t vs v, atomic_ty t = true -> tightb t vs = true -> In v vs -> member false subN v t = true.
Proof. exact tight_admits_atomic. Qed.
Print Assumptions tight_admits_partial.

Example ex_c05_nonvacuous :
  let vs := [VList [VDict [(VStr "a", VAtom cInt 1)]; VDict [(VStr "a", VAtom cInt 2); (VStr "b", VStr "x")]];
             VList []] in
  forallb wf_valueb vs = true /\ exists t, infer 3 vs = Some t /\ tightb t vs = true /\ has_td t = true.
Proof. vm_compute. split; [reflexivity|]. eexists. repeat split. Qed.
