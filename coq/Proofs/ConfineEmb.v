(* Proofs/ConfineEmb.v — C16: the order-preserving embedding ("stays in place") and its preservation
   by the three steps of transform_module_impl. *)
From Coq Require Import List Bool Arith String Ascii Lia.
From MT Require Import Confine.
Import ListNotations.
Open Scope list_scope.

(* ------------------------------------------------------------ boolean equalities reflect *)
Lemma ostr_eqb_eq a b : ostr_eqb a b = true <-> a = b.
Proof.
  destruct a, b; simpl; split; intro H; try discriminate; try reflexivity.
  - apply String.eqb_eq in H. now subst.
  - injection H as ->. apply String.eqb_refl.
Qed.

Lemma name_eqb_eq a b : name_eqb a b = true <-> a = b.
Proof.
  destruct a as [x u], b as [y v]. unfold name_eqb. simpl. rewrite andb_true_iff, String.eqb_eq, ostr_eqb_eq.
  split; [intros [-> ->]; reflexivity | intro H; injection H as -> ->; auto].
Qed.

Lemma item_eqb_eq a b : item_eqb a b = true <-> a = b.
Proof.
  destruct a as [m o al], b as [m' o' al']. unfold item_eqb. simpl.
  rewrite !andb_true_iff, String.eqb_eq, !ostr_eqb_eq.
  split; [intros [[-> ->] ->]; reflexivity | intro H; injection H as -> -> ->; auto].
Qed.

Lemma memb_In it l : memb it l = true <-> In it l.
Proof.
  unfold memb. rewrite existsb_exists. split.
  - intros [x [Hx He]]. apply item_eqb_eq in He. now subst.
  - intro H. exists it. split; [assumption | now apply item_eqb_eq].
Qed.

Lemma memb_false it l : memb it l = false <-> ~ In it l.
Proof.
  rewrite <- memb_In. destruct (memb it l); split; intro H.
  - discriminate.
  - now elim H.
  - intro X. discriminate.
  - reflexivity.
Qed.

Lemma smemb_In s l : smemb s l = true <-> In s l.
Proof.
  unfold smemb. rewrite existsb_exists. split.
  - intros [x [Hx He]]. apply String.eqb_eq in He. now subst.
  - intro H. exists s. split; [assumption | apply String.eqb_refl].
Qed.

(* ------------------------------------------------------------ the embedding as a relation *)
Inductive emb {A B : Type} (R : A -> B -> Prop) : list A -> list B -> Prop :=
| emb_nil : forall l', emb R [] l'
| emb_skip : forall l b l', emb R l l' -> emb R l (b :: l')
| emb_take : forall a b l l', R a b -> emb R l l' -> emb R (a :: l) (b :: l').
Arguments emb_nil {A B R}.
Arguments emb_skip {A B R}.
Arguments emb_take {A B R}.

Lemma emb_tail {A B} (R : A -> B -> Prop) a l l' : emb R (a :: l) l' -> emb R l l'.
Proof.
  intro H. remember (a :: l) as al eqn:E. revert a l E.
  induction H; intros; try discriminate.
  - apply emb_skip. eapply IHemb; eauto.
  - injection E as -> ->. now apply emb_skip.
Qed.

Lemma emb_mono {A B} (R R' : A -> B -> Prop) l l' :
  (forall a b, R a b -> R' a b) -> emb R l l' -> emb R' l l'.
Proof. intros HR H. induction H; [apply emb_nil | now apply emb_skip | apply emb_take; auto]. Qed.

Lemma emb_In {A B} (R : A -> B -> Prop) l l' a :
  emb R l l' -> In a l -> exists b, In b l' /\ R a b.
Proof.
  intro H. induction H; intro Hin.
  - destruct Hin.
  - destruct (IHemb Hin) as [x [Hx Hr]]. exists x. split; [now right | assumption].
  - destruct Hin as [<- | Hin].
    + exists b. split; [now left | assumption].
    + destruct (IHemb Hin) as [x [Hx Hr]]. exists x. split; [now right | assumption].
Qed.

Section Reflect.
Context {A B : Type} (r : A -> B -> bool).
Let R := fun a b => r a b = true.

Lemma embb_sound : forall l l', embb r l l' = true -> emb R l l'.
Proof.
  induction l as [|a t IH]; intros l' H.
  - apply emb_nil.
  - simpl in H. induction l' as [|b t' IH']; simpl in H; [discriminate|].
    destruct (r a b) eqn:E.
    + apply emb_take; [exact E | now apply IH].
    + apply emb_skip. now apply IH'.
Qed.

Lemma embb_complete : forall l l', emb R l l' -> embb r l l' = true.
Proof.
  induction l as [|a t IH]; intros l' H; [reflexivity|].
  simpl. remember (a :: t) as at_ eqn:E. revert E.
  induction H; intro E; try discriminate.
  - simpl. destruct (r a b) eqn:Er.
    + apply IH. subst. now apply emb_tail in H.
    + now apply IHemb.
  - injection E as -> ->. simpl. unfold R in H. rewrite H. now apply IH.
Qed.

Lemma embb_iff l l' : embb r l l' = true <-> emb R l l'.
Proof. split; [apply embb_sound | apply embb_complete]. Qed.
End Reflect.

(* names: sub-sequence with Leibniz equality *)
Definition sub (ns ns' : list name) : Prop := emb eq ns ns'.

Lemma sub_iff ns ns' : embb name_eqb ns ns' = true <-> sub ns ns'.
Proof.
  rewrite embb_iff. unfold sub. split; apply emb_mono; intros a b; apply name_eqb_eq.
Qed.

Lemma sub_filter (keep : name -> bool) ns ns' :
  sub ns ns' -> (forall n, In n ns -> keep n = true) -> sub ns (filter keep ns').
Proof.
  unfold sub. intro H. induction H; intro K.
  - apply emb_nil.
  - simpl. destruct (keep b); [apply emb_skip|]; now apply IHemb.
  - subst b. simpl. rewrite (K a (or_introl eq_refl)). apply emb_take; [reflexivity|].
    apply IHemb. intros n Hn. apply K. now right.
Qed.

Lemma sub_cons_r n ns ns' : sub ns ns' -> sub ns (n :: ns').
Proof. apply emb_skip. Qed.

Lemma sub_nonempty n ns ns' : sub (n :: ns) ns' -> ns' <> [].
Proof. intros H E. subst. inversion H. Qed.

Definition embeds (m m' : module) : Prop := emb (fun s s' => stmt_leb s s' = true) m m'.
Lemma embedsb_iff m m' : embedsb m m' = true <-> embeds m m'.
Proof. apply embb_iff. Qed.

(* ------------------------------------------------------------ removal keeps what is not moved *)
Definition clean (moved : list item) (i : imp) : Prop :=
  wf_imp i = true /\ forall it, In it (imp_items i) -> memb it moved = false.

Lemma rm_imp_keeps moved i i' :
  imp_leb i i' = true -> clean moved i ->
  exists i'', rm_imp moved i' = Some i'' /\ imp_leb i i'' = true.
Proof.
  intros Hle [Hwf Hcl]. destruct i as [ns | md ns | md], i' as [ns' | md' ns' | md']; simpl in Hle; try discriminate.
  - apply sub_iff in Hle.
    assert (S : sub ns (filter (keep_import moved) ns')).
    { apply sub_filter; [assumption|]. intros n Hn. unfold keep_import.
      rewrite (Hcl (Item (fst n) None (snd n))); [reflexivity|]. simpl. apply in_map_iff. now exists n. }
    simpl. destruct ns as [|n ns]; [discriminate|].
    destruct (filter (keep_import moved) ns') eqn:F; [now apply sub_nonempty in S|].
    eexists. split; [reflexivity|]. unfold imp_leb. now apply sub_iff.
  - apply andb_true_iff in Hle as [Hm Hs]. apply String.eqb_eq in Hm. subst md'.
    simpl. destruct (is_rel md) eqn:Rel.
    + eexists. split; [reflexivity|]. unfold imp_leb. apply andb_true_iff.
      split; [apply String.eqb_refl | exact Hs].
    + apply sub_iff in Hs.
      assert (S : sub ns (filter (keep_from moved md) ns')).
      { apply sub_filter; [assumption|]. intros n Hn. unfold keep_from.
        rewrite (Hcl (Item md (Some (fst n)) (snd n))); [reflexivity|]. simpl. rewrite Rel.
        apply in_map_iff. now exists n. }
      destruct ns as [|n ns]; [discriminate|].
      destruct (filter (keep_from moved md) ns') eqn:F; [now apply sub_nonempty in S|].
      eexists. split; [reflexivity|]. unfold imp_leb. apply andb_true_iff.
      split; [apply String.eqb_refl | now apply sub_iff].
  - eexists. split; [reflexivity|]. exact Hle.
Qed.

Lemma top_imps_cons s l : top_imps (s :: l) = match s with SImp i => [i] | _ => [] end ++ top_imps l.
Proof. reflexivity. Qed.

Lemma remove_keeps moved m m' :
  embeds m m' -> (forall i, In i (top_imps m) -> clean moved i) -> embeds m (remove moved m').
Proof.
  unfold embeds. intro H. induction H; intro K.
  - apply emb_nil.
  - simpl. destruct b; try (apply emb_skip; now apply IHemb).
    destruct (rm_imp moved i); [apply emb_skip|]; now apply IHemb.
  - assert (K' : forall i, In i (top_imps l) -> clean moved i).
    { intros i Hi. apply K. rewrite top_imps_cons. apply in_or_app. now right. }
    destruct b; try (simpl; apply emb_take; [exact H | now apply IHemb]).
    destruct a; simpl in H; try discriminate.
    assert (Ka : clean moved i0) by (apply K; rewrite top_imps_cons; apply in_or_app; left; now left).
    destruct (rm_imp_keeps moved i0 i H Ka) as [i'' [E L]].
    simpl. rewrite E. apply emb_take; [exact L | now apply IHemb].
Qed.

(* ------------------------------------------------------------ insertions keep everything *)
Lemma stmt_leb_widen a md ns' n :
  stmt_leb a (SImp (IFrom md ns')) = true -> stmt_leb a (SImp (IFrom md (n :: ns'))) = true.
Proof.
  destruct a; simpl; try discriminate. destruct i; simpl; try discriminate.
  intro H. apply andb_true_iff in H as [Hm Hs]. rewrite Hm. simpl.
  apply sub_iff. apply sub_cons_r. now apply sub_iff.
Qed.

Lemma add_first_keeps m m' : embeds m m' -> embeds m (add_first m').
Proof.
  unfold embeds. intro H. induction H.
  - apply emb_nil.
  - simpl. destruct b; try (now apply emb_skip).
    destruct i; try (apply emb_skip; assumption).
    destruct (String.eqb md "typing"); apply emb_skip; assumption.
  - simpl. destruct b; try (now apply emb_take).
    destruct i; try (apply emb_take; assumption).
    destruct (String.eqb md "typing").
    + apply emb_take; [now apply stmt_leb_widen | assumption].
    + apply emb_take; assumption.
Qed.

Lemma insert_after_block_keeps x m m' : embeds m m' -> embeds m (insert_after_block x m').
Proof.
  unfold embeds. intro H. induction H.
  - apply emb_nil.
  - simpl. destruct b; try (apply emb_skip; now apply emb_skip). now apply emb_skip.
  - simpl. destruct b; try (apply emb_skip; now apply emb_take). now apply emb_take.
Qed.

Lemma add_tc_body_keeps m m' : embeds m m' -> embeds m (add_tc_body m').
Proof.
  intro H. unfold add_tc_body.
  destruct (typing_star (top_block m') || typing_has_tc (top_block m')); [assumption|].
  destruct (typing_from (top_block m')); [now apply add_first_keeps | now apply insert_after_block_keeps].
Qed.

Lemma add_tc_keeps m m' : embeds m m' -> embeds m (add_tc m').
Proof.
  intro H. unfold add_tc. destruct m' as [|s r]; [now apply add_tc_body_keeps|].
  destruct s; try (now apply add_tc_body_keeps).
  unfold embeds in *. inversion H; subst.
  - apply emb_nil.
  - apply emb_skip. now apply add_tc_body_keeps.
  - apply emb_take; [assumption|]. now apply add_tc_body_keeps.
Qed.

Lemma insert_after_last_go_keeps x m m' : embeds m m' -> embeds m (insert_after_last_go x m').
Proof.
  unfold embeds. intro H. induction H.
  - apply emb_nil.
  - simpl. destruct (existsb is_simp l'); [now apply emb_skip|]. apply emb_skip. now apply emb_skip.
  - simpl. destruct (existsb is_simp l'); [now apply emb_take|]. apply emb_take; [assumption|]. now apply emb_skip.
Qed.

Lemma insert_block_keeps moved m m' : embeds m m' -> embeds m (insert_block moved m').
Proof.
  intro H. unfold insert_block. destruct moved; [assumption|]. unfold insert_after_last.
  destruct (existsb is_simp m'); [now apply insert_after_last_go_keeps | now apply emb_skip].
Qed.

(* ------------------------------------------------------------ clause 3: every source statement stays in place *)
Lemma top_imps_all i m : In i (top_imps m) -> In i (all_imps m).
Proof.
  unfold top_imps, all_imps. rewrite !in_flat_map. intros [s [Hs Hi]]. exists s. split; [assumption|].
  destruct s; simpl in Hi; try contradiction. simpl. exact Hi.
Qed.

Lemma kf_shadow_clean moved src :
  wf_module src = true ->
  existsb (fun it => memb it moved) (top_items src) = false ->
  forall i, In i (top_imps src) -> clean moved i.
Proof.
  intros Hwf Hk i Hi. split.
  - unfold wf_module in Hwf. rewrite forallb_forall in Hwf. apply Hwf. now apply top_imps_all.
  - intros it Hit. destruct (memb it moved) eqn:E; [|reflexivity].
    assert (X : existsb (fun it => memb it moved) (top_items src) = true).
    { apply existsb_exists. exists it. split; [|exact E]. unfold top_items. apply in_flat_map. now exists i. }
    rewrite X in Hk. discriminate.
Qed.

Theorem confine_keeps_source moved src applied :
  wf_module src = true ->
  embedsb src applied = true ->
  existsb (fun it => memb it moved) (top_items src) = false ->
  embedsb src (confine_with moved applied) = true.
Proof.
  intros Hwf He Hk. apply embedsb_iff. apply embedsb_iff in He. unfold confine_with.
  apply insert_block_keeps. apply remove_keeps; [now apply add_tc_keeps|].
  now apply kf_shadow_clean.
Qed.
