(* Model/SigUpdate.v — C13: how existing source annotations and traced types are combined into the
   stub signature.  Executable definitions only; proofs live in Proofs/SigUpdate.v.

   Source (monkeytype/stubs.py): ExistingAnnotationStrategy, update_signature_args,
   update_signature_return, shrink_traced_types, FunctionDefinition.has_self / _KIND_WITH_SELF,
   render_parameter's Optional[...] wrapping; (monkeytype/cli.py) the flag -> strategy map.
   The enum values, the receiver kinds and the flag table are NOT written here: they are read from
   Gen/Constants.v, which is regenerated from /repo on every run. *)
From MT Require Export Types Infer.
From MT Require Import Constants.

(* ---------------------------------------------------------------------------------------------
   annotations: everything the shared type vocabulary expresses, plus the source-only forms
   --------------------------------------------------------------------------------------------- *)
Inductive anno :=
| ATy (t : ty)               (* class, generic alias, Union/Optional, Any, ForwardRef (TFwd) *)
| AStr (s : string)          (* a string annotation exactly as inspect.signature reports it *)
| ANewType (name : string)   (* typing.NewType(name, ...) *)
| AOptNew (name : string).   (* Optional[<NewType name>] = Union[<NewType>, None] *)

Inductive pkind := PO | PK | VP | KO | VK.     (* inspect.Parameter kinds, in signature order *)
Inductive dflt := DNo | DNone | DOther.        (* no default / default is None / any other default *)

Record param := Param { pname : string; pk : pkind; panno : option anno; pdef : dflt }.
Record sig := Sig { sparams : list param; sret : option anno }.

(* one CallTrace: arg name -> type, return type, yield type *)
Record trace := Trace { cargs : list (string * ty); cret : option ty; cyield : option ty }.
(* the result of shrink_traced_types (after the rewriter) *)
Record traced := Traced { targs : list (string * ty); tret : option ty; tyield : option ty }.

(* ---------------------------------------------------------------------------------------------
   the tables read from the source
   --------------------------------------------------------------------------------------------- *)
Fixpoint lookup_nat (k : string) (l : list (string * nat)) : option nat :=
  match l with
  | [] => None
  | e :: r => if String.eqb k (fst e) then Some (snd e) else lookup_nat k r
  end.

(* `strategy == ExistingAnnotationStrategy.<name>`: enum members compare by identity, and members
   with equal values are aliases of one object, so this is equality of the declared values.  A name
   the enum does not declare compares equal to nothing (the source would raise AttributeError;
   every theorem that mentions the name then loses its non-vacuity Example and the build fails). *)
Definition is_strat (name : string) (s : nat) : bool :=
  match lookup_nat name annotation_strategies with
  | Some n => Nat.eqb s n
  | None => false
  end.

Definition known_strat (s : nat) : bool :=
  is_strat "REPLICATE" s || is_strat "IGNORE" s || is_strat "OMIT" s.

(* FunctionDefinition.has_self: kind in _KIND_WITH_SELF (kinds by enum member name) *)
Definition has_self (kind : string) : bool := existsb (String.eqb kind) kind_with_self.

(* ---------------------------------------------------------------------------------------------
   update_signature_args  (stubs.py:159-188)
   --------------------------------------------------------------------------------------------- *)
Definition set_anno (p : param) (a : option anno) : param := Param (pname p) (pk p) a (pdef p).

Definition annotated (p : param) : bool := match panno p with Some _ => true | None => false end.

Definition upd_param (s : nat) (is_self : bool) (typ : option ty) (p : param) : param :=
  let p1 := if annotated p && is_strat "OMIT" s then set_anno p None else p in
  if negb is_self && (is_strat "IGNORE" s || negb (annotated p))
  then set_anno p1 (option_map ATy typ)
  else p1.

Fixpoint upd_params (s : nat) (hs : bool) (args : list (string * ty)) (idx : nat) (ps : list param)
  : list param :=
  match ps with
  | [] => []
  | p :: r => upd_param s (hs && Nat.eqb idx 0) (lookup_f (pname p) args) p
              :: upd_params s hs args (S idx) r
  end.

(* ---------------------------------------------------------------------------------------------
   update_signature_return  (stubs.py:191-219)
   --------------------------------------------------------------------------------------------- *)
Definition is_none_ty (t : ty) : bool := py_eqb t (TCls cNone).     (* return_type == NoneType *)

(* the annotation the traces call for; None = the traces say nothing about the return *)
Definition traced_return (rt yt : option ty) : option ty :=
  match yt, rt with
  | Some y, None => Some (TIterator y)
  | Some y, Some r => if is_none_ty r then Some (TIterator y) else Some (TGenerator y (TCls cNone) r)
  | None, Some r => Some r
  | None, None => None
  end.

Definition upd_return (s : nat) (src : option anno) (rt yt : option ty) : option anno :=
  let from_traces := match traced_return rt yt with Some t => Some (ATy t) | None => src end in
  match src with
  | Some a => if is_strat "OMIT" s then None
              else if is_strat "REPLICATE" s then Some a
              else from_traces
  | None => from_traces
  end.

(* FunctionDefinition.from_callable_and_traced_types, the part that decides annotations *)
Definition update_sig (s : nat) (kind : string) (sg : sig) (tr : traced) : sig :=
  Sig (upd_params s (has_self kind) (targs tr) 0 (sparams sg))
      (upd_return s (sret sg) (tret tr) (tyield tr)).

(* ---------------------------------------------------------------------------------------------
   shrink_traced_types  (stubs.py:222-244): which positions count as traced, and with what type
   --------------------------------------------------------------------------------------------- *)
Fixpoint add_name (n : string) (seen : list string) : list string :=
  match seen with
  | [] => [n]
  | m :: r => if String.eqb n m then seen else m :: add_name n r
  end.

Definition trace_names (trs : list trace) : list string :=
  fold_left (fun acc t => fold_left (fun a e => add_name (fst e) a) (cargs t) acc) trs [].

Definition types_of_arg (n : string) (trs : list trace) : list ty :=
  flat_map (fun t => match lookup_f n (cargs t) with Some x => [x] | None => [] end) trs.
Definition types_of_ret (trs : list trace) : list ty :=
  flat_map (fun t => match cret t with Some x => [x] | None => [] end) trs.
Definition types_of_yield (trs : list trace) : list ty :=
  flat_map (fun t => match cyield t with Some x => [x] | None => [] end) trs.

(* a Python set of types handed to shrink_types: hash-set dedup, then the shared merge *)
Definition merge_set (k : nat) (ts : list ty) : option ty := shrink_top k (dedup [] ts).
Definition merge_opt (k : nat) (ts : list ty) : option (option ty) :=
  match ts with [] => Some None | _ => option_map Some (merge_set k ts) end.

(* None = the shared merge ran out of fuel / hit make_typed_dict's assertion (excluded in theorems) *)
Definition collect (k : nat) (trs : list trace) : option traced :=
  match mapM (fun n => option_map (pair n) (merge_set k (types_of_arg n trs))) (trace_names trs),
        merge_opt k (types_of_ret trs), merge_opt k (types_of_yield trs) with
  | Some a, Some r, Some y => Some (Traced a r y)
  | _, _, _ => None
  end.

(* get_updated_definition with the NoOp rewriter *)
Definition updated_definition (s : nat) (kind : string) (sg : sig) (k : nat) (trs : list trace)
  : option sig := option_map (update_sig s kind sg) (collect k trs).

(* ---------------------------------------------------------------------------------------------
   render_parameter's Optional wrapping  (stubs.py:397-401)
   --------------------------------------------------------------------------------------------- *)
Definition is_optional (a : anno) : bool :=       (* _is_optional: a Union with NoneType among its args *)
  match a with
  | ATy (TUnion ts) => existsb is_none_ty ts
  | AOptNew _ => true
  | _ => false
  end.

Definition opt_wrap (a : anno) : anno :=           (* typing.Optional[a] *)
  match a with
  | ATy t => ATy (union_mk [t; TCls cNone])
  | AStr s => ATy (union_mk [TFwd s; TCls cNone])  (* typing turns the string into a ForwardRef *)
  | ANewType n => AOptNew n
  | AOptNew n => AOptNew n
  end.

Definition is_dnone (d : dflt) : bool := match d with DNone => true | _ => false end.

(* the annotation render_parameter hands to render_annotation *)
Definition shown_param (p : param) : option anno :=
  match panno p with
  | None => None
  | Some a => Some (if negb (is_optional a) && is_dnone (pdef p) then opt_wrap a else a)
  end.

(* ---------------------------------------------------------------------------------------------
   cli.py: --ignore-existing-annotations / --omit-existing-annotations  (argparse store_const)
   Gen/Constants.cli_strategy_flags : (parser-or-group variable, flag, const member, default member)
   --------------------------------------------------------------------------------------------- *)
Inductive cli_res :=
| CliStrategy (s : nat)
| CliUsageError          (* argparse exits with status 2 *)
| CliNoSuchMember.       (* the table names an enum member the enum does not declare *)

Definition fe_parser (e : string * string * string * string) : string := fst (fst (fst e)).
Definition fe_flag (e : string * string * string * string) : string := snd (fst (fst e)).
Definition fe_const (e : string * string * string * string) : string := snd (fst e).
Definition fe_default (e : string * string * string * string) : string := snd e.

Definition member_res (name : string) : cli_res :=
  match lookup_nat name annotation_strategies with Some n => CliStrategy n | None => CliNoSuchMember end.

Definition mem_str (s : string) (l : list string) : bool := existsb (String.eqb s) l.

(* `parser` is the variable the flags are attached to: "group" (the mutually exclusive group of the
   stub sub-command) or "apply_parser".  `given` = the strategy-related flags on the command line. *)
Definition cli_strategy (parser : string) (given : list string) : cli_res :=
  let mine := filter (fun e => String.eqb (fe_parser e) parser) cli_strategy_flags in
  if negb (forallb (fun g => mem_str g (map fe_flag mine)) given) then CliUsageError   (* unrecognized *)
  else match filter (fun e => mem_str (fe_flag e) given) mine with
       | [] => match mine with e :: _ => member_res (fe_default e) | [] => CliUsageError end
       | [e] => member_res (fe_const e)
       | _ => CliUsageError                                (* not allowed with argument ... *)
       end.

(* ---------------------------------------------------------------------------------------------
   the property, as an executable predicate on (input, output) — used by the check on the
   implementation's OWN output, and proved of the model in Proofs/SigUpdate.v
   --------------------------------------------------------------------------------------------- *)
Definition anno_corrb (a b : anno) : bool :=
  match a, b with
  | ATy x, ATy y => corrb x y
  | AStr x, AStr y => String.eqb x y
  | ANewType x, ANewType y => String.eqb x y
  | AOptNew x, AOptNew y => String.eqb x y
  | _, _ => false
  end.

Definition oanno_corrb (a b : option anno) : bool :=
  match a, b with
  | None, None => true
  | Some x, Some y => anno_corrb x y
  | _, _ => false
  end.

(* what the statement allows at one position: src = source annotation, tr = traced type, out = stub.
   isR/isO/isI: which of the three documented modes is in force (kept abstract here so that the check
   can evaluate the predicate by member NAME, independently of the regenerated value table). *)
Definition allowed_b (isR isO isI : bool) (recv : bool) (src : option anno) (tr : option ty)
           (out : option anno) : bool :=
  if recv then oanno_corrb out (if isO then None else src)     (* never a traced type *)
  else if isR then
    oanno_corrb out (match src with Some a => Some a | None => option_map ATy tr end)
  else if isO then
    oanno_corrb out (match src with Some _ => None | None => option_map ATy tr end)
  else if isI then
    match tr with
    | Some t => oanno_corrb out (Some (ATy t))
    | None => oanno_corrb out None || oanno_corrb out src    (* the statement is silent: nothing invented *)
    end
  else false.

Definition allowed (s : nat) : bool -> option anno -> option ty -> option anno -> bool :=
  allowed_b (is_strat "REPLICATE" s) (is_strat "OMIT" s) (is_strat "IGNORE" s).

Definition pkind_eqb (a b : pkind) : bool :=
  match a, b with PO, PO | PK, PK | VP, VP | KO, KO | VK, VK => true | _, _ => false end.
Definition dflt_eqb (a b : dflt) : bool :=
  match a, b with DNo, DNo | DNone, DNone | DOther, DOther => true | _, _ => false end.

Section SpecParams.
Variable ok : bool -> option anno -> option ty -> option anno -> bool.   (* allowed s  /  allowed_b ... *)
Fixpoint spec_params_with (hs : bool) (args : list (string * ty)) (idx : nat) (src out : list param) : bool :=
  match src, out with
  | [], [] => true
  | p :: ps, o :: os =>
      String.eqb (pname p) (pname o) && pkind_eqb (pk p) (pk o) && dflt_eqb (pdef p) (pdef o)
      && ok (hs && Nat.eqb idx 0) (panno p) (lookup_f (pname p) args) (panno o)
      && spec_params_with hs args (S idx) ps os
  | _, _ => false
  end.

Definition spec_sig_with (hs : bool) (sg : sig) (tr : traced) (out : sig) : bool :=
  spec_params_with hs (targs tr) 0 (sparams sg) (sparams out)
  && ok false (sret sg) (traced_return (tret tr) (tyield tr)) (sret out).
End SpecParams.

Definition spec_params (s : nat) := spec_params_with (allowed s).
Definition spec_sig (s : nat) (kind : string) : sig -> traced -> sig -> bool :=
  spec_sig_with (allowed s) (has_self kind).

(* which positions count as traced, read off the traces directly (the statement's "traced") *)
Definition arg_traced (n : string) (trs : list trace) : bool :=
  existsb (fun t => match lookup_f n (cargs t) with Some _ => true | None => false end) trs.
Definition ret_traced (trs : list trace) : bool :=
  existsb (fun t => match cret t with Some _ => true | None => false end) trs.
Definition yield_traced (trs : list trace) : bool :=
  existsb (fun t => match cyield t with Some _ => true | None => false end) trs.
Definition isSome {A} (o : option A) : bool := match o with Some _ => true | None => false end.

Definition spec_presence (trs : list trace) (names : list string) (tr : traced) : bool :=
  forallb (fun n => Bool.eqb (isSome (lookup_f n (targs tr))) (arg_traced n trs)) names
  && forallb (fun e => arg_traced (fst e) trs) (targs tr)
  && Bool.eqb (isSome (tret tr)) (ret_traced trs)
  && Bool.eqb (isSome (tyield tr)) (yield_traced trs).
