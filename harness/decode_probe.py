"""python -m harness.decode_probe <root> <rows.json>  — run in a fresh interpreter with the (possibly mutated)
fixture package under <root>.  Two independent observations, printed as JSON:

 * the WORLD: for every module / qualname a row mentions (function and every type node), what
   importlib.import_module and plain getattr answer now, classified (function, bound method, property,
   class, Any, generic, other), with repr(type(o)) and the __wrapped__ chain;
 * the REAL DECODE: CallTraceRow(*row).to_trace() for every row: the trace (function name, decoded types),
   or the MonkeyTypeError subclass and message, or the class of any other exception; plus the parameter
   names of the function found.
"""
import importlib
import inspect
import json
import sys
import types
import typing


def fq(f):
    try:
        return f.__module__ + "." + f.__qualname__
    except Exception:
        return "?noname"


def is_generic(o):
    return o is typing.Union or isinstance(o, (typing._GenericAlias, typing._SpecialGenericAlias))


def gname(o):
    if o is typing.Union or getattr(o, "__origin__", None) is typing.Union:
        return "typing.Union"
    n = getattr(o, "_name", None)
    if n is None:
        return "?generic:" + repr(o)
    return "typing." + n


def fref(f):
    """the function object's OWN names: what get_func_in_module's final test and get_func_fqname read"""
    q = getattr(f, "__qualname__", None)
    return [str(getattr(f, "__module__", "?")), q if isinstance(q, str) else None]


def reify_obj(o, depth=0):
    if isinstance(o, types.MethodType):
        kind = ["method", fref(o.__func__)]
    elif isinstance(o, property):
        kind = ["property", None if o.fget is None else fref(o.fget), (o.fset is not None) or (o.fdel is not None)]
    elif isinstance(o, (types.FunctionType, types.BuiltinFunctionType)):
        kind = ["func", fref(o)]
    elif isinstance(o, type):
        kind = ["class", fq(o)]
    elif o is typing.Any:
        kind = ["any"]
    elif is_generic(o):
        kind = ["generic", gname(o)]
    else:
        kind = ["other"]
    wrapped = None
    if hasattr(o, "__wrapped__"):
        wrapped = ["?too-deep"] if depth > 8 else reify_obj(o.__wrapped__, depth + 1)
    return {"kind": kind, "tyrepr": repr(type(o)), "wrapped": wrapped}


def reify_type(t):
    from mypy_extensions import _TypedDictMeta
    if t is typing.Any:
        return ["any"]
    if isinstance(t, _TypedDictMeta):
        return ["td", t.__name__, [[k, reify_type(v)] for k, v in t.__annotations__.items()]]
    if isinstance(t, typing._SpecialGenericAlias) or t is typing.Union:
        return ["genbare", gname(t)]
    if isinstance(t, typing._GenericAlias):
        args = t.__args__
        if t.__origin__ is tuple and args == ((),):
            args = ()
        return ["gen", gname(t), [reify_type(a) for a in args]]
    if isinstance(t, type):
        return ["cls", fq(t)]
    return ["opaque", repr(t)]


def type_nodes(d, out):
    """(module, qualname) of every non-TypedDict node of a stored type dict"""
    if d.get("is_typed_dict", False):
        for v in d["elem_types"].values():
            type_nodes(v, out)
        return
    out.append((d["module"], d["qualname"]))
    for e in d.get("elem_types") or []:
        type_nodes(e, out)


def main(root, rows_path):
    sys.path.insert(0, root)
    rows = json.load(open(rows_path))
    names = []
    for tag, (m, q, a, r, y) in rows.items():
        names.append((m, q))
        for d in json.loads(a).values():
            type_nodes(d, names)
        for enc in (r, y):
            if enc is not None and enc != "null":
                type_nodes(json.loads(enc), names)
    imports, attrs, seen = {}, [], set()
    for m, q in names:
        if m not in imports:
            try:
                importlib.import_module(m)
                imports[m] = ["ok"]
            except ModuleNotFoundError:
                imports[m] = ["notfound"]
            except BaseException as e:
                imports[m] = ["raises", type(e).__name__]
        if imports[m] != ["ok"]:
            continue
        obj = importlib.import_module(m)
        walked = []
        for part in q.split("."):
            walked.append(part)
            key = (m, tuple(walked))
            try:
                obj = getattr(obj, part)
                res = ["ok", reify_obj(obj)]
            except AttributeError:
                res = ["missing"]
            except BaseException as e:
                res = ["raises", type(e).__name__]
            if key not in seen:
                seen.add(key)
                attrs.append([m, list(walked), res])
            if res[0] != "ok":
                break

    from monkeytype.encoding import CallTraceRow
    from monkeytype.exceptions import MonkeyTypeError
    from monkeytype.util import get_func_fqname
    results = {}
    for tag, row in rows.items():
        try:
            tr = CallTraceRow(*row).to_trace()
            try:
                params = list(inspect.signature(tr.func).parameters)
            except Exception:
                params = None
            results[tag] = ["ok", get_func_fqname(tr.func),
                            [[k, reify_type(v)] for k, v in tr.arg_types.items()],
                            None if tr.return_type is None else reify_type(tr.return_type),
                            None if tr.yield_type is None else reify_type(tr.yield_type),
                            params]
        except MonkeyTypeError as e:
            results[tag] = ["mt", type(e).__name__, str(e)]
        except BaseException as e:
            results[tag] = ["other", type(e).__name__]
    json.dump({"imports": imports, "attrs": attrs, "results": results}, sys.stdout)


if __name__ == "__main__":
    main(sys.argv[1], sys.argv[2])
