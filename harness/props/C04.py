"""C04 — inferred types admit every observed value, for every TypedDict size limit."""
from harness import common, infer_cases

COQ_TARGETS = ["Check/InferCases.vo"]
TRUSTED_BASE = ["typing's Union normalisation / == / hash as modelled by union_mk, py_eqb (Model/Types.v)"]
ASSUMPTIONS = [
    "class hierarchy handed to the model is the live __mro__ table",
    "dict keys of a reified value are pairwise distinct (Python dict invariant)",
    "no two TypedDict occurrences are the same object (every get_type builds a fresh one)",
]
PARTIAL = []


def run(ctx):
    n = 3000 if ctx.tier == "quick" else 40000
    ct, cases = infer_cases.generate(ctx.seed, n, with_small_scope=True)
    header = infer_cases.HEADER % ct.hierarchy()
    outs = common.run_coq_shards(ctx.work, "c04", header, [c["term"] for c in cases], "icase",
                                 "bad (verdict_c04 h) 0 cases")
    bad = common.parse_bad(outs)
    failures, mismatches = [], []
    for i, code in bad:
        c = cases[i]
        rec = {"k": c["k"], "values": c["vs_repr"], "impl": c["impl"], "term": c["term"], "error": c["error"]}
        if code == 2:
            rec["what"] = f"inferred type does not admit an observed value (or inference raised): k={c['k']} values={c['vs_repr'][:200]}"
            failures.append(rec)
        else:
            mismatches.append(rec)
    # ---- order and multiplicity: the implementation re-run on a shuffled collection and with one value repeated ----
    import random
    rnd = random.Random(ctx.seed + 404)
    pterms, pcases = [], []
    import collections
    b2 = ([collections.defaultdict(int, {"a": {"x": 1}}), 1], {"q": 1})      # DESIGN B-2: TypedDict below a union
    directed = [{"k": 1, "vs": [b2], "vs_repr": repr([b2]), "error": None, "force_dup": b2}]
    for d in directed:
        d["impl"] = common.reify_type(infer_cases.impl_infer(d["vs"], d["k"]), ct)
    for c in directed + cases:
        if "force_dup" not in c and (c["error"] or len(c["vs"]) < 2 or rnd.random() > 0.35):
            continue
        vs = list(c["vs"])
        sh = list(vs)
        rnd.shuffle(sh)
        dup = c.get("force_dup", rnd.choice(vs))
        try:
            t_perm = common.reify_type(infer_cases.impl_infer(sh, c["k"]), ct)
            if rnd.random() < 0.5:
                t_dup = common.reify_type(infer_cases.impl_infer(vs + [dup], c["k"]), ct)
            else:
                # duplication of the per-value TYPE (the very same type object twice), as when one decoded trace's type
                # is handed to the merge more than once
                from monkeytype.typing import get_type, shrink_types
                tys = [get_type(v, c["k"]) for v in vs]
                t_dup = common.reify_type(shrink_types(tys + [tys[vs.index(dup)]], c["k"]), ct)
        except Exception as e:
            failures.append({"what": f"inference raised on a permuted / duplicated collection: {type(e).__name__}: {e}; k={c['k']} values={c['vs_repr'][:200]}"})
            continue
        # merging must not change the types it is handed: the same type objects merged a second time (and merged with
        # their own result, as stub generation does with types that come out of one decoded row) give the same answer
        try:
            from monkeytype.typing import get_type, shrink_types
            tys = [get_type(v, c["k"]) for v in vs]
            before = [common.reify_type(t, ct) for t in tys]
            r1 = common.reify_type(shrink_types(list(tys), c["k"]), ct)
            after = [common.reify_type(t, ct) for t in tys]
            r2 = common.reify_type(shrink_types(list(tys), c["k"]), ct)
            if before != after or r1 != r2:
                failures.append({"what": f"merging changed the very type objects it was given (the same inputs merged a second time "
                                         f"give another answer): k={c['k']} values={c['vs_repr'][:200]}",
                                 "k": c["k"], "values": c["vs_repr"], "first": r1[:600], "second": r2[:600],
                                 "inputs_changed": before != after})
        except Exception as e:
            failures.append({"what": f"merging the same type objects twice raised {type(e).__name__}: {e}; k={c['k']} values={c['vs_repr'][:200]}"})
        vterms = common.coq_list(common.reify_value(v, ct) for v in vs)
        pterms.append(f"PCase {c['k']} {vterms} ({c['impl']}) ({t_perm}) {common.reify_value(dup, ct)} ({t_dup})")
        pcases.append({"k": c["k"], "values": c["vs_repr"], "shuffled": repr(sh)[:300], "repeated": repr(dup)[:200],
                       "impl": c["impl"], "impl_perm": t_perm, "impl_dup": t_dup})
    header = infer_cases.HEADER % ct.hierarchy()        # the class table may have grown
    pouts = common.run_coq_shards(ctx.work, "c04p", header, pterms, "pcase", "bad verdict_c04_order 0 cases")
    for i, code in common.parse_bad(pouts):
        c = dict(pcases[i])
        if code == 5:
            c["finding"] = "kf_td_under_union"
            c["what"] = (f"seeing a value twice changes the merged type (its type has a TypedDict below a union): k={c['k']} "
                         f"values={c['values'][:160]} repeated={c['repeated'][:120]}")
        elif code == 2:
            c["what"] = f"the merged type depends on the order / multiplicity of the values: k={c['k']} values={c['values'][:200]}"
        else:
            c["what"] = f"malformed order case (code {code})"
        failures.append(c)
    distinct = len({common.digest(c["term"]) for c in cases if c["nontrivial"]})
    dist = infer_cases.distribution(cases)
    dist["order_multiplicity_cases"] = len(pterms)
    return {
        "evaluations": len(cases) + len(pterms), "distinct_nontrivial": distinct,
        "rule": "exhaustive multisets (size<=3) over a 12-value alphabet x k in {0,1,2}, plus seeded random "
                "value collections (depth<=3, near-duplicates injected) x k in {0,1,2,3,10,200}; "
                "non-trivial = >=2 values with at least one container; distinct by hash of the reified case",
        "samples": [{"k": c["k"], "values": c["vs_repr"], "impl_type": c["impl"]} for c in cases[-3:]],
        "distribution": dist,
        "failures": failures, "mismatches": mismatches, "relation": "corrb (infer k vs) impl",
    }


def replay(ctx, payload):
    print(payload)
    return 0

CLAIM = {
    "text": "Coq theorems for every class table, every TypedDict limit k and every finite collection of well-formed values: "
            "infer_total (inference always yields a type: the merge never runs out of fuel and make_typed_dict's assert never "
            "fires: merge_never_asserts), infer_sound / infer_sound_annotation (every observed value is a member of the inferred "
            "type under both readings of Any), infer_well_formed, merge_order_invariant / infer_order_invariant (any permutation of "
            "the inputs gives an equivalent type - union members as sets - admitting the same values; TypedDicts anywhere), "
            "infer_multiplicity_invariant (repeating a value changes nothing unless its type has a TypedDict below a union; that "
            "class is refuted in Refuted/C04.v), infer0_depends_on_set_only, py_eq_characterised. Tie: differential check on "
            "~5k value collections with membership and multiset correspondence computed in Coq, plus the implementation re-run on "
            "shuffled and duplicated collections compared with equivb in Coq.",
    "note": "Trusted: Coq kernel + vm_compute; harness reifiers; typing's Union/==/hash semantics as modelled (union_mk, py_eqb). "
            "Finding kf_td_under_union recorded.",
    "technique": "Coq proof by nested induction over values/types and induction on the merge fuel + vm_compute differential "
                 "correspondence",
    "ref": "4/C04",
}
