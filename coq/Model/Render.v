(* Model/Render.v — text-level model of annotation rendering and stub assembly
   (monkeytype/stubs.py: RenderAnnotation, get_imports_for_*, ImportBlockStub, AttributeStub,
   FunctionStub incl. module-prefix stripping, ClassStub, ModuleStub, ReplaceTypedDictsWithStubs,
   build_module_stubs; monkeytype/util.py: pascal_case), plus a tokenizer / parser / evaluator of
   annotation text.  Executable definitions only; proofs live in Proofs/Render*.v.

   The prefix stripping modelled here is the REPAIRED one (_proposed/C11-prefix-strip.diff): one
   left-to-right pass, a module prefix `m.` is removed only where it is not preceded by an identifier
   character or a dot, longest module first.  Today's sequential `str.replace` is `strip_mods_old`. *)
From MT Require Export Types.
From MT Require Import Constants.

Open Scope string_scope.
Open Scope nat_scope.
Open Scope list_scope.

Infix "+++" := String.append (at level 60, right associativity).

(* ------------------------------------------------------------------------------------------ *)
(* strings                                                                                     *)
(* ------------------------------------------------------------------------------------------ *)
Fixpoint prefixb (p s : string) : bool :=
  match p with
  | EmptyString => true
  | String a p' => match s with
                   | EmptyString => false
                   | String b s' => Ascii.eqb a b && prefixb p' s'
                   end
  end.

Fixpoint join (sep : string) (l : list string) : string :=
  match l with
  | [] => ""
  | x :: r => match r with [] => x | _ => x +++ sep +++ join sep r end
  end.

(* Python's str.replace(old, new) for non-empty `old`: non-overlapping, leftmost first *)
Fixpoint replace_go (skip : nat) (old new s : string) : string :=
  match s with
  | EmptyString => ""
  | String c r =>
      match skip with
      | S k => replace_go k old new r
      | O => if prefixb old s then new +++ replace_go (String.length old - 1) old new r
             else String c (replace_go 0 old new r)
      end
  end.
Definition replace (old new s : string) : string :=
  match old with EmptyString => s | _ => replace_go 0 old new s end.

Fixpoint containsb (p s : string) : bool :=
  prefixb p s || match s with EmptyString => false | String _ r => containsb p r end.

Definition is_digit (c : ascii) : bool := let n := nat_of_ascii c in (48 <=? n) && (n <=? 57).
Definition is_upper (c : ascii) : bool := let n := nat_of_ascii c in (65 <=? n) && (n <=? 90).
Definition is_lower (c : ascii) : bool := let n := nat_of_ascii c in (97 <=? n) && (n <=? 122).
Definition is_alnum (c : ascii) : bool := is_digit c || is_upper c || is_lower c.
(* \w for the ASCII range; bytes >= 128 are treated as word characters (fixtures are ASCII) *)
Definition is_ident_char (c : ascii) : bool :=
  is_alnum c || Ascii.eqb c "_" || (128 <=? nat_of_ascii c).
Definition to_upper (c : ascii) : ascii :=
  if is_lower c then ascii_of_nat (nat_of_ascii c - 32) else c.

Definition is_identifier (s : string) : bool :=
  match s with
  | EmptyString => false
  | String c _ => negb (is_digit c) &&
                  (fix all (s : string) : bool :=
                     match s with EmptyString => true
                                | String c r => (is_alnum c || Ascii.eqb c "_") && all r end) s
  end.

(* split at "." *)
Fixpoint split_dot_go (s cur : string) : list string :=
  match s with
  | EmptyString => [cur]
  | String c r => if Ascii.eqb c "." then cur :: split_dot_go r ""
                  else split_dot_go r (cur +++ String c "")
  end.
Definition split_dot (s : string) : list string := split_dot_go s "".
Definition root_of (q : string) : string := match split_dot q with x :: _ => x | [] => q end.

(* decimal rendering of a small natural number *)
Fixpoint dec_go (fuel n : nat) (acc : string) : string :=
  match fuel with
  | O => acc
  | S f => let acc' := String (ascii_of_nat (48 + n mod 10)) acc in
           if n / 10 =? 0 then acc' else dec_go f (n / 10) acc'
  end.
Definition dec (n : nat) : string := dec_go (S n) n "".

(* monkeytype.util.pascal_case: re.split on every non-alphanumeric character, capitalise the first
   character of each alphanumeric run, drop the separators *)
Fixpoint pascal_go (s : string) (start : bool) : string :=
  match s with
  | EmptyString => ""
  | String c r => if is_alnum c then String (if start then to_upper c else c) (pascal_go r false)
                  else pascal_go r true
  end.
Definition pascal_case (s : string) : string := pascal_go s true.

(* stable insertion sort by a string key (Python's sorted(..., key=...)) *)
Fixpoint insert_by {A} (key : A -> string) (x : A) (l : list A) : list A :=
  match l with
  | [] => [x]
  | y :: r => if String.ltb (key x) (key y) then x :: y :: r else y :: insert_by key x r
  end.
Definition sort_by {A} (key : A -> string) (l : list A) : list A :=
  fold_left (fun acc x => insert_by key x acc) l [].

Fixpoint all_some {A} (l : list (option A)) : option (list A) :=
  match l with
  | [] => Some []
  | None :: _ => None
  | Some x :: r => match all_some r with Some r' => Some (x :: r') | None => None end
  end.

Fixpoint lookup_s {A} (k : string) (l : list (string * A)) : option A :=
  match l with
  | [] => None
  | (k', v) :: r => if String.eqb k k' then Some v else lookup_s k r
  end.

Definition mem_s (k : string) (l : list string) : bool := existsb (String.eqb k) l.

(* ------------------------------------------------------------------------------------------ *)
(* class table: cls -> (module, qualname), emitted by the harness                              *)
(* ------------------------------------------------------------------------------------------ *)
Definition ctable := list (cls * (string * string)).

Fixpoint cfind (ct : ctable) (c : cls) : option (string * string) :=
  match ct with
  | [] => None
  | (c', i) :: r => if N.eqb c c' then Some i else cfind r c
  end.

Fixpoint cfind_name (ct : ctable) (m q : string) : option cls :=
  match ct with
  | [] => None
  | (c, (m', q')) :: r => if String.eqb m m' && String.eqb q q' then Some c else cfind_name r m q
  end.

Definition dummy_td_name : string :=
  match lookup_s "DUMMY_TYPED_DICT_NAME" dummy_names with Some n => n | None => "?no-dummy-name" end.
(* make_typed_dict lives in monkeytype/typing.py and mypy_extensions takes __module__ from the caller *)
Definition td_module : string := "monkeytype.typing".

Definition is_none_ty (t : ty) : bool := match t with TCls c => N.eqb c cNone | _ => false end.
Definition tnone : ty := TCls cNone.

Section Render.
Variable ct : ctable.

Definition cmod (c : cls) : string := match cfind ct c with Some (m, _) => m | None => "?nomodule" end.
Definition cqual (c : cls) : string := match cfind ct c with Some (_, q) => q | None => "?noclass" end.

(* typing._type_repr of a class == RenderAnnotation.generic_rewrite of a class *)
Definition cls_text (c : cls) : string :=
  if String.eqb (cmod c) "builtins" then cqual c else cmod c +++ "." +++ cqual c.

(* ---- the `repr` route: repr() of a typing object (CPython 3.12 typing.py) ---- *)
Fixpoint repr_ty (t : ty) : string :=
  match t with
  | TAny => "typing.Any"
  | TCls c => cls_text c
  | TType x => "typing.Type[" +++ repr_ty x +++ "]"
  | TCallable => "typing.Callable"
  | TList x => "typing.List[" +++ repr_ty x +++ "]"
  | TSet x => "typing.Set[" +++ repr_ty x +++ "]"
  | TIterator x => "typing.Iterator[" +++ repr_ty x +++ "]"
  | TDict k v => "typing.Dict[" +++ repr_ty k +++ ", " +++ repr_ty v +++ "]"
  | TDefaultDict k v => "typing.DefaultDict[" +++ repr_ty k +++ ", " +++ repr_ty v +++ "]"
  | TTuple ts => match ts with
                 | [] => "typing.Tuple[()]"
                 | _ => "typing.Tuple[" +++ join ", " (map repr_ty ts) +++ "]"
                 end
  | TTupleVar x => "typing.Tuple[" +++ repr_ty x +++ ", ...]"
  | TGenerator y s r =>
      "typing.Generator[" +++ repr_ty y +++ ", " +++ repr_ty s +++ ", " +++ repr_ty r +++ "]"
  | TUnion ts =>
      let plain := "typing.Union[" +++ join ", " (map repr_ty ts) +++ "]" in
      match ts with
      | [a; b] => if is_none_ty a then "typing.Optional[" +++ repr_ty b +++ "]"
                  else if is_none_ty b then "typing.Optional[" +++ repr_ty a +++ "]"
                  else plain
      | _ => plain
      end
  | TTypedDict _ _ => td_module +++ "." +++ dummy_td_name
  | TFwd n => "ForwardRef('" +++ n +++ "')"
  end.

(* RenderAnnotation.rewrite's two global substitutions; typing_mod: typ.__module__ == "typing" *)
Definition post (typing_mod : bool) (s : string) : string :=
  replace "NoneType" "None" (if typing_mod then replace "typing." "" s else s).

(* RenderAnnotation raises on a TypedDict it is asked to render directly *)
Definition raise_marker : string := "?raise:TypedDict-in-RenderAnnotation".

(* ---- render_annotation ---- *)
Fixpoint ra (t : ty) : string :=
  match t with
  | TAny => post true "typing.Any"
  | TCls c => post false (if N.eqb c cNone then "None" else cls_text c)
  | TFwd n => post true ("'" +++ n +++ "'")
  | TCallable => post true "typing.Callable"
  | TType _ | TIterator _ | TDefaultDict _ _ => post true (repr_ty t)          (* not descended *)
  | TTypedDict _ _ => raise_marker
  | TList x => post true ("typing.List[" +++ ra x +++ "]")
  | TSet x => post true ("typing.Set[" +++ ra x +++ "]")
  | TDict k v => post true ("typing.Dict[" +++ ra k +++ ", " +++ ra v +++ "]")
  | TTuple ts => match ts with
                 | [] => post true "typing.Tuple[()]"
                 | _ => post true ("typing.Tuple[" +++ join ", " (map ra ts) +++ "]")
                 end
  | TTupleVar x => post true ("typing.Tuple[" +++ ra x +++ ", Ellipsis]")
  | TGenerator y s r =>
      post true ("typing.Generator[" +++ ra y +++ ", " +++ ra s +++ ", " +++ ra r +++ "]")
  | TUnion ts =>
      if existsb is_none_ty ts then
        let others := map snd (filter (fun p => negb (fst p)) (map (fun x => (is_none_ty x, ra x)) ts)) in
        post true ("Optional[" +++
                   match others with
                   | [x] => x
                   | _ => post true ("typing.Union[" +++ join ", " others +++ "]")
                   end +++ "]")
      else post true ("typing.Union[" +++ join ", " (map ra ts) +++ "]")
  end.

(* does rendering reach a TypedDict through descended positions (=> the real code raises)? *)
Fixpoint ra_raises (t : ty) : bool :=
  match t with
  | TTypedDict _ _ => true
  | TList x | TSet x | TTupleVar x => ra_raises x
  | TDict k v => ra_raises k || ra_raises v
  | TTuple ts | TUnion ts => existsb ra_raises ts
  | TGenerator a b c => ra_raises a || ra_raises b || ra_raises c
  | _ => false
  end.

(* ------------------------------------------------------------------------------------------ *)
(* imports                                                                                     *)
(* ------------------------------------------------------------------------------------------ *)
Definition imap := list (string * list string).     (* insertion ordered; name lists are sets *)

Fixpoint imap_add (m n : string) (im : imap) : imap :=
  match im with
  | [] => [(m, [n])]
  | (m', ns) :: r => if String.eqb m m' then (m', if mem_s n ns then ns else ns ++ [n]) :: r
                     else (m', ns) :: imap_add m n r
  end.
Definition imap_merge (a b : imap) : imap :=
  fold_left (fun acc mn => fold_left (fun acc' n => imap_add (fst mn) n acc') (snd mn) acc) b a.
Definition imap_remove (m : string) (im : imap) : imap :=
  filter (fun mn => negb (String.eqb (fst mn) m)) im.

(* get_imports_for_annotation, accumulator style (imports.merge(elem_imports) in traversal order) *)
Fixpoint imps (t : ty) (acc : imap) : imap :=
  let imps_list := fix go (l : list ty) (acc : imap) : imap :=
      match l with [] => acc | x :: r => go r (imps x acc) end in
  match t with
  | TAny => imap_add "typing" "Any" acc
  | TCls c => if String.eqb (cmod c) "builtins" then acc else imap_add (cmod c) (root_of (cqual c)) acc
  | TFwd _ => acc
  | TTypedDict _ _ => imap_add td_module dummy_td_name acc
  | TCallable => imap_add "typing" "Callable" acc
  | TType x => imps x (imap_add "typing" "Type" acc)
  | TList x => imps x (imap_add "typing" "List" acc)
  | TSet x => imps x (imap_add "typing" "Set" acc)
  | TIterator x => imps x (imap_add "typing" "Iterator" acc)
  | TTupleVar x => imps x (imap_add "typing" "Tuple" acc)
  | TDict k v => imps v (imps k (imap_add "typing" "Dict" acc))
  | TDefaultDict k v => imps v (imps k (imap_add "typing" "DefaultDict" acc))
  | TTuple ts => imps_list ts (imap_add "typing" "Tuple" acc)
  | TGenerator a b c => imps c (imps b (imps a (imap_add "typing" "Generator" acc)))
  | TUnion ts =>
      if existsb is_none_ty ts then
        let acc1 := imap_add "typing" "Optional" acc in
        let others := filter (fun x => negb (is_none_ty x)) ts in
        match others with
        | [_] => (fix go (l : list ty) (acc : imap) : imap :=
                    match l with [] => acc
                               | x :: r => go r (if is_none_ty x then acc else imps x acc) end) ts acc1
        | _ => (fix go (l : list ty) (acc : imap) : imap :=
                    match l with [] => acc
                               | x :: r => go r (if is_none_ty x then acc else imps x acc) end)
                 ts (imap_add "typing" "Union" acc1)
        end
      else imps_list ts (imap_add "typing" "Union" acc)
  end.

Definition is_optional (t : ty) : bool :=
  match t with TUnion ts => existsb is_none_ty ts | _ => false end.

(* a parameter after update_signature_*: name, annotation, default (0 none, 1 None, 2 other) *)
Definition param := (string * option ty * nat)%type.

Definition imps_sig (ps : list param) (ret : option ty) : imap :=
  let acc :=
    fold_left (fun acc (p : param) =>
                 let '(_, a, d) := p in
                 let opt := match a with Some t => is_optional t | None => false end in
                 let acc1 := if negb opt && Nat.eqb d 1 then imap_add "typing" "Optional" acc else acc in
                 match a with Some t => imps t acc1 | None => acc1 end) ps [] in
  match ret with Some t => imps t acc | None => acc end.

(* ImportBlockStub.render *)
Definition render_import (mn : string * list string) : string :=
  let m := if String.eqb (fst mn) "_io" then "io" else fst mn in
  match sort_by (fun x => x) (snd mn) with
  | [n] => "from " +++ m +++ " import " +++ n
  | ns => "from " +++ m +++ " import (" +++ String "010" "" +++
          join (String "010" "") (map (fun n => "    " +++ n +++ ",") ns) +++ String "010" "" +++ ")"
  end.
Definition render_imports (im : imap) : string :=
  join (String "010" "") (map render_import (sort_by fst im)).

(* ------------------------------------------------------------------------------------------ *)
(* module-prefix stripping                                                                     *)
(* ------------------------------------------------------------------------------------------ *)
(* today's code: for module in strip_modules: s = s.replace(module + ".", "") *)
Definition strip_mods_old (mods : list string) (s : string) : string :=
  fold_left (fun s m => replace (m +++ ".") "" s) mods s.

(* repaired: longest module whose `m.` starts here *)
Definition best_match (mods : list string) (s : string) : option nat :=
  fold_left (fun best m =>
               if prefixb (m +++ ".") s then
                 let n := S (String.length m) in
                 match best with Some b => if b <? n then Some n else best | None => Some n end
               else best) mods None.

Fixpoint strip_go (mods : list string) (skip : nat) (prev_word : bool) (s : string) : string :=
  match s with
  | EmptyString => ""
  | String c r =>
      let pw := is_ident_char c || Ascii.eqb c "." in
      match skip with
      | S k => strip_go mods k pw r
      | O => match (if prev_word then None else best_match mods s) with
             | Some (S k) => strip_go mods k pw r
             | _ => String c (strip_go mods 0 pw r)
             end
      end
  end.
Definition strip_mods (mods : list string) (s : string) : string := strip_go mods 0 false s.

(* ------------------------------------------------------------------------------------------ *)
(* ReplaceTypedDictsWithStubs                                                                  *)
(* ------------------------------------------------------------------------------------------ *)
(* a generated class stub: class name, base class name, total flag, attribute stubs *)
Record cstub := { cs_name : string; cs_base : string; cs_total : bool; cs_attrs : list (string * ty) }.

Definition cs_header (s : cstub) : string :=
  cs_name s +++ "(" +++ cs_base s +++ (if cs_total s then "" else ", total=False") +++ ")".

Definition td_class_name (hint : string) : string := pascal_case hint +++ "TypedDict__RENAME_ME__".
Definition hint_at (hint : string) (i : nat) : string := if i =? 0 then hint else hint +++ dec (S i).
Definition raise_empty_td : string := "?raise:empty-TypedDict".

Fixpoint rtd (t : ty) (hint : string) {struct t} : ty * list cstub :=
  let go := fix go (l : list ty) (i : nat) : list ty * list cstub :=
      match l with
      | [] => ([], [])
      | x :: r => let '(x', s) := rtd x (hint_at hint i) in
                  let '(r', s') := go r (S i) in (x' :: r', s ++ s')
      end in
  let gof := fix gof (l : list (string * ty)) : list (string * ty) * list cstub :=
      match l with
      | [] => ([], [])
      | f :: r => let '(x', s) := rtd (snd f) (fst f) in
                  let '(r', s') := gof r in ((fst f, x') :: r', s ++ s')
      end in
  match t with
  | TList x => let '(x', s) := rtd x hint in (TList x', s)
  | TSet x => let '(x', s) := rtd x hint in (TSet x', s)
  | TTupleVar x => let '(x', s) := rtd x hint in (TTupleVar x', s)
  | TDict k v => let '(k', s1) := rtd k hint in
                 let '(v', s2) := rtd v (hint_at hint 1) in (TDict k' v', s1 ++ s2)
  | TGenerator a b c => let '(a', s1) := rtd a hint in
                        let '(b', s2) := rtd b (hint_at hint 1) in
                        let '(c', s3) := rtd c (hint_at hint 2) in (TGenerator a' b' c', s1 ++ s2 ++ s3)
  | TTuple ts => let '(ts', s) := go ts 0 in (TTuple ts', s)
  | TUnion ts => let '(ts', s) := go ts 0 in (union_mk ts', s)
  | TTypedDict req opt =>
      let cname := td_class_name hint in
      let '(req', sr) := gof req in
      let '(opt', so) := gof opt in
      match req, opt with
      | [], [] => (TFwd raise_empty_td, [])
      | _ :: _, [] => (TFwd cname, sr ++ [Build_cstub cname "TypedDict" true req'])
      | [], _ :: _ => (TFwd cname, so ++ [Build_cstub cname "TypedDict" false opt'])
      | _ :: _, _ :: _ =>
          (TFwd (cname +++ "NonTotal"),
           sr ++ [Build_cstub cname "TypedDict" true req']
              ++ so ++ [Build_cstub (cname +++ "NonTotal") cname false opt'])
      end
  | _ => (t, [])
  end.

(* the real rewriter raises on a field-less TypedDict at a position it descends to *)
Fixpoint rtd_raises (t : ty) : bool :=
  match t with
  | TTypedDict req opt =>
      match req, opt with
      | [], [] => true
      | _, _ => existsb (fun f => rtd_raises (snd f)) req || existsb (fun f => rtd_raises (snd f)) opt
      end
  | TList x | TSet x | TTupleVar x => rtd_raises x
  | TDict k v => rtd_raises k || rtd_raises v
  | TTuple ts | TUnion ts => existsb rtd_raises ts
  | TGenerator a b c => rtd_raises a || rtd_raises b || rtd_raises c
  | _ => false
  end.

(* ClassStub.render of a generated TypedDict class: attribute stubs sorted by name, no prefix stripping *)
Definition nl : string := String "010" "".
Definition render_cstub (s : cstub) : string :=
  join nl (("class " +++ cs_header s +++ ":") ::
           map (fun f => "    " +++ fst f +++ ": " +++ ra (snd f)) (sort_by fst (cs_attrs s))).

(* ------------------------------------------------------------------------------------------ *)
(* function definitions -> stubs                                                               *)
(* ------------------------------------------------------------------------------------------ *)
Record fdef := {
  fd_path : list string;               (* enclosing class path, [] at module level *)
  fd_name : string;
  fd_self : bool;                      (* FunctionDefinition.has_self *)
  fd_params : list (string * nat);     (* the live signature: name, default kind (0 none, 1 None, 2 other) *)
  fd_args : list (string * ty);        (* traced argument types, dict order *)
  fd_ret : option ty;
  fd_yield : option ty }.

Definition fd_key (f : fdef) : string := join "." (fd_path f ++ [fd_name f]).

(* FunctionDefinition.from_callable_and_traced_types with ExistingAnnotationStrategy.IGNORE on a source
   function without annotations: replaced argument types, return annotation, generated class stubs *)
Definition ret_anno (ret yld : option ty) : option ty :=
  match yld, ret with
  | Some y, None => Some (TIterator y)
  | Some y, Some r => if is_none_ty r then Some (TIterator y) else Some (TGenerator y tnone r)
  | None, Some r => Some r
  | None, None => None
  end.

Definition fd_replaced (f : fdef) : list (string * ty) * option ty * option ty * list cstub :=
  let '(args', sa) :=
    fold_left (fun acc (a : string * ty) =>
                 let '(t', s) := rtd (snd a) (fst a) in (fst acc ++ [(fst a, t')], snd acc ++ s))
              (fd_args f) ([], []) in
  let qhint := join "_" (fd_path f ++ [fd_name f]) in
  let '(ret', sr) := match fd_ret f with
                     | Some r => let '(r', s) := rtd r qhint in (Some r', s)
                     | None => (None, []) end in
  let '(yld', sy) := match fd_yield f with
                     | Some y => let '(y', s) := rtd y (qhint +++ "Yield") in (Some y', s)
                     | None => (None, []) end in
  (args', ret', yld', sa ++ sr ++ sy).

Fixpoint sig_params (self : bool) (ps : list (string * nat)) (args : list (string * ty)) : list param :=
  match ps with
  | [] => []
  | (n, d) :: r => (n, if self then None else lookup_s n args, d) :: sig_params false r args
  end.

(* render_parameter: Optional[...] for a `None` default *)
Definition shown_anno (a : ty) (d : nat) : ty :=
  if negb (is_optional a) && Nat.eqb d 1 then union_mk [a; tnone] else a.

Definition render_param (p : param) : string :=
  let '(n, a, d) := p in
  let s := match a with Some t => n +++ ": " +++ ra (shown_anno t d) | None => n end in
  if Nat.eqb d 0 then s else s +++ " = ...".

(* render_signature(sig, max_line_len, prefix) for positional-or-keyword parameters *)
Definition render_sig (ps : list param) (ret : option ty) (max_len : nat) (prefix : string) : string :=
  let fps := map render_param ps in
  let rr := match ret with Some t => " -> " +++ ra t | None => "" end in
  let single := "(" +++ join ", " fps +++ ")" +++ rr in
  if String.length single <=? max_len then single
  else
    let n := List.length fps in
    let lines := (fix go (l : list string) (i : nat) : list string :=
                    match l with
                    | [] => []
                    | x :: r => (prefix +++ "    " +++ x +++ (if S i =? n then "" else ",")) :: go r (S i)
                    end) fps 0 in
    join nl ("(" :: lines ++ [prefix +++ ")" +++ rr]).

(* FunctionStub.render for kinds MODULE / INSTANCE (no decorator), not async *)
Definition render_fstub_with (strip : list string -> string -> string)
           (name : string) (ps : list param) (ret : option ty) (mods : list string) (prefix : string) : string :=
  let s := prefix +++ "def " +++ name in
  strip mods (s +++ render_sig ps ret (120 - String.length s) prefix +++ ": ...").

(* one entry of build_module_stubs *)
Record fstub := { fs_path : list string; fs_name : string; fs_params : list param; fs_ret : option ty;
                  fs_mods : list string; fs_imports : imap; fs_cstubs : list cstub }.

Definition build_fstub (f : fdef) : fstub :=
  let '(args', ret', yld', cs) := fd_replaced f in
  let ps := sig_params (fd_self f) (fd_params f) args' in
  let ret := ret_anno ret' yld' in
  let im := imps_sig ps ret in
  let im := match cs with [] => im | _ => imap_add "mypy_extensions" "TypedDict" im end in
  {| fs_path := fd_path f; fs_name := fd_name f; fs_params := ps; fs_ret := ret;
     fs_mods := map fst im; fs_imports := im; fs_cstubs := cs |}.

Section Module.
Variable strip : list string -> string -> string.
Variable own : string.                (* the target module *)

Definition module_imports (fs : list fstub) : imap :=
  fold_left (fun acc f => imap_merge acc (imap_remove own (fs_imports f))) fs [].

Definition render_fs (prefix : string) (f : fstub) : string :=
  render_fstub_with strip (fs_name f) (fs_params f) (fs_ret f) (fs_mods f) prefix.

(* class stubs of the target module's own classes, keyed by the dotted class path, in first-seen order *)
Fixpoint class_keys (fs : list fstub) (seen : list string) : list string :=
  match fs with
  | [] => []
  | f :: r => match fs_path f with
              | [] => class_keys r seen
              | p => let k := join "." p in
                     if mem_s k seen then class_keys r seen else k :: class_keys r (k :: seen)
              end
  end.

Definition render_class (fs : list fstub) (k : string) : string :=
  join nl (("class " +++ k +++ ":") ::
           map (render_fs "    ")
               (sort_by fs_name (filter (fun f => match fs_path f with [] => false
                                                  | p => String.eqb (join "." p) k end) fs))).

(* ModuleStub.render *)
Definition render_module_fs (fs : list fstub) : string :=
  let im := module_imports fs in
  let parts :=
    (match im with [] => [] | _ => [render_imports im] end)
    ++ map render_cstub (sort_by cs_header (flat_map fs_cstubs fs))
    ++ map (render_fs "") (sort_by fs_name (filter (fun f => match fs_path f with [] => true | _ => false end) fs))
    ++ map (render_class fs) (sort_by (fun k => k) (class_keys fs [])) in
  join (nl +++ nl +++ nl) parts.
End Module.

Definition render_module (own : string) (fds : list fdef) : string :=
  render_module_fs strip_mods own (map build_fstub fds).
Definition render_module_old (own : string) (fds : list fdef) : string :=
  render_module_fs strip_mods_old own (map build_fstub fds).

(* ------------------------------------------------------------------------------------------ *)
(* annotation text -> tokens -> expression -> type                                             *)
(* ------------------------------------------------------------------------------------------ *)
Inductive tok := TkName (s : string) | TkStr (s : string) | TkLB | TkRB | TkLP | TkRP | TkComma | TkDot | TkEll.

Definition flush (cur : string) (k : option (list tok)) : option (list tok) :=
  match cur with EmptyString => k | _ => option_map (cons (TkName cur)) k end.

Fixpoint tokenize (s cur : string) (instr : bool) {struct s} : option (list tok) :=
  match s with
  | EmptyString => if instr then None else flush cur (Some [])
  | String c r =>
      if instr then
        if Ascii.eqb c "'" then option_map (cons (TkStr cur)) (tokenize r "" false)
        else tokenize r (cur +++ String c "") true
      else if is_alnum c || Ascii.eqb c "_" then tokenize r (cur +++ String c "") false
      else if Ascii.eqb c "'" then
             match cur with EmptyString => tokenize r "" true | _ => None end
      else if Ascii.eqb c " " then flush cur (tokenize r "" false)
      else if Ascii.eqb c "[" then flush cur (option_map (cons TkLB) (tokenize r "" false))
      else if Ascii.eqb c "]" then flush cur (option_map (cons TkRB) (tokenize r "" false))
      else if Ascii.eqb c "(" then flush cur (option_map (cons TkLP) (tokenize r "" false))
      else if Ascii.eqb c ")" then flush cur (option_map (cons TkRP) (tokenize r "" false))
      else if Ascii.eqb c "," then flush cur (option_map (cons TkComma) (tokenize r "" false))
      else if Ascii.eqb c "." then
             match r with
             | String c1 (String c2 r2) =>
                 if Ascii.eqb c1 "." && Ascii.eqb c2 "."
                 then flush cur (option_map (cons TkEll) (tokenize r2 "" false))
                 else flush cur (option_map (cons TkDot) (tokenize r "" false))
             | _ => flush cur (option_map (cons TkDot) (tokenize r "" false))
             end
      else None
  end.

Inductive aexpr :=
| AName (p : list string)                  (* dotted name *)
| AStr (s : string)                        (* quoted forward reference *)
| AEmpty                                   (* () *)
| AEll                                     (* ... *)
| ASub (p : list string) (args : list aexpr).

Fixpoint parse_path (ts : list tok) (acc : list string) : list string * list tok :=
  match ts with
  | TkDot :: TkName n :: r => parse_path r (acc ++ [n])
  | _ => (acc, ts)
  end.

Fixpoint parse_e (fuel : nat) (ts : list tok) : option (aexpr * list tok) :=
  match fuel with
  | O => None
  | S f =>
      match ts with
      | TkStr s :: r => Some (AStr s, r)
      | TkEll :: r => Some (AEll, r)
      | TkLP :: TkRP :: r => Some (AEmpty, r)
      | TkName n :: r =>
          let '(p, r1) := parse_path r [n] in
          match r1 with
          | TkLB :: r2 => match parse_args f r2 with
                          | Some (args, r3) => Some (ASub p args, r3)
                          | None => None end
          | _ => Some (AName p, r1)
          end
      | _ => None
      end
  end
with parse_args (fuel : nat) (ts : list tok) : option (list aexpr * list tok) :=
  match fuel with
  | O => None
  | S f =>
      match parse_e f ts with
      | Some (e, TkComma :: r) => match parse_args f r with
                                  | Some (es, r') => Some (e :: es, r')
                                  | None => None end
      | Some (e, TkRB :: r) => Some ([e], r)
      | _ => None
      end
  end.

Definition parse_anno (s : string) : option aexpr :=
  match tokenize s "" false with
  | Some ts => match parse_e (2 * List.length ts + 2) ts with
               | Some (e, []) => Some e
               | _ => None end
  | None => None
  end.

(* what a name can be bound to in the namespace of a stub *)
Inductive nsval :=
| NsCls (c : cls)
| NsTyp (name : string)                    (* `from typing import name` *)
| NsNone | NsEllipsis                      (* builtins *)
| NsTDBase                                 (* mypy_extensions.TypedDict *)
| NsTD (base : string) (total : bool) (fields : list (string * string)).   (* a generated class stub *)
Definition namespace := list (string * nsval).     (* first binding wins *)

Fixpoint resolve_attrs (v : nsval) (attrs : list string) : option nsval :=
  match attrs with
  | [] => Some v
  | a :: r => match v with
              | NsCls c => match cfind ct c with
                           | Some (m, q) => match cfind_name ct m (q +++ "." +++ a) with
                                            | Some c' => resolve_attrs (NsCls c') r
                                            | None => None end
                           | None => None end
              | _ => None
              end
  end.
Definition resolve_path (ns : namespace) (p : list string) : option nsval :=
  match p with
  | [] => None
  | n :: attrs => match lookup_s n ns with Some v => resolve_attrs v attrs | None => None end
  end.

Definition is_ellipsis_arg (ns : namespace) (e : aexpr) : bool :=
  match e with
  | AEll => true
  | AName p => match resolve_path ns p with Some NsEllipsis => true | _ => false end
  | _ => false
  end.

(* evaluation as Python does it: typing's constructors normalise unions; forward references stay *)
Fixpoint ev (ns : namespace) (e : aexpr) : option ty :=
  match e with
  | AName p => match resolve_path ns p with
               | Some (NsCls c) => Some (TCls c)
               | Some NsNone => Some tnone
               | Some (NsTyp k) => if String.eqb k "Any" then Some TAny
                                   else if String.eqb k "Callable" then Some TCallable else None
               | _ => None
               end
  | AStr s => Some (TFwd s)
  | AEmpty | AEll => None
  | ASub p args =>
      match resolve_path ns p with
      | Some (NsTyp k) =>
          if String.eqb k "Tuple" then
            match args with
            | [AEmpty] => Some (TTuple [])
            | [x; y] => if is_ellipsis_arg ns y then option_map TTupleVar (ev ns x)
                        else option_map TTuple (all_some (map (ev ns) args))
            | _ => option_map TTuple (all_some (map (ev ns) args))
            end
          else
            match all_some (map (ev ns) args) with
            | None => None
            | Some vs =>
                if String.eqb k "Union" then match vs with [] => None | _ => Some (union_mk vs) end
                else match vs with
                | [x] => if String.eqb k "List" then Some (TList x)
                         else if String.eqb k "Set" then Some (TSet x)
                         else if String.eqb k "Iterator" then Some (TIterator x)
                         else if String.eqb k "Type" then Some (TType x)
                         else if String.eqb k "Optional" then Some (union_mk [x; tnone])
                         else None
                | [x; y] => if String.eqb k "Dict" then Some (TDict x y)
                            else if String.eqb k "DefaultDict" then Some (TDefaultDict x y)
                            else None
                | [x; y; z] => if String.eqb k "Generator" then Some (TGenerator x y z) else None
                | _ => None
                end
            end
      | _ => None
      end
  end.

Definition eval_text (ns : namespace) (s : string) : option ty :=
  match parse_anno s with Some e => ev ns e | None => None end.

(* resolving forward references through the generated class stubs; fuel bounds the nesting of class
   stubs (None when exhausted) *)
Fixpoint resolve (ns : namespace) (fuel : nat) : ty -> option ty :=
  match fuel with
  | O => fun _ => None
  | S f =>
      let fields := fun (fs : list (string * string)) =>
        all_some (map (fun ft => match eval_text ns (snd ft) with
                                 | Some t => option_map (pair (fst ft)) (resolve ns f t)
                                 | None => None end) fs) in
      fix go (t : ty) : option ty :=
        match t with
        | TAny | TCls _ | TCallable => Some t
        | TType x => option_map TType (go x)
        | TList x => option_map TList (go x)
        | TSet x => option_map TSet (go x)
        | TIterator x => option_map TIterator (go x)
        | TTupleVar x => option_map TTupleVar (go x)
        | TDict k v => match go k, go v with Some k', Some v' => Some (TDict k' v') | _, _ => None end
        | TDefaultDict k v => match go k, go v with Some k', Some v' => Some (TDefaultDict k' v') | _, _ => None end
        | TTuple ts => option_map TTuple (all_some (map go ts))
        | TUnion ts => option_map TUnion (all_some (map go ts))
        | TGenerator a b c => match go a, go b, go c with
                              | Some a', Some b', Some c' => Some (TGenerator a' b' c') | _, _, _ => None end
        | TTypedDict _ _ => None
        | TFwd n =>
            match lookup_s n ns with
            | Some (NsTD base total fs) =>
                match lookup_s base ns with
                | Some NsTDBase =>
                    match fields fs with
                    | Some own => Some (if total then TTypedDict own [] else TTypedDict [] own)
                    | None => None end
                | Some (NsTD base2 true fs2) =>
                    match lookup_s base2 ns, total with
                    | Some NsTDBase, false =>
                        match fields fs2, fields fs with
                        | Some req, Some opt => Some (TTypedDict req opt)
                        | _, _ => None end
                    | _, _ => None end
                | _ => None
                end
            | _ => None
            end
        end
  end.

Definition eval_anno (ns : namespace) (fuel : nat) (s : string) : option ty :=
  match eval_text ns s with Some t => resolve ns fuel t | None => None end.

(* ---- the namespace a rendered module stub provides ---- *)
Definition typing_names : list string :=
  ["Any"; "Callable"; "DefaultDict"; "Dict"; "Generator"; "Iterator"; "List"; "Optional"; "Set"; "Tuple";
   "Type"; "Union"].

(* what `from m import n` binds (None: the import fails or binds something that is not a type) *)
Definition import_binding (m n : string) : option nsval :=
  if String.eqb m "typing" then (if mem_s n typing_names then Some (NsTyp n) else None)
  else if String.eqb m "mypy_extensions" && String.eqb n "TypedDict" then Some NsTDBase
  else match cfind_name ct m n with
       | Some c => Some (NsCls c)
       | None => if String.eqb m "io" then option_map NsCls (cfind_name ct "_io" n) else None
       end.

(* builtins: the classes of module `builtins` except NoneType (hidden), plus None and Ellipsis *)
Definition builtin_ns : namespace :=
  ("None", NsNone) :: ("Ellipsis", NsEllipsis) ::
  flat_map (fun e : cls * (string * string) =>
              let '(c, (m, q)) := e in
              if String.eqb m "builtins" && negb (N.eqb c cNone) then [(q, NsCls c)] else []) ct.

Definition own_ns (own : string) : namespace :=
  flat_map (fun e : cls * (string * string) =>
              let '(c, (m, q)) := e in
              if String.eqb m own && String.eqb (root_of q) q then [(q, NsCls c)] else []) ct.

(* import block in rendered (sorted) order; a later import of the same name shadows an earlier one *)
Definition imports_ns (im : imap) : namespace :=
  rev (flat_map (fun mn : string * list string =>
                   let m := if String.eqb (fst mn) "_io" then "io" else fst mn in
                   flat_map (fun n => match import_binding m n with Some v => [(n, v)] | None => [] end)
                            (sort_by (fun x => x) (snd mn)))
                (sort_by fst im)).

Definition cstubs_ns (cs : list cstub) : namespace :=
  rev (map (fun s => (cs_name s, NsTD (cs_base s) (cs_total s)
                                      (map (fun f => (fst f, ra (snd f))) (sort_by fst (cs_attrs s)))))
           (sort_by cs_header cs)).

(* own classes shadow generated classes shadow imports shadow builtins (the order in which the applied
   stub would bind them in the target module) *)
Definition stub_ns (own : string) (fs : list fstub) : namespace :=
  own_ns own ++ cstubs_ns (flat_map fs_cstubs fs) ++ imports_ns (module_imports own fs) ++ builtin_ns.

(* every import line of the block must bind *)
Definition imports_all_bind (im : imap) : bool :=
  forallb (fun mn : string * list string =>
             let m := if String.eqb (fst mn) "_io" then "io" else fst mn in
             forallb (fun n => match import_binding m n with Some _ => true | None => false end) (snd mn)) im.

(* ---- per-annotation view of a function stub: slot name, rendered text, denoted type expected ---- *)
Definition fs_annos (strip : list string -> string -> string) (f : fstub) : list (string * string) :=
  flat_map (fun p : param => let '(n, a, d) := p in
              match a with Some t => [(n, strip (fs_mods f) (ra (shown_anno t d)))] | None => [] end)
           (fs_params f)
  ++ match fs_ret f with Some t => [("return", strip (fs_mods f) (ra t))] | None => [] end.

(* the types the annotations are meant to denote: the traced types themselves (TypedDicts in place) *)
Definition fd_expected (f : fdef) : list (string * ty) :=
  flat_map (fun p : param => let '(n, a, d) := p in
              match a with Some t => [(n, shown_anno t d)] | None => [] end)
           (sig_params (fd_self f) (fd_params f) (fd_args f))
  ++ match ret_anno (fd_ret f) (fd_yield f) with Some t => [("return", t)] | None => [] end.

(* ------------------------------------------------------------------------------------------ *)
(* token-level rendering: the expression the annotation text is meant to be, names already       *)
(* relative to their import (`from m import Root` binds Root; nested classes are Root.Child)     *)
(* ------------------------------------------------------------------------------------------ *)
Definition cls_ast (c : cls) : aexpr :=
  if N.eqb c cNone then AName ["None"] else AName (split_dot (cqual c)).

(* repr route (below Type / Iterator / DefaultDict) *)
Fixpoint rast_r (t : ty) : aexpr :=
  match t with
  | TAny => AName ["Any"]
  | TCls c => cls_ast c
  | TCallable => AName ["Callable"]
  | TFwd n => AName ["ForwardRef"]                       (* ForwardRef('n'): never a valid annotation *)
  | TTypedDict _ _ => AName ["monkeytype"; dummy_td_name]
  | TType x => ASub ["Type"] [rast_r x]
  | TList x => ASub ["List"] [rast_r x]
  | TSet x => ASub ["Set"] [rast_r x]
  | TIterator x => ASub ["Iterator"] [rast_r x]
  | TDict k v => ASub ["Dict"] [rast_r k; rast_r v]
  | TDefaultDict k v => ASub ["DefaultDict"] [rast_r k; rast_r v]
  | TTuple ts => match ts with [] => ASub ["Tuple"] [AEmpty] | _ => ASub ["Tuple"] (map rast_r ts) end
  | TTupleVar x => ASub ["Tuple"] [rast_r x; AEll]
  | TGenerator a b c => ASub ["Generator"] [rast_r a; rast_r b; rast_r c]
  | TUnion ts =>
      match ts with
      | [a; b] => if is_none_ty a then ASub ["Optional"] [rast_r b]
                  else if is_none_ty b then ASub ["Optional"] [rast_r a]
                  else ASub ["Union"] (map rast_r ts)
      | _ => ASub ["Union"] (map rast_r ts)
      end
  end.

(* structural route *)
Fixpoint rast (t : ty) : aexpr :=
  match t with
  | TAny => AName ["Any"]
  | TCls c => cls_ast c
  | TCallable => AName ["Callable"]
  | TFwd n => AStr n
  | TTypedDict _ _ => AName ["?raise"]
  | TType _ | TIterator _ | TDefaultDict _ _ => rast_r t
  | TList x => ASub ["List"] [rast x]
  | TSet x => ASub ["Set"] [rast x]
  | TDict k v => ASub ["Dict"] [rast k; rast v]
  | TTuple ts => match ts with [] => ASub ["Tuple"] [AEmpty] | _ => ASub ["Tuple"] (map rast ts) end
  | TTupleVar x => ASub ["Tuple"] [rast x; AName ["Ellipsis"]]
  | TGenerator a b c => ASub ["Generator"] [rast a; rast b; rast c]
  | TUnion ts =>
      if existsb is_none_ty ts then
        let others := map snd (filter (fun p => negb (fst p)) (map (fun x => (is_none_ty x, rast x)) ts)) in
        ASub ["Optional"] [match others with [x] => x | _ => ASub ["Union"] others end]
      else ASub ["Union"] (map rast ts)
  end.

Fixpoint aexpr_eqb (a b : aexpr) : bool :=
  let fix leq (xs ys : list aexpr) : bool :=
      match xs, ys with
      | [], [] => true
      | x :: xs', y :: ys' => aexpr_eqb x y && leq xs' ys'
      | _, _ => false end in
  let seq := fix seq (xs ys : list string) : bool :=
      match xs, ys with
      | [], [] => true
      | x :: xs', y :: ys' => String.eqb x y && seq xs' ys'
      | _, _ => false end in
  match a, b with
  | AName p, AName q => seq p q
  | AStr s, AStr s' => String.eqb s s'
  | AEmpty, AEmpty => true
  | AEll, AEll => true
  | ASub p xs, ASub q ys => seq p q && leq xs ys
  | _, _ => false
  end.

(* strip_is_tokenwise: the stripped annotation text parses back to the token-level rendering *)
Definition tokenwise (mods : list string) (t : ty) : bool :=
  match parse_anno (strip_mods mods (ra t)) with
  | Some e => aexpr_eqb e (rast t)
  | None => false
  end.

End Render.
