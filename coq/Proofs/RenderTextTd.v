(* Proofs/RenderTextTd.v — td_stub_resolves for FLAT TypedDicts (C11).
   A TypedDict whose field types are `simple` (no TypedDict, no Union, no forward reference), lexically sane
   and built from builtin classes: ReplaceTypedDictsWithStubs replaces it by a forward reference and emits one
   or two class stubs; evaluating the forward reference in a namespace that binds the generated classes the way
   stub_ns does yields a TypedDict corrb-equal to the original (fields sorted by name).
   Nested TypedDicts and Union-typed fields are NOT covered here (see the report). *)
From MT Require Import Types Render TypesFacts RenderTok RenderTextStr RenderTextPx RenderText.
From MT Require SigUpdateSpec.
From Coq Require Import Lia Permutation.

Open Scope string_scope.
Open Scope nat_scope.
Open Scope list_scope.

Fixpoint simple (t : ty) : bool :=
  match t with
  | TAny | TCls _ | TCallable => true
  | TFwd _ | TTypedDict _ _ | TUnion _ => false
  | TType x | TList x | TSet x | TIterator x | TTupleVar x => simple x
  | TDict k v | TDefaultDict k v => simple k && simple v
  | TTuple ts => forallb simple ts
  | TGenerator a b c => simple a && simple b && simple c
  end.

Ltac split_hyps :=
  repeat match goal with H : _ && _ = true |- _ => apply andb_prop in H as [? ?] end.

Lemma simple_union_free : forall t, simple t = true -> union_free t = true.
Proof.
  induction t using ty_ind'; intros Hs; cbn [simple union_free] in *; try discriminate; try reflexivity; auto;
    split_hyps; repeat (apply andb_true_intro; split); auto.
  rewrite forallb_forall in *. rewrite Forall_forall in H. auto.
Qed.

(* ReplaceTypedDictsWithStubs leaves a simple type alone *)
Lemma rtd_simple : forall t, simple t = true -> forall hint, rtd t hint = (t, []).
Proof.
  induction t using ty_ind'; intros Hs hint; cbn [simple] in Hs; try discriminate; try reflexivity; split_hyps.
  - cbn [rtd]. rewrite IHt by assumption. reflexivity.
  - cbn [rtd]. rewrite IHt by assumption. reflexivity.
  - cbn [rtd]. rewrite IHt1, IHt2 by assumption. reflexivity.
  - cbn [rtd].
    match goal with |- (let '(ts', s) := ?G ts 0 in _) = _ =>
      assert (E : forall i, G ts i = (ts, [])) end.
    { pose proof (Forall_mp _ _ _ H Hs) as HF. clear H Hs.
      induction HF as [|x l Hx _ IHl]; intros i; [reflexivity|].
      rewrite Hx. rewrite IHl. reflexivity. }
    rewrite E. reflexivity.
  - cbn [rtd]. rewrite IHt by assumption. reflexivity.
  - cbn [rtd]. rewrite IHt1, IHt2, IHt3 by assumption. reflexivity.
Qed.

Lemma resolve_simple ct ns f : forall t, simple t = true -> resolve ct ns (S f) t = Some t.
Proof.
  induction t using ty_ind'; intros Hs; cbn [simple] in Hs; try discriminate; try reflexivity; split_hyps.
  - change (resolve ct ns (S f) (TType t)) with (option_map TType (resolve ct ns (S f) t)).
    rewrite IHt by assumption. reflexivity.
  - change (resolve ct ns (S f) (TList t)) with (option_map TList (resolve ct ns (S f) t)).
    rewrite IHt by assumption. reflexivity.
  - change (resolve ct ns (S f) (TSet t)) with (option_map TSet (resolve ct ns (S f) t)).
    rewrite IHt by assumption. reflexivity.
  - change (resolve ct ns (S f) (TIterator t)) with (option_map TIterator (resolve ct ns (S f) t)).
    rewrite IHt by assumption. reflexivity.
  - change (resolve ct ns (S f) (TDict t1 t2))
      with (match resolve ct ns (S f) t1, resolve ct ns (S f) t2 with
            | Some k', Some v' => Some (TDict k' v') | _, _ => None end).
    rewrite IHt1, IHt2 by assumption. reflexivity.
  - change (resolve ct ns (S f) (TDefaultDict t1 t2))
      with (match resolve ct ns (S f) t1, resolve ct ns (S f) t2 with
            | Some k', Some v' => Some (TDefaultDict k' v') | _, _ => None end).
    rewrite IHt1, IHt2 by assumption. reflexivity.
  - change (resolve ct ns (S f) (TTuple ts))
      with (option_map TTuple (all_some (map (resolve ct ns (S f)) ts))).
    rewrite (all_some_map _ (fun x => x)); [rewrite map_id; reflexivity|].
    exact (Forall_mp _ _ _ H Hs).
  - change (resolve ct ns (S f) (TTupleVar t)) with (option_map TTupleVar (resolve ct ns (S f) t)).
    rewrite IHt by assumption. reflexivity.
  - change (resolve ct ns (S f) (TGenerator t1 t2 t3))
      with (match resolve ct ns (S f) t1, resolve ct ns (S f) t2, resolve ct ns (S f) t3 with
            | Some a', Some b', Some c' => Some (TGenerator a' b' c') | _, _, _ => None end).
    rewrite IHt1, IHt2, IHt3 by assumption. reflexivity.
Qed.

(* ---- sort_by is a permutation ---- *)
Lemma insert_by_perm {A} (key : A -> string) x l : Permutation (insert_by key x l) (x :: l).
Proof.
  induction l as [|y l IH]; cbn [insert_by]; [reflexivity|].
  destruct (String.ltb (key x) (key y)); [reflexivity|]. rewrite IH. apply perm_swap.
Qed.

Lemma sort_by_perm {A} (key : A -> string) l : Permutation (sort_by key l) l.
Proof.
  unfold sort_by.
  assert (G : forall acc, Permutation (fold_left (fun acc x => insert_by key x acc) l acc) (l ++ acc)).
  { induction l as [|x l IH]; intros acc; cbn [fold_left app]; [reflexivity|].
    rewrite IH, insert_by_perm. symmetry. apply Permutation_middle. }
  rewrite G, app_nil_r. reflexivity.
Qed.

(* ---- rtd on a flat TypedDict ---- *)
Lemma rtd_td_flat req opt hint :
  Forall (fun a => simple (snd a) = true) req -> Forall (fun a => simple (snd a) = true) opt ->
  rtd (TTypedDict req opt) hint =
  let cname := td_class_name hint in
  match req, opt with
  | [], [] => (TFwd raise_empty_td, [])
  | _ :: _, [] => (TFwd cname, [Build_cstub cname "TypedDict" true req])
  | [], _ :: _ => (TFwd cname, [Build_cstub cname "TypedDict" false opt])
  | _ :: _, _ :: _ =>
      (TFwd (cname +++ "NonTotal"),
       [Build_cstub cname "TypedDict" true req; Build_cstub (cname +++ "NonTotal") cname false opt])
  end.
Proof.
  intros Hr Ho. cbn [rtd].
  match goal with |- (let '(_, _) := ?G req in _) = _ =>
    assert (E : forall l, Forall (fun a => simple (snd a) = true) l -> G l = (l, [])) end.
  { induction 1 as [|[k x] l Hx _ IHl]; [reflexivity|]. cbn [fst snd] in *.
    rewrite (rtd_simple x Hx). rewrite IHl. reflexivity. }
  rewrite (E req Hr), (E opt Ho). destruct req, opt; reflexivity.
Qed.

(* ---- evaluating the class stubs ---- *)
Definition fields_res (ct : ctable) (ns : namespace) (f : nat) (fs : list (string * string))
  : option (list (string * ty)) :=
  all_some (map (fun ft => match eval_text ct ns (snd ft) with
                           | Some t => option_map (pair (fst ft)) (resolve ct ns f t)
                           | None => None end) fs).

Lemma resolve_fwd ct ns f n :
  resolve ct ns (S f) (TFwd n) =
  match lookup_s n ns with
  | Some (NsTD base total fs) =>
      match lookup_s base ns with
      | Some NsTDBase =>
          match fields_res ct ns f fs with
          | Some own => Some (if total then TTypedDict own [] else TTypedDict [] own)
          | None => None end
      | Some (NsTD base2 true fs2) =>
          match lookup_s base2 ns, total with
          | Some NsTDBase, false =>
              match fields_res ct ns f fs2, fields_res ct ns f fs with
              | Some req, Some opt => Some (TTypedDict req opt)
              | _, _ => None end
          | _, _ => None end
      | _ => None
      end
  | _ => None
  end.
Proof. reflexivity. Qed.

(* a field: simple, lexically sane, builtin classes only *)
Definition fld_ok (ct : ctable) (a : string * ty) : bool :=
  simple (snd a) && lexok (cls_plain_ok ct) (snd a).

Definition ns_entry (ct : ctable) (s : cstub) : nsval :=
  NsTD (cs_base s) (cs_total s) (map (fun f => (fst f, ra ct (snd f))) (sort_by fst (cs_attrs s))).

Section Flat.
Variable ct : ctable.
Variable ns : namespace.
Hypothesis Hbase : binds_base ns.

Definition fld_good (a : string * ty) : Prop := fld_ok ct a = true /\ binds_cls_l ct ns (tcls (snd a)).

Lemma fields_ok_res f l : Forall fld_good l ->
  fields_res ct ns (S f) (map (fun a => (fst a, ra ct (snd a))) l) = Some l.
Proof.
  intros HF. unfold fields_res. rewrite map_map.
  rewrite (all_some_map _ (fun a => a)); [rewrite map_id; reflexivity|].
  rewrite Forall_forall in *. intros [k x] Hin. destruct (HF _ Hin) as [Hok Hb]. cbn [fst snd] in *.
  unfold fld_ok in Hok. cbn [snd] in Hok. apply andb_prop in Hok as [Hs Hl].
  rewrite (resolves_text_plain ct ns x Hbase Hb Hl).
  rewrite (evt_union_free x (simple_union_free x Hs)). rewrite (resolve_simple ct ns f x Hs). reflexivity.
Qed.

Lemma fields_sorted f l : Forall fld_good l ->
  fields_res ct ns (S f) (map (fun a => (fst a, ra ct (snd a))) (sort_by fst l)) = Some (sort_by fst l).
Proof.
  intros HF. apply fields_ok_res. rewrite Forall_forall in *. intros a Ha. apply HF.
  exact (Permutation_in a (sort_by_perm fst l) Ha).
Qed.

Lemma fsub_sorted l : NoDup (map fst l) -> Forall (fun a => wf_ty (snd a)) l ->
  SigUpdateSpec.fsubC l (sort_by fst l) = true.
Proof.
  intros ND W. unfold SigUpdateSpec.fsubC. apply forallb_forall. intros [k x] Hin. cbn [fst snd].
  assert (ND' : NoDup (map fst (sort_by fst l))).
  { eapply Permutation_NoDup; [|exact ND]. apply Permutation_map. symmetry. apply sort_by_perm. }
  rewrite (lookup_f_NoDup k x _ ND').
  - apply SigUpdateSpec.corrb_refl. rewrite Forall_forall in W. exact (W _ Hin).
  - eapply Permutation_in; [symmetry; apply sort_by_perm | exact Hin].
Qed.

Lemma length_sorted {A} (key : A -> string) l : List.length (sort_by key l) = List.length l.
Proof. apply Permutation_length, sort_by_perm. Qed.

Lemma lookup_one (a : cstub) : lookup_s (cs_name a) (cstubs_ns ct [a]) = Some (ns_entry ct a).
Proof.
  unfold cstubs_ns, sort_by. cbn [fold_left insert_by map rev app lookup_s]. rewrite String.eqb_refl. reflexivity.
Qed.

Lemma lookup_two (a b : cstub) : cs_name a <> cs_name b ->
  lookup_s (cs_name a) (cstubs_ns ct [a; b]) = Some (ns_entry ct a)
  /\ lookup_s (cs_name b) (cstubs_ns ct [a; b]) = Some (ns_entry ct b).
Proof.
  intros Hne. unfold cstubs_ns, sort_by. cbn [fold_left insert_by].
  assert (E1 : String.eqb (cs_name a) (cs_name b) = false) by (apply String.eqb_neq; exact Hne).
  assert (E2 : String.eqb (cs_name b) (cs_name a) = false) by (apply String.eqb_neq; congruence).
  destruct (String.ltb (cs_header b) (cs_header a)); cbn [map rev app lookup_s];
    rewrite ?String.eqb_refl, ?E1, ?E2, ?String.eqb_refl; split; reflexivity.
Qed.

Theorem td_stub_resolves_flat hint req opt fuel :
  wf_ty (TTypedDict req opt) -> Forall fld_good (req ++ opt) -> req ++ opt <> [] ->
  let '(t', cs) := rtd (TTypedDict req opt) hint in
  NoDup (map cs_name cs) ->
  (forall s, In s cs -> lookup_s (cs_name s) ns = lookup_s (cs_name s) (cstubs_ns ct cs)) ->
  lookup_s "TypedDict" ns = Some NsTDBase ->
  List.length cs < fuel ->
  exists r, resolve ct ns fuel t' = Some r /\ corrb (TTypedDict req opt) r = true.
Proof.
  intros W HF Hne. apply wf_TTypedDict in W as (ND & Wr & Wo).
  apply Forall_app in HF as [HFr HFo].
  assert (Sr : Forall (fun a => simple (snd a) = true) req).
  { rewrite Forall_forall in *. intros a Ha. destruct (HFr a Ha) as [H _]. unfold fld_ok in H.
    apply andb_prop in H as [H _]. exact H. }
  assert (So : Forall (fun a => simple (snd a) = true) opt).
  { rewrite Forall_forall in *. intros a Ha. destruct (HFo a Ha) as [H _]. unfold fld_ok in H.
    apply andb_prop in H as [H _]. exact H. }
  pose proof (NoDup_app_l _ _ ND) as NDr. pose proof (NoDup_app_r _ _ ND) as NDo.
  rewrite (rtd_td_flat req opt hint Sr So). cbv zeta.
  set (cname := td_class_name hint).
  destruct req as [|r0 req'], opt as [|o0 opt'].
  - exfalso. apply Hne. reflexivity.
  - (* optional fields only *)
    set (opt := o0 :: opt') in *. intros _ Hlook HTD Hfuel.
    destruct fuel as [|[|f]]; [cbn in Hfuel; lia | cbn in Hfuel; lia |].
    exists (TTypedDict [] (sort_by fst opt)). split.
    + set (a := Build_cstub cname "TypedDict" false opt) in *.
      rewrite resolve_fwd. change cname with (cs_name a).
      rewrite (Hlook a (or_introl eq_refl)), lookup_one. unfold ns_entry. cbn [cs_base cs_total cs_attrs a].
      rewrite HTD. rewrite (fields_sorted f opt HFo). reflexivity.
    + rewrite SigUpdateSpec.corrb_TTypedDict. rewrite ?length_sorted, !Nat.eqb_refl, (fsub_sorted opt NDo Wo). reflexivity.
  - (* required fields only *)
    set (req := r0 :: req') in *. intros _ Hlook HTD Hfuel.
    destruct fuel as [|[|f]]; [cbn in Hfuel; lia | cbn in Hfuel; lia |].
    exists (TTypedDict (sort_by fst req) []). split.
    + set (a := Build_cstub cname "TypedDict" true req) in *.
      rewrite resolve_fwd. change cname with (cs_name a).
      rewrite (Hlook a (or_introl eq_refl)), lookup_one. unfold ns_entry. cbn [cs_base cs_total cs_attrs a].
      rewrite HTD. rewrite (fields_sorted f req HFr). reflexivity.
    + rewrite SigUpdateSpec.corrb_TTypedDict. rewrite ?length_sorted, !Nat.eqb_refl, (fsub_sorted req NDr Wr). reflexivity.
  - (* both: the total class and its NonTotal subclass *)
    set (req := r0 :: req') in *. set (opt := o0 :: opt') in *.
    set (a := Build_cstub cname "TypedDict" true req). set (b := Build_cstub (cname +++ "NonTotal") cname false opt).
    intros NDn Hlook HTD Hfuel.
    destruct fuel as [|[|f]]; [cbn in Hfuel; lia | cbn in Hfuel; lia |].
    assert (Hab : cs_name a <> cs_name b).
    { cbn [map] in NDn. inversion NDn as [|? ? Hnin _]; subst. intros E. apply Hnin. left. symmetry. exact E. }
    destruct (lookup_two a b Hab) as [La Lb].
    exists (TTypedDict (sort_by fst req) (sort_by fst opt)). split.
    + rewrite resolve_fwd.
      change (cname +++ "NonTotal") with (cs_name b).
      rewrite (Hlook b (or_intror (or_introl eq_refl))), Lb. unfold ns_entry at 1. cbn [cs_base cs_total cs_attrs b].
      change cname with (cs_name a).
      rewrite (Hlook a (or_introl eq_refl)), La. unfold ns_entry at 1. cbn [cs_base cs_total cs_attrs a].
      rewrite HTD. rewrite (fields_sorted f req HFr), (fields_sorted f opt HFo). reflexivity.
    + rewrite SigUpdateSpec.corrb_TTypedDict.
      rewrite !length_sorted, !Nat.eqb_refl, (fsub_sorted req NDr Wr), (fsub_sorted opt NDo Wo). reflexivity.
Qed.
End Flat.

(* the same with the boolean name-distinctness of Check/RenderCases.v (as in td_stub_resolves_full) *)
From MT Require RenderCases.

Lemma nodup_s_NoDup l : RenderCases.nodup_s l = true -> NoDup l.
Proof.
  induction l as [|x r IH]; intros H; [constructor|].
  cbn [RenderCases.nodup_s] in H. apply andb_prop in H as [H1 H2]. constructor; [|exact (IH H2)].
  intros Hin. apply negb_true_iff in H1. unfold mem_s in H1.
  assert (E : existsb (String.eqb x) r = true) by (apply existsb_exists; exists x; split; [exact Hin | apply String.eqb_refl]).
  congruence.
Qed.

Theorem td_stub_resolves_flat_b ct ns hint req opt fuel :
  binds_base ns ->
  wf_ty (TTypedDict req opt) -> Forall (fld_good ct ns) (req ++ opt) -> req ++ opt <> [] ->
  let '(t', cs) := rtd (TTypedDict req opt) hint in
  RenderCases.nodup_s (map cs_name cs) = true ->
  (forall s, In s cs -> lookup_s (cs_name s) ns = lookup_s (cs_name s) (cstubs_ns ct cs)) ->
  lookup_s "TypedDict" ns = Some NsTDBase ->
  List.length cs < fuel ->
  exists r, resolve ct ns fuel t' = Some r /\ corrb (TTypedDict req opt) r = true.
Proof.
  intros Hb W HF Hne. pose proof (td_stub_resolves_flat ct ns Hb hint req opt fuel W HF Hne) as T.
  destruct (rtd (TTypedDict req opt) hint) as [t' cs]. intros Hn. apply T. apply nodup_s_NoDup; exact Hn.
Qed.
