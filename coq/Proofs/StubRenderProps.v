(* Proofs/StubRenderProps.v — C12: the property-level statements, derived from StubRenderSig / StubRenderModule. *)
From Coq Require Import List Bool Arith ZArith String Ascii Lia Permutation.
From MT Require Import Constants StubRender StubRenderSig StubRenderModule.
Import ListNotations.
Open Scope list_scope.

Definition key_dec : forall a b : list string * string, {a = b} + {a <> b}.
Proof. decide equality; [apply string_dec|apply (list_eq_dec string_dec)]. Defined.

Lemma NoDup_map_inj_in : forall {A B} (f : A -> B) l a b,
  NoDup (map f l) -> In a l -> In b l -> f a = f b -> a = b.
Proof.
  induction l as [| x r IH]; intros a b Hn Ha Hb Hf; [destruct Ha|].
  cbn in Hn. inversion Hn as [| ? ? Hx Hr]; subst.
  destruct Ha as [->|Ha], Hb as [->|Hb]; auto.
  - exfalso. apply Hx. rewrite Hf. now apply in_map.
  - exfalso. apply Hx. rewrite <- Hf. now apply in_map.
Qed.

Lemma placed_items : forall ds items,
  Permutation items (map expected_item ds) ->
  Permutation (map item_key items) (map fd_key ds).
Proof.
  intros ds items P. rewrite P, map_map. apply Permutation_refl' . apply map_ext. intros; apply expected_item_key.
Qed.

(* each traced function appears exactly once, in its class, and nothing untraced appears *)
Theorem placed_once_lemma : forall ds,
  NoDup (map fd_qualname ds) -> Forall good_def ds ->
  exists items,
    parse_module (render_module (build_one ds)) = Some items
    /\ (forall d, In d ds -> count_occ key_dec (map item_key items) (fd_key d) = 1)
    /\ (forall it, In it items -> exists d, In d ds /\ it = expected_item d)
    /\ List.length items = List.length ds.
Proof.
  intros ds Hn Hg. destruct (build_one_placed ds Hn Hg) as [items [Hp P]].
  exists items. split; [exact Hp|]. repeat split.
  - intros d Hd.
    pose proof (placed_items ds items P) as Pk.
    rewrite (proj1 (Permutation_count_occ key_dec _ _) Pk).
    apply NoDup_count_occ'; [now apply nodup_keys|now apply in_map].
  - intros it Hit. apply (Permutation_in _ P) in Hit. apply in_map_iff in Hit as [d [<- Hd]]. eauto.
  - rewrite (Permutation_length P). apply map_length.
Qed.

(* the item shown under a traced function's (class, name) carries its decorator, async flag and parameters *)
Theorem decorator_matches_kind_lemma : forall ds d,
  NoDup (map fd_qualname ds) -> Forall good_def ds -> In d ds ->
  exists items,
    parse_module (render_module (build_one ds)) = Some items
    /\ (exists it, In it items /\ item_key it = fd_key d)
    /\ (forall it, In it items -> item_key it = fd_key d ->
          it_class it = fd_class_path d
          /\ it_decor it = decorator_of (fd_kind d)
          /\ it_async it = fd_async d
          /\ it_params it = map erase (fd_params d)).
Proof.
  intros ds d Hn Hg Hd. destruct (build_one_placed ds Hn Hg) as [items [Hp P]].
  exists items. split; [exact Hp|]. split.
  - exists (expected_item d). split; [|apply expected_item_key].
    apply (Permutation_in _ (Permutation_sym P)). now apply in_map.
  - intros it Hit Hk. apply (Permutation_in _ P) in Hit. apply in_map_iff in Hit as [d' [<- Hd']].
    rewrite expected_item_key in Hk.
    assert (d' = d).
    { apply (NoDup_map_inj_in fd_qualname ds); auto. now apply fd_key_qualname. }
    subst d'. repeat split.
Qed.

(* a stub of definitions outside the nested-class finding is valid Python (module by module) *)
Theorem module_parses_lemma : forall ds m ms,
  Forall good_def ds -> In (m, ms) (build_module_stubs ds) ->
  parse_module (render_module ms) = Some (items_of_mstub ms).
Proof.
  intros ds m ms Hg Hin. unfold build_module_stubs in Hin.
  apply in_map_iff in Hin as [m' [Heq _]]. injection Heq as -> <-.
  apply build_one_parses. apply Forall_forall. intros d Hd. apply filter_In in Hd as [Hd _].
  now apply (proj1 (Forall_forall _ _) Hg).
Qed.

(* ---------------------------------------------------------------------------------------------- *)
(* the receiver                                                                                    *)
(* ---------------------------------------------------------------------------------------------- *)
Theorem receiver_lemma : forall k st traced p r,
  has_self k = true ->
  exists p' r',
    update_signature_args k st traced (p :: r) = p' :: r'
    /\ p_name p' = p_name p /\ p_kind p' = p_kind p /\ p_default p' = p_default p
    /\ p_anno p' = (if strategy_eqb st OMIT then None else p_anno p).
Proof.
  intros k st traced p r Hs. unfold update_signature_args. rewrite Hs. cbn [update_args_go Nat.eqb andb negb].
  eexists. eexists. split; [reflexivity|].
  destruct p as [n kd a d]. destruct a, st; cbn; repeat split.
Qed.

Theorem receiver_never_annotated_lemma : forall ds d st traced p r,
  NoDup (map fd_qualname ds) -> Forall good_def ds -> In d ds ->
  has_self (fd_kind d) = true -> p_anno p = None ->
  fd_params d = update_signature_args (fd_kind d) st traced (p :: r) ->
  exists items it rest,
    parse_module (render_module (build_one ds)) = Some items
    /\ In it items /\ item_key it = fd_key d
    /\ it_params it = (p_name p, p_kind p, p_default p, false) :: rest.
Proof.
  intros ds d st traced p r Hn Hg Hd Hs Ha Hp.
  destruct (decorator_matches_kind_lemma ds d Hn Hg Hd) as [items [Hparse [[it [Hit Hk]] Hall]]].
  destruct (Hall it Hit Hk) as [_ [_ [_ Hps]]].
  destruct (receiver_lemma (fd_kind d) st traced p r Hs) as [p' [r' [Hu [H1 [H2 [H3 H4]]]]]].
  exists items, it, (map erase r'). repeat split; auto.
  rewrite Hps, Hp, Hu. cbn [map]. unfold erase at 1. rewrite H1, H2, H3, H4, Ha.
  destruct (strategy_eqb st OMIT); reflexivity.
Qed.
