(* Proofs/ApplyIdemImports.v — C15 idempotence, part 2: the AddImportsVisitor model [add_imports].
   - it only inserts `from m import o` items for requested (m, o);
   - afterwards every requested name (or a star import of its module) is in the top import block;
   - inserting non-import statements after the last top-level from-import keeps them there;
   - hence a second [add_imports] with the same requests changes nothing. *)
From Coq Require Import List Bool Arith String Ascii Lia.
From MT Require Import Apply ApplyFacts ApplyIdemBase.
Import ListNotations.
Open Scope list_scope.

(* ---------------------------------------------------------------- sort_dedup keeps exactly the members *)
Lemma insert_sorted_In : forall y x l, In y (insert_sorted x l) <-> y = x \/ In y l.
Proof.
  intros y x. induction l as [|z r IH]; cbn.
  - split; intros [H|H]; auto; try destruct H.
  - destruct (String.eqb x z) eqn:E.
    + apply String.eqb_eq in E. subst z. cbn. split; [intros [H|H]; auto|intros [H|[H|H]]; auto].
    + destruct (String.leb x z); cbn.
      * split; [intros [H|[H|H]]; auto|intros [H|[H|H]]; auto].
      * rewrite IH. split; [intros [H|[H|H]]; auto|intros [H|[H|H]]; auto].
Qed.
Lemma sort_dedup_In : forall y l, In y (sort_dedup l) <-> In y l.
Proof.
  intros y. induction l as [|x r IH]; cbn; [reflexivity|].
  rewrite insert_sorted_In, IH. split; intros [H|H]; auto.
Qed.
Lemma objs_for_In : forall m o needs, In o (objs_for m needs) -> In (m, o) needs.
Proof.
  intros m o needs H. unfold objs_for in H. apply (proj1 (sort_dedup_In _ _)) in H. apply in_flat_map in H as [[m' o'] [Hin Ho]].
  cbn [fst snd] in Ho. destruct (String.eqb m' m) eqn:E; [|destruct Ho].
  apply String.eqb_eq in E. destruct Ho as [Ho|[]]. subst. assumption.
Qed.

(* ---------------------------------------------------------------- the statements add_imports inserts *)
Definition from_stmt (m o : string) : stmt := Import (mkItem m (Some o) None).
Definition requested (needs : list (string * string)) (x : stmt) : Prop :=
  exists m o, x = from_stmt m o /\ In (m, o) needs.

Lemma block_objs_In : forall m o L, In o (block_objs m L) <-> In (from_stmt m o) L.
Proof.
  intros m o. unfold block_objs, from_stmt. induction L as [|s r IH]; cbn; [reflexivity|].
  rewrite in_app_iff, IH. apply or_iff_compat_r.
  destruct s as [h b|n d bs b|t b|it|t|ts t|t a v|t]; cbn; try (split; [intros []|intro H; discriminate H]).
  destruct it as [m' [o'|] [al|]]; cbn.
  - split; [intros []|intro H; inversion H].
  - destruct (String.eqb m m') eqn:E.
    + apply String.eqb_eq in E. subst m'. cbn. split; [intros [H|[]]; subst; reflexivity|intro H; inversion H; auto].
    + split; [intros []|intro H; inversion H; subst; rewrite String.eqb_refl in E; discriminate].
  - split; [intros []|intro H; inversion H].
  - split; [intros []|intro H; inversion H].
Qed.

Lemma merge_before_In : forall m new block block',
  merge_before m new block = Some block' -> forall x, In x block' <-> In x new \/ In x block.
Proof.
  intros m new. induction block as [|s r IH]; intros block' E x; cbn in E; [discriminate|].
  destruct (from_of m s).
  - inversion E; subst. apply in_app_iff.
  - destruct (merge_before m new r) as [r'|] eqn:E'; cbn in E; [|discriminate]. inversion E; subst.
    cbn. rewrite (IH r' eq_refl x). tauto.
Qed.
Lemma merge_before_insq : forall (Q : stmt -> Prop) m new block block',
  Forall Q new -> merge_before m new block = Some block' -> insq Q block block'.
Proof.
  intros Q m new. induction block as [|s r IH]; intros block' A E; cbn in E; [discriminate|].
  destruct (from_of m s).
  - inversion E. apply insq_adds; [assumption|apply insq_refl].
  - destruct (merge_before m new r) eqn:E'; cbn in E; [|discriminate]. inversion E. apply insq_keep. auto.
Qed.

(* one step of the fold: only requested items are inserted, nothing is lost, and module m is covered *)
Definition cov1 (m : string) (objs : list string) (L : list stmt) : Prop :=
  In (from_stmt m "*") L \/ (forall o, In o objs -> In (from_stmt m o) L).
Lemma cov1_incl : forall m objs L L', incl L L' -> cov1 m objs L -> cov1 m objs L'.
Proof. intros m objs L L' I [H|H]; [left; apply I; assumption|right; intros o Ho; apply I; apply H; assumption]. Qed.

Lemma filter_nil : forall A (f : A -> bool) l, (forall x, In x l -> f x = false) -> filter f l = [].
Proof.
  intros A f l H. induction l as [|a r IH]; cbn; [reflexivity|]. rewrite H by (left; reflexivity).
  apply IH. intros. apply H. right. assumption.
Qed.

Lemma add_module_step : forall needs m acc,
  let acc' := add_module m (objs_for m needs) acc in
  insq (requested needs) (fst acc) (fst acc')
  /\ (exists extra, snd acc' = snd acc ++ extra /\ Forall (requested needs) extra)
  /\ cov1 m (objs_for m needs) (fst acc' ++ snd acc').
Proof.
  intros needs m [block fresh]. cbn [fst snd]. unfold add_module.
  set (objs := objs_for m needs).
  destruct (str_in "*" (block_objs m block)) eqn:Estar.
  { cbn [fst snd]. split; [apply insq_refl|]. split; [exists []; rewrite app_nil_r; split; [reflexivity|constructor]|].
    left. apply in_or_app. left. apply block_objs_In. apply str_in_In. assumption. }
  set (todo := filter (fun o => negb (str_in o (block_objs m block))) objs).
  assert (Hcov : forall L, incl block L -> (forall o, In o todo -> In (from_stmt m o) L) ->
                           forall o, In o objs -> In (from_stmt m o) L).
  { intros L I T o Ho. destruct (str_in o (block_objs m block)) eqn:Eo.
    - apply I. apply block_objs_In. apply str_in_In. assumption.
    - apply T. unfold todo. apply filter_In. split; [assumption|]. rewrite Eo. reflexivity. }
  assert (Hreq : Forall (requested needs) (map (fun o => Import (mkItem m (Some o) None)) todo)).
  { apply Forall_forall. intros x Hx. apply in_map_iff in Hx as [o [Ex Ho]]. exists m, o. split; [symmetry; exact Ex|].
    apply objs_for_In. unfold todo in Ho. apply filter_In in Ho as [Ho _]. exact Ho. }
  destruct todo as [|o os] eqn:Etodo.
  { cbn [fst snd]. split; [apply insq_refl|]. split; [exists []; rewrite app_nil_r; split; [reflexivity|constructor]|].
    right. apply Hcov; [apply incl_appl, incl_refl|]. intros o []. }
  set (new := map (fun o => Import (mkItem m (Some o) None)) (o :: os)) in *.
  assert (Hnew : forall o', In o' (o :: os) -> In (from_stmt m o') new).
  { intros o' Ho'. unfold new. apply in_map_iff. exists o'. split; [reflexivity|assumption]. }
  destruct (merge_before m new block) as [block'|] eqn:Em; cbn [fst snd].
  - split; [eapply merge_before_insq; eauto|].
    split; [exists []; rewrite app_nil_r; split; [reflexivity|constructor]|].
    right. apply Hcov.
    + intros x Hx. apply in_or_app. left. apply (merge_before_In _ _ _ _ Em). right. assumption.
    + intros o' Ho'. apply in_or_app. left. apply (merge_before_In _ _ _ _ Em). left. apply Hnew. assumption.
  - split; [apply insq_refl|]. split; [exists new; split; [reflexivity|assumption]|].
    right. apply Hcov.
    + apply incl_appl, incl_refl.
    + intros o' Ho'. apply in_or_app. right. apply in_or_app. right. apply Hnew. assumption.
Qed.

Definition covered (needs : list (string * string)) (mods : list string) (L : list stmt) : Prop :=
  forall m, In m mods -> cov1 m (objs_for m needs) L.

Lemma fold_add_module : forall needs mods acc,
  let acc' := fold_left (fun acc m => add_module m (objs_for m needs) acc) mods acc in
  insq (requested needs) (fst acc) (fst acc')
  /\ (exists extra, snd acc' = snd acc ++ extra /\ Forall (requested needs) extra)
  /\ covered needs mods (fst acc' ++ snd acc').
Proof.
  intros needs. induction mods as [|m ms IH]; intro acc; cbn.
  - split; [apply insq_refl|]. split; [exists []; rewrite app_nil_r; split; [reflexivity|constructor]|]. intros m [].
  - destruct (add_module_step needs m acc) as (I1 & (ex1 & E1 & F1) & C1).
    destruct (IH (add_module m (objs_for m needs) acc)) as (I2 & (ex2 & E2 & F2) & C2).
    split; [eapply insq_trans; eauto|].
    split.
    + exists (ex1 ++ ex2). rewrite E2, E1, app_assoc. split; [reflexivity|]. apply Forall_app. split; assumption.
    + intros m' [Hm|Hm]; [subst m'|apply C2; assumption].
      eapply cov1_incl; [|exact C1].
      rewrite E2. intros x Hx. apply in_app_iff in Hx as [Hx|Hx]; apply in_or_app.
      * left. eapply insq_incl; eauto.
      * right. apply in_or_app. left. assumption.
Qed.

(* ---------------------------------------------------------------- the top import block *)
Definition blk (L : list stmt) : list stmt :=
  match L with StrExpr _ :: r => fst (span_imports r) | _ => fst (span_imports L) end.
Lemma split_top_blk : forall L, snd (fst (split_top L)) = blk L.
Proof.
  intros [|s r]; [reflexivity|]. unfold split_top, blk.
  destruct s; try (destruct (span_imports (_ :: r)); reflexivity).
  destruct (span_imports r); reflexivity.
Qed.
Lemma span_imports_all : forall L, Forall (fun s => is_import s = true) (fst (span_imports L)).
Proof.
  induction L as [|s r IH]; cbn; [constructor|].
  destruct (is_import s) eqn:E; [|constructor].
  destruct (span_imports r) as [a b]. cbn in *. constructor; assumption.
Qed.
Lemma span_imports_prefix : forall A T,
  Forall (fun s => is_import s = true) A -> fst (span_imports (A ++ T)) = A ++ fst (span_imports T).
Proof.
  induction A as [|a r IH]; intros T H; cbn; [reflexivity|]. inversion H; subst.
  rewrite H2. specialize (IH T H3). destruct (span_imports (r ++ T)) as [x y]. cbn in *. now rewrite IH.
Qed.
Lemma blk_import_head : forall A T, Forall (fun s => is_import s = true) A -> incl A (blk (A ++ T)).
Proof.
  intros A T H. destruct A as [|a r]; [intros x []|].
  inversion H; subst. change ((a :: r) ++ T) with (a :: (r ++ T)). unfold blk.
  destruct a; try discriminate.
  change (Import it :: r ++ T) with ((Import it :: r) ++ T). rewrite span_imports_prefix by assumption.
  apply incl_appl, incl_refl.
Qed.
Lemma blk_all : forall L, Forall (fun s => is_import s = true) (blk L).
Proof. intros [|s r]; [constructor|]. unfold blk. destruct s; apply span_imports_all. Qed.

(* decomposition of a module around a member of its top block *)
Lemma blk_split : forall W x, In x (blk W) ->
  exists pre A T, W = pre ++ A ++ x :: T /\ Forall (fun s => is_import s = true) (A ++ [x])
                  /\ (pre = [] \/ exists t, pre = [StrExpr t]).
Proof.
  intros W x Hx.
  assert (G : forall L, In x (fst (span_imports L)) ->
                        exists A T, L = A ++ x :: T /\ Forall (fun s => is_import s = true) (A ++ [x])).
  { intros L HL. pose proof (span_imports_all L) as Hall.
    destruct (span_imports L) as [a b] eqn:E. apply span_imports_eq in E. cbn [fst] in *.
    apply in_split in HL as [A [B EA]]. subst a. exists A, (B ++ b). split.
    - rewrite E, <- app_assoc. reflexivity.
    - apply Forall_app in Hall as [H1 H2]. inversion H2; subst. apply Forall_app. split; [assumption|]. constructor; [assumption|constructor]. }
  destruct W as [|s r]; [destruct Hx|]. unfold blk in Hx.
  destruct s; try (destruct (G _ Hx) as (A & T & E & F); exists [], A, T; split; [exact E|split; [exact F|left; reflexivity]]).
  destruct (G _ Hx) as (A & T & E & F). exists [StrExpr t], A, T. split; [cbn; rewrite E; reflexivity|].
  split; [exact F|right; exists t; reflexivity].
Qed.

Lemma after_last_from_ge : forall A x C, is_from_import x = true -> List.length A + 1 <= after_last_from (A ++ x :: C).
Proof.
  induction A as [|a r IH]; intros x C H.
  - cbn. destruct (after_last_from C); [rewrite H|]; lia.
  - specialize (IH x C H). cbn [app after_last_from List.length].
    destruct (after_last_from (r ++ x :: C)); lia.
Qed.
Lemma insert_at_S : forall n new a L, insert_at (S n) new (a :: L) = a :: insert_at n new L.
Proof. reflexivity. Qed.
Lemma insert_at_past : forall A n new x C, List.length A + 1 <= n ->
  insert_at n new (A ++ x :: C) = A ++ x :: insert_at (n - List.length A - 1) new C.
Proof.
  induction A as [|a r IH]; intros n new x C H; cbn [List.length] in *.
  - destruct n; [lia|]. cbn [app]. rewrite insert_at_S. f_equal. f_equal. lia.
  - destruct n; [lia|]. cbn [app]. rewrite insert_at_S, IH by lia. reflexivity.
Qed.
Lemma insert_at_nil : forall n L, insert_at n [] L = L.
Proof. intros. unfold insert_at. cbn. apply firstn_skipn. Qed.

(* a from-import of the top block stays in the top block when statements are inserted after the last from-import *)
Lemma blk_insert : forall W new x,
  is_from_import x = true -> In x (blk W) -> In x (blk (insert_at (after_last_from W) new W)).
Proof.
  intros W new x Hf Hx. destruct (blk_split W x Hx) as (pre & A & T & E & Himp & Hpre).
  assert (Hn : List.length (pre ++ A) + 1 <= after_last_from W).
  { subst W. rewrite app_assoc. apply after_last_from_ge. assumption. }
  subst W. rewrite app_assoc in *. rewrite insert_at_past by assumption. rewrite <- app_assoc.
  set (T' := insert_at _ new T).
  assert (G : In x (blk (A ++ x :: T'))).
  { change (x :: T') with ([x] ++ T'). rewrite app_assoc. apply blk_import_head; [assumption|].
    apply in_or_app. right. left. reflexivity. }
  destruct Hpre as [Hp|[t Hp]]; subst pre; [exact G|].
  cbn [app]. unfold blk at 1. change (x :: T') with ([x] ++ T'). rewrite app_assoc.
  rewrite span_imports_prefix by assumption. apply in_or_app. left. apply in_or_app. right. left. reflexivity.
Qed.

(* ---------------------------------------------------------------- a covered module is a fixed point *)
Lemma add_module_covered : forall m objs B F,
  (str_in "*" (block_objs m B) = true \/ forall o, In o objs -> str_in o (block_objs m B) = true) ->
  add_module m objs (B, F) = (B, F).
Proof.
  intros m objs B F [H|H]; unfold add_module; [rewrite H; reflexivity|].
  destruct (str_in "*" (block_objs m B)); [reflexivity|].
  rewrite filter_nil; [reflexivity|]. intros o Ho. rewrite (H o Ho). reflexivity.
Qed.
Lemma add_imports_fix : forall needs X,
  covered needs (sort_dedup (map fst needs)) (blk X) -> add_imports needs X = X.
Proof.
  intros needs X C. unfold add_imports. pose proof (split_top_blk X) as Eb.
  destruct (split_top X) as [[pre B] rest] eqn:E. cbn [fst snd] in Eb. subst B.
  assert (G : forall mods, (forall m, In m mods -> In m (sort_dedup (map fst needs))) ->
              fold_left (fun acc m => add_module m (objs_for m needs) acc) mods (blk X, []) = (blk X, [])).
  { induction mods as [|m ms IH]; intro Hm; cbn [fold_left]; [reflexivity|].
    rewrite add_module_covered; [apply IH; intros; apply Hm; right; assumption|].
    destruct (C m (Hm m (or_introl eq_refl))) as [H|H].
    - left. apply str_in_In. apply block_objs_In. assumption.
    - right. intros o Ho. apply str_in_In. apply block_objs_In. apply H. assumption. }
  rewrite G by auto. cbn [app]. symmetry. apply split_top_eq. assumption.
Qed.

(* what [add_imports] returns: requested items inserted, and its own top block covers all requests *)
Lemma add_imports_spec : forall needs ss,
  insq (requested needs) ss (add_imports needs ss)
  /\ covered needs (sort_dedup (map fst needs)) (blk (add_imports needs ss)).
Proof.
  intros needs ss. unfold add_imports. pose proof (split_top_blk ss) as Eb.
  destruct (split_top ss) as [[pre block] rest] eqn:E. cbn [fst snd] in Eb.
  pose proof (fold_add_module needs (sort_dedup (map fst needs)) (block, [])) as H. cbn zeta in H.
  destruct (fold_left _ _ (block, [])) as [block' fresh]. cbn [fst snd] in H.
  destruct H as (I & (ex & Eex & Fex) & C). cbn [app] in Eex. subst ex.
  pose proof (split_top_eq _ _ _ _ E) as Ess.
  split.
  - subst ss. apply insq_app; [apply insq_refl|]. apply insq_app; [assumption|].
    apply insq_adds; [assumption|apply insq_refl].
  - assert (Himp : Forall (fun s => is_import s = true) (block' ++ fresh)).
    { apply Forall_forall. intros x Hx. apply in_app_iff in Hx as [Hx|Hx].
      - destruct (insq_In _ _ _ I x Hx) as [Hb|(m & o & Ex & _)]; [|subst x; reflexivity].
        pose proof (blk_all ss) as Ha. rewrite <- Eb in Ha. rewrite Forall_forall in Ha. apply Ha. assumption.
      - rewrite Forall_forall in Fex. destruct (Fex x Hx) as (m & o & Ex & _). subst x. reflexivity. }
    assert (Hincl : incl (block' ++ fresh) (blk (pre ++ block' ++ fresh ++ rest))).
    { rewrite (app_assoc block').
      unfold split_top in E. destruct ss as [|s r].
      - cbn in E. inversion E; subst. cbn [app]. apply blk_import_head. assumption.
      - destruct s; try (destruct (span_imports (_ :: r)); inversion E; subst; cbn [app]; apply blk_import_head; assumption).
        destruct (span_imports r); inversion E; subst. cbn [app]. unfold blk.
        rewrite span_imports_prefix by assumption. apply incl_appl, incl_refl. }
    intros m Hm. eapply cov1_incl; [exact Hincl|]. apply C. assumption.
Qed.

Theorem add_imports_insert_fix : forall needs ss new,
  let W := add_imports needs ss in
  add_imports needs (insert_at (after_last_from W) new W) = insert_at (after_last_from W) new W.
Proof.
  intros needs ss new W. apply add_imports_fix.
  destruct (add_imports_spec needs ss) as [_ C]. fold W in C.
  intros m Hm. destruct (C m Hm) as [H|H].
  - left. apply blk_insert; [reflexivity|assumption].
  - right. intros o Ho. apply blk_insert; [reflexivity|apply H; assumption].
Qed.
Corollary add_imports_idem : forall needs ss, add_imports needs (add_imports needs ss) = add_imports needs ss.
Proof.
  intros. pose proof (add_imports_insert_fix needs ss []) as H. cbn zeta in H. rewrite insert_at_nil in H. exact H.
Qed.
