(* Proofs/FilterSpec.v — the declarative specification of default_code_filter and the proof that the
   model (which follows the source's control flow) and the independently written decision procedure
   spec_b both coincide with it, for all roots, allow-lists, names and paths. *)
From Coq Require Import List Bool Arith String Ascii Lia.
From MT Require Import Filter.
Import ListNotations.
Open Scope list_scope.

(* ------------------------------------------------------------------------------------------ *)
(* the specification                                                                           *)
(* ------------------------------------------------------------------------------------------ *)
(* file lies at or below the directory r *)
Definition under (r file : path) : Prop := exists rest, file = r ++ rest.

(* code that comes from a real source file: a non-empty name that does not start with "<" *)
Definition real_source (raw : string) : Prop :=
  raw <> EmptyString /\ forall s, raw <> String "<" s.

(* rest = file relative to the FIRST library root (in LIB_PATHS order) it lies under; file itself if none *)
Definition stripped (roots : list path) (file rest : path) : Prop :=
  (exists pre r post, roots = pre ++ r :: post /\ file = r ++ rest /\ Forall (fun r' => ~ under r' file) pre)
  \/ ((forall r, In r roots -> ~ under r file) /\ rest = file).

Definition filter_spec (roots : list path) (allow : option (list string)) (raw : string) (file : path) : Prop :=
  real_source raw /\
  match allow with
  | None => forall r, In r roots -> ~ under r file
  | Some ms => exists m rest, In m ms /\ stripped roots file rest /\ (stem rest = m \/ In m rest)
  end.

(* the components that are not the file's own name (directories, and the anchor of an unstripped path) *)
Definition dir_parts (p : path) : path :=
  match tail_parts p with [] => p | _ => removelast p end.

(* a listed name that carries no file suffix ("pkg", "mod" — not "mod.py") *)
Definition suffix_free (m : string) : Prop := stem_name m = m.

(* ------------------------------------------------------------------------------------------ *)
(* relative_to / _startswith                                                                   *)
(* ------------------------------------------------------------------------------------------ *)
Lemma relative_to_spec : forall b a rest, relative_to a b = Some rest <-> a = b ++ rest.
Proof.
  induction b as [|y b IH]; intros a rest; cbn [relative_to app].
  - split; intro H; [inversion H | subst]; reflexivity.
  - destruct a as [|x a].
    + split; intro H; discriminate.
    + destruct (String.eqb x y) eqn:E.
      * apply String.eqb_eq in E. subst y. rewrite IH. split; intro H; [subst | inversion H]; reflexivity.
      * apply String.eqb_neq in E. split; intro H; [discriminate | inversion H; congruence].
Qed.

Lemma relative_to_none : forall a b, relative_to a b = None <-> ~ under b a.
Proof.
  intros a b. split.
  - intros H [rest Hr]. apply relative_to_spec in Hr. congruence.
  - intro H. destruct (relative_to a b) as [rest|] eqn:E; [|reflexivity].
    exfalso. apply H. exists rest. apply relative_to_spec. exact E.
Qed.

Lemma startswith_iff : forall a b, startswith a b = true <-> under b a.
Proof.
  intros a b. unfold startswith. destruct (relative_to a b) as [rest|] eqn:E.
  - split; [|reflexivity]. intros _. exists rest. apply relative_to_spec. exact E.
  - split; [discriminate|]. intro H. apply relative_to_none in E. contradiction.
Qed.

(* the file itself lies under itself: bool(a.relative_to(a)) is True *)
Lemma startswith_refl : forall a, startswith a a = true.
Proof. intro a. apply startswith_iff. exists []. symmetry. apply app_nil_r. Qed.

(* ------------------------------------------------------------------------------------------ *)
(* the first-matching-root strip                                                               *)
(* ------------------------------------------------------------------------------------------ *)
Lemma strip_first_root_stripped : forall roots file, stripped roots file (strip_first_root roots file).
Proof.
  induction roots as [|r rs IH]; intro file; cbn [strip_first_root].
  - right. split; [intros r []|reflexivity].
  - destruct (relative_to file r) as [rest|] eqn:E.
    + left. exists [], r, rs. split; [reflexivity|]. split; [apply relative_to_spec; exact E|constructor].
    + apply relative_to_none in E. destruct (IH file) as [(pre & r0 & post & H1 & H2 & H3)|[H1 H2]].
      * left. exists (r :: pre), r0, post. subst rs. split; [reflexivity|]. split; [exact H2|].
        constructor; assumption.
      * right. split; [|exact H2]. intros r0 [->|Hin]; [exact E|apply H1; exact Hin].
Qed.

Lemma stripped_unique : forall roots file rest, stripped roots file rest -> rest = strip_first_root roots file.
Proof.
  induction roots as [|r rs IH]; intros file rest H; cbn [strip_first_root].
  - destruct H as [(pre & r0 & post & H1 & _)|[_ H2]]; [destruct pre; discriminate|exact H2].
  - destruct (relative_to file r) as [rest'|] eqn:E.
    + apply relative_to_spec in E.
      destruct H as [(pre & r0 & post & H1 & H2 & H3)|[H1 _]].
      * destruct pre as [|p pre]; cbn in H1; injection H1 as Hr Hrs.
        -- subst r0. rewrite H2 in E. apply app_inv_head in E. exact E.
        -- inversion H3 as [|? ? Hp Hpre]. exfalso. apply Hp. subst p. exists rest'. exact E.
      * exfalso. apply (H1 r); [left; reflexivity|]. exists rest'. exact E.
    + apply relative_to_none in E. apply IH.
      destruct H as [(pre & r0 & post & H1 & H2 & H3)|[H1 H2]].
      * destruct pre as [|p pre]; cbn in H1; injection H1 as Hr Hrs.
        -- exfalso. apply E. subst r0. exists rest. exact H2.
        -- inversion H3 as [|? ? Hp Hpre]. left. exists pre, r0, post. repeat split; assumption.
      * right. split; [|exact H2]. intros r0 Hin. apply H1. right. exact Hin.
Qed.

(* ------------------------------------------------------------------------------------------ *)
(* synthetic names, membership in the allow-list                                               *)
(* ------------------------------------------------------------------------------------------ *)
Lemma synthetic_iff : forall raw, synthetic raw = false <-> real_source raw.
Proof.
  intro raw. unfold synthetic, real_source. destruct raw as [|c s].
  - split; [discriminate|]. intros [H _]. congruence.
  - split.
    + intro H. split; [discriminate|]. intros s' Heq. inversion Heq; subst.
      rewrite Ascii.eqb_refl in H. discriminate.
    + intros [_ H]. destruct (Ascii.eqb c "<") eqn:E; [|reflexivity].
      apply Ascii.eqb_eq in E. subst c. exfalso. apply (H s). reflexivity.
Qed.

Lemma existsb_eqb_In : forall (m : string) l, existsb (String.eqb m) l = true <-> In m l.
Proof.
  intros m l. rewrite existsb_exists. split.
  - intros (x & Hin & E). apply String.eqb_eq in E. subst. exact Hin.
  - intro H. exists m. split; [exact H|apply String.eqb_refl].
Qed.

Lemma listed_iff : forall ms p, listed ms p = true <-> exists m, In m ms /\ (stem p = m \/ In m p).
Proof.
  intros ms p. unfold listed. rewrite existsb_exists. split.
  - intros (m & Hin & H). exists m. split; [exact Hin|]. apply orb_true_iff in H. destruct H as [H|H].
    + left. apply String.eqb_eq in H. congruence.
    + right. apply existsb_eqb_In. exact H.
  - intros (m & Hin & [H|H]); exists m; (split; [exact Hin|]); apply orb_true_iff.
    + left. apply String.eqb_eq. congruence.
    + right. apply existsb_eqb_In. exact H.
Qed.

(* ------------------------------------------------------------------------------------------ *)
(* the model meets the specification                                                           *)
(* ------------------------------------------------------------------------------------------ *)
Lemma default_filter_path_spec : forall roots allow file,
  default_filter_path roots allow file = true <->
  match allow with
  | None => forall r, In r roots -> ~ under r file
  | Some ms => exists m rest, In m ms /\ stripped roots file rest /\ (stem rest = m \/ In m rest)
  end.
Proof.
  intros roots allow file. unfold default_filter_path. destruct allow as [ms|].
  - rewrite listed_iff. split.
    + intros (m & Hin & H). exists m, (strip_first_root roots file).
      split; [exact Hin|]. split; [apply strip_first_root_stripped|exact H].
    + intros (m & rest & Hin & Hs & H). apply stripped_unique in Hs. subst rest. exists m. split; assumption.
  - rewrite negb_true_iff. split.
    + intros H r Hin Hu. apply startswith_iff in Hu.
      assert (existsb (startswith file) roots = true) by (apply existsb_exists; exists r; split; assumption).
      congruence.
    + intro H. destruct (existsb (startswith file) roots) eqn:E; [|reflexivity].
      apply existsb_exists in E. destruct E as (r & Hin & Hs). apply startswith_iff in Hs.
      exfalso. exact (H r Hin Hs).
Qed.

Lemma default_filter_spec : forall roots allow raw file,
  default_filter roots allow raw (Some file) = Some true <-> filter_spec roots allow raw file.
Proof.
  intros roots allow raw file. unfold default_filter, filter_spec.
  destruct (synthetic raw) eqn:S.
  - split; [discriminate|]. intros [H _]. apply synthetic_iff in H. congruence.
  - apply synthetic_iff in S. rewrite <- default_filter_path_spec. split.
    + intro H. inversion H. split; [exact S|reflexivity].
    + intros [_ H]. rewrite H. reflexivity.
Qed.

(* the filter raises exactly when resolve() is reached and raises; otherwise it answers *)
Lemma default_filter_raises_iff : forall roots allow raw resolved,
  default_filter roots allow raw resolved = None <-> real_source raw /\ resolved = None.
Proof.
  intros roots allow raw resolved. unfold default_filter. destruct (synthetic raw) eqn:S.
  - split; [discriminate|]. intros [H _]. apply synthetic_iff in H. congruence.
  - apply synthetic_iff in S. destruct resolved; split; try discriminate; intuition congruence.
Qed.

(* a synthetic name is rejected whatever the roots, the allow-list and the file system say *)
Lemma synthetic_rejected : forall roots allow raw resolved,
  ~ real_source raw -> default_filter roots allow raw resolved = Some false.
Proof.
  intros roots allow raw resolved H. unfold default_filter. destruct (synthetic raw) eqn:S; [reflexivity|].
  apply synthetic_iff in S. contradiction.
Qed.

(* ------------------------------------------------------------------------------------------ *)
(* the independently written decision procedure agrees with the specification                  *)
(* ------------------------------------------------------------------------------------------ *)
Lemma path_eqb_eq : forall a b, path_eqb a b = true <-> a = b.
Proof.
  induction a as [|x a IH]; destruct b as [|y b]; cbn [path_eqb]; try (split; [reflexivity|reflexivity]);
    try (split; discriminate).
  rewrite andb_true_iff, String.eqb_eq, IH. split; [intros [-> ->]; reflexivity|intro H; inversion H; auto].
Qed.

Lemma underb_iff : forall r file, underb r file = true <-> under r file.
Proof.
  intros r file. unfold underb, under. rewrite path_eqb_eq. split.
  - intro H. exists (skipn (List.length r) file). rewrite <- H at 1. symmetry. apply firstn_skipn.
  - intros [rest ->]. rewrite firstn_app, Nat.sub_diag, firstn_all. cbn. apply app_nil_r.
Qed.

Lemma spec_rest_stripped : forall roots file, stripped roots file (spec_rest roots file).
Proof.
  intros roots file. unfold spec_rest.
  induction roots as [|r rs IH]; cbn [find].
  - right. split; [intros r []|reflexivity].
  - destruct (underb r file) eqn:E.
    + left. exists [], r, rs. split; [reflexivity|]. split; [|constructor].
      apply underb_iff in E. destruct E as [rest ->]. rewrite skipn_app, Nat.sub_diag, skipn_all. reflexivity.
    + assert (Hn : ~ under r file) by (intro H; apply underb_iff in H; congruence).
      destruct IH as [(pre & r0 & post & H1 & H2 & H3)|[H1 H2]].
      * left. exists (r :: pre), r0, post. subst rs. split; [reflexivity|]. split; [exact H2|].
        constructor; assumption.
      * right. split; [|exact H2]. intros r0 [->|Hin]; [exact Hn|apply H1; exact Hin].
Qed.

Lemma spec_rest_eq : forall roots file, spec_rest roots file = strip_first_root roots file.
Proof. intros. apply stripped_unique. apply spec_rest_stripped. Qed.

Lemma spec_b_iff : forall roots allow raw file, spec_b roots allow raw file = true <-> filter_spec roots allow raw file.
Proof.
  intros roots allow raw file. unfold spec_b, filter_spec.
  rewrite andb_true_iff.
  assert (HS : real_source_b raw = true <-> real_source raw).
  { rewrite <- synthetic_iff. unfold real_source_b, synthetic. destruct raw as [|c s]; cbn.
    - split; discriminate.
    - destruct (Ascii.eqb c "<"); cbn; split; congruence. }
  rewrite HS. apply and_iff_compat_l.
  destruct allow as [ms|].
  - rewrite existsb_exists. split.
    + intros (m & Hin & H). exists m, (spec_rest roots file). split; [exact Hin|].
      split; [apply spec_rest_stripped|]. apply orb_true_iff in H. destruct H as [H|H].
      * left. apply String.eqb_eq in H. congruence.
      * right. destruct (in_dec string_dec m (spec_rest roots file)); [assumption|discriminate].
    + intros (m & rest & Hin & Hs & H). apply stripped_unique in Hs. rewrite <- spec_rest_eq in Hs. subst rest.
      exists m. split; [exact Hin|]. apply orb_true_iff. destruct H as [H|H].
      * left. apply String.eqb_eq. congruence.
      * right. destruct (in_dec string_dec m (spec_rest roots file)); [reflexivity|contradiction].
  - rewrite forallb_forall. split.
    + intros H r Hin Hu. apply underb_iff in Hu. specialize (H r Hin). rewrite Hu in H. discriminate.
    + intros H r Hin. apply negb_true_iff. destruct (underb r file) eqn:E; [|reflexivity].
      apply underb_iff in E. exfalso. exact (H r Hin E).
Qed.

Lemma model_eq_spec_b : forall roots allow raw file,
  default_filter roots allow raw (Some file) = Some (spec_b roots allow raw file).
Proof.
  intros. destruct (default_filter roots allow raw (Some file)) as [[|]|] eqn:D.
  - f_equal. symmetry. apply spec_b_iff, default_filter_spec. exact D.
  - f_equal. destruct (spec_b roots allow raw file) eqn:E; [|reflexivity].
    apply spec_b_iff, default_filter_spec in E. congruence.
  - apply default_filter_raises_iff in D. destruct D; discriminate.
Qed.
