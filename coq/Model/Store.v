(* Model/Store.v — the trace store (monkeytype/db/sqlite.py) as a state machine over committed rows.
   Executable definitions only; proofs live in Proofs/Store*.v.

   State  = the list of committed rows in rowid order (created_at is not part of the model: it is never
            returned and only feeds an ORDER BY whose effect the answer relation leaves open).
   Ops    = Add batch | AddAborted batch | Reopen | Filter m p n | ListModules.
   The SQL of make_query is read from Gen/Constants.v + Gen/StoreConstants.v (regenerated from the source):
   the qualname operator is dispatched on `query_qualname_operator`; an operator / query shape the model does
   not know makes every answer relation false (fail closed), never a silently defaulted matcher. *)
From Coq Require Import List Bool Arith NArith String Ascii.
From MT Require Import Constants StoreConstants.
Import ListNotations.
Open Scope list_scope.

(* ------------------------------------------------------------------------------------------------ *)
(* rows                                                                                             *)
(* ------------------------------------------------------------------------------------------------ *)
Record row := mkRow {
  r_module : string;            (* TEXT, never NULL for a trace of a real function *)
  r_qualname : string;
  r_args : string;              (* JSON text *)
  r_ret : option string;        (* None = SQL NULL *)
  r_yield : option string }.

(* Binary text equality.  Written with `if` (not `&&` / `||`): vm_compute evaluates the arguments of a function such
   as andb / orb eagerly, so String.eqb always walks the whole shorter string and `existsb` the whole list; the
   comparisons below stop at the first difference / first hit, which is what makes thousand-row tables cheap. *)
Fixpoint str_eqb (a b : string) : bool :=
  match a, b with
  | EmptyString, EmptyString => true
  | String c a', String d b' => if Ascii.eqb c d then str_eqb a' b' else false
  | _, _ => false
  end.

Definition opt_eqb (a b : option string) : bool :=
  match a, b with
  | None, None => true            (* GROUP BY puts NULLs in one group *)
  | Some x, Some y => str_eqb x y
  | _, _ => false
  end.

Definition row_eqb (a b : row) : bool :=
  if str_eqb (r_module a) (r_module b) then
    if str_eqb (r_qualname a) (r_qualname b) then
      if str_eqb (r_args a) (r_args b) then
        if opt_eqb (r_ret a) (r_ret b) then opt_eqb (r_yield a) (r_yield b) else false
      else false
    else false
  else false.

Fixpoint memb (x : row) (l : list row) : bool :=
  match l with
  | [] => false
  | y :: r => if row_eqb x y then true else memb x r
  end.

(* GROUP BY all selected columns = one representative per distinct row *)
Fixpoint dedup_rows (l : list row) : list row :=
  match l with
  | [] => []
  | x :: r => if memb x r then dedup_rows r else x :: dedup_rows r
  end.

Fixpoint nodupb (l : list row) : bool :=
  match l with
  | [] => true
  | x :: r => negb (memb x r) && nodupb r
  end.

Fixpoint mem_str (x : string) (l : list string) : bool :=
  match l with
  | [] => false
  | y :: r => if str_eqb x y then true else mem_str x r
  end.

Fixpoint dedup_str (l : list string) : list string :=
  match l with
  | [] => []
  | x :: r => if mem_str x r then dedup_str r else x :: dedup_str r
  end.

Fixpoint nodup_strb (l : list string) : bool :=
  match l with
  | [] => true
  | x :: r => negb (mem_str x r) && nodup_strb r
  end.

Fixpoint list_str_eqb (a b : list string) : bool :=
  match a, b with
  | [], [] => true
  | x :: a', y :: b' => String.eqb x y && list_str_eqb a' b'
  | _, _ => false
  end.

(* ------------------------------------------------------------------------------------------------ *)
(* the two qualname operators                                                                       *)
(* ------------------------------------------------------------------------------------------------ *)

(* SQLite's built-in LIKE (no ESCAPE, default case_sensitive_like=OFF): `%` any sequence, `_` any one
   character, every other character compared after folding ASCII upper case to lower case.
   Byte-level: for non-ASCII text SQLite's `_` consumes one UTF-8 character, the model one byte. *)
Definition lower (c : ascii) : ascii :=
  let n := N_of_ascii c in
  if (N.leb 65 n && N.leb n 90)%N then ascii_of_N (n + 32) else c.

Definition pct : ascii := "%"%char.
Definition usc : ascii := "_"%char.

Fixpoint like (p s : string) {struct p} : bool :=
  match p with
  | EmptyString => match s with EmptyString => true | String _ _ => false end
  | String c p' =>
      if Ascii.eqb c pct then
        (fix any (s : string) : bool :=
           like p' s || match s with EmptyString => false | String _ s' => any s' end) s
      else
        match s with
        | EmptyString => false
        | String d s' => (Ascii.eqb c usc || Ascii.eqb (lower c) (lower d)) && like p' s'
        end
  end.

(* `qualname LIKE ? || '%'` *)
Definition like_prefix (p q : string) : bool := like (p ++ String pct EmptyString)%string q.

(* `substr(qualname, 1, length(?)) == ?`, read literally *)
Definition exact_prefix (p q : string) : bool := String.eqb (substring 0 (String.length p) q) p.

(* the property's own reading of "starts with p" (case-sensitive, no wildcards); used by the verdicts as the
   property predicate, independently of what the code's operator is *)
Fixpoint starts_withb (p q : string) : bool :=
  match p, q with
  | EmptyString, _ => true
  | String c p', String d q' => Ascii.eqb c d && starts_withb p' q'
  | String _ _, EmptyString => false
  end.

Definition qual_matcher (op : string) : option (string -> string -> bool) :=
  if String.eqb op "LikePrefix" then Some like_prefix
  else if String.eqb op "ExactPrefix" then Some exact_prefix
  else None.

(* ------------------------------------------------------------------------------------------------ *)
(* the shape of the code the model stands for (all read from the generated constants)               *)
(* ------------------------------------------------------------------------------------------------ *)
Definition all_columns : list string :=
  ["module"; "qualname"; "arg_types"; "return_type"; "yield_type"]%string.

Definition query_shape_ok : bool :=
  list_str_eqb query_select_columns all_columns && list_str_eqb query_group_columns all_columns
  && list_str_eqb store_select_columns all_columns && list_str_eqb store_group_columns all_columns
  && String.eqb store_qualname_operator query_qualname_operator
  && String.eqb store_filter_shape "AllRowsPositional".

Definition add_shape_ok : bool :=
  String.eqb store_add_shape "SerialiseThenOneTransaction"
  && String.eqb store_serialise_shape "SkipOnException"
  && list_str_eqb store_table_columns ("created_at"%string :: all_columns)
  && list_str_eqb store_insert_values ("<now>"%string :: all_columns).

Definition store_shape_ok : bool := query_shape_ok && add_shape_ok.

(* ------------------------------------------------------------------------------------------------ *)
(* queries                                                                                          *)
(* ------------------------------------------------------------------------------------------------ *)
Definition where_clause (mt : string -> string -> bool) (m : string) (p : option string) (r : row) : bool :=
  String.eqb (r_module r) m
  && match p with None => true | Some p => mt p (r_qualname r) end.

(* WHERE ... GROUP BY all columns, before LIMIT *)
Definition select_with (mt : string -> string -> bool) (db : list row) (m : string) (p : option string) : list row :=
  dedup_rows (filter (where_clause mt m p) db).

Definition code_matcher : option (string -> string -> bool) :=
  if store_shape_ok then qual_matcher query_qualname_operator else None.

Definition sql_select (db : list row) (m : string) (p : option string) : option (list row) :=
  match code_matcher with
  | Some mt => Some (select_with mt db m p)
  | None => None
  end.

(* Which min(n, d) of the d grouped rows LIMIT keeps is SQLite's choice (ORDER BY date(created_at) over an
   arbitrary group representative), so an answer is *related* to the state rather than computed from it. *)
Definition answer_okb_with (mt : string -> string -> bool) (db : list row) (m : string) (p : option string)
           (n : N) (out : list row) : bool :=
  let D := select_with mt db m p in
  nodupb out && forallb (fun r => memb r D) out
  && N.eqb (N.of_nat (List.length out)) (N.min n (N.of_nat (List.length D))).

Definition filter_answerb (db : list row) (m : string) (p : option string) (n : N) (out : list row) : bool :=
  match code_matcher with
  | Some mt => answer_okb_with mt db m p n out
  | None => false
  end.

Definition nonempty (s : string) : bool := match s with EmptyString => false | String _ _ => true end.

(* SELECT module ... GROUP BY module, then python's `if row[0]` *)
Definition list_modules (db : list row) : list string :=
  let ms := dedup_str (map r_module db) in
  if store_list_modules_drops_falsy then filter nonempty ms else ms.

Definition modules_answerb (db : list row) (ms : list string) : bool :=
  let lm := list_modules db in       (* computed once (vm_compute shares a let, not a term under a lambda) *)
  store_shape_ok && nodup_strb ms
  && forallb (fun m => mem_str m lm) ms
  && forallb (fun m => mem_str m ms) lm.

(* ------------------------------------------------------------------------------------------------ *)
(* operations                                                                                       *)
(* ------------------------------------------------------------------------------------------------ *)
Definition batch := list (option row).      (* None = a trace serialize_traces skips *)

Fixpoint serialisable (b : batch) : list row :=
  match b with
  | [] => []
  | Some r :: t => r :: serialisable t
  | None :: t => serialisable t
  end.

Inductive op :=
| Add (b : batch)                       (* add() returned: one committed transaction *)
| AddAborted (b : batch)                (* add() raised / its process died: the transaction never committed *)
| Reopen                                (* close and reconnect (any connection) *)
| Filter (m : string) (p : option string) (n : N)
| ListModules.

Definition step (db : list row) (o : op) : list row :=
  match o with
  | Add b => db ++ serialisable b
  | AddAborted _ | Reopen | Filter _ _ _ | ListModules => db
  end.

Definition run (ops : list op) : list row := fold_left step ops [].

(* the Add batches of a history, in order *)
Fixpoint added (ops : list op) : list batch :=
  match ops with
  | [] => []
  | Add b :: r => b :: added r
  | _ :: r => added r
  end.
