"""Evaluate a stub's annotations in the stub's OWN namespace (C01, C14): every import line executed on its own in an
empty namespace, generated TypedDict class stubs registered, the target module's own top-level classes added, every
annotation source segment evaluated with eval(), the resulting typing object reified as a Gallina `ty`
(forward references to generated TypedDict classes resolved through the registered class stubs).
Adapted from harness/render_impl.py (C11)."""
import ast
import collections
import collections.abc
import typing
from typing import Any, Union

from harness.common import coq_list, coq_N, coq_str


class TDStub:
    def __init__(self, name, base, total, fields):
        self.name, self.base, self.total, self.fields = name, base, total, fields


class StubEval:
    def __init__(self, text, own_classes, ct):
        """own_classes: {name: class} of the target module's top-level classes"""
        import mypy_extensions
        self.mx = mypy_extensions
        self.text, self.ct = text, ct
        self.tree = ast.parse(text)
        self.ns = {}
        self.imports_ok = True
        self.import_lines = []
        self.tdstubs = []
        self.funcs = []         # (qualname, node)
        for node in self.tree.body:
            if isinstance(node, ast.ImportFrom):
                for alias in node.names:
                    stmt = f"from {'.' * node.level}{node.module} import {alias.name}"
                    self.import_lines.append(stmt)
                    try:
                        exec(stmt, self.ns)
                    except Exception:
                        self.imports_ok = False
            elif isinstance(node, ast.Import):
                for alias in node.names:
                    stmt = f"import {alias.name}"
                    self.import_lines.append(stmt)
                    try:
                        exec(stmt, self.ns)
                    except Exception:
                        self.imports_ok = False
            elif isinstance(node, ast.ClassDef) and (node.bases or node.keywords):
                total = True
                for kw in node.keywords:
                    if kw.arg == "total":
                        total = bool(ast.literal_eval(kw.value))
                base = ast.get_source_segment(text, node.bases[0]) if node.bases else ""
                fields = [(st.target.id, ast.get_source_segment(text, st.annotation))
                          for st in node.body if isinstance(st, ast.AnnAssign)]
                self.tdstubs.append(TDStub(node.name, base, total, fields))
            elif isinstance(node, ast.ClassDef):
                self._collect_class(node, node.name)
            elif isinstance(node, (ast.FunctionDef, ast.AsyncFunctionDef)):
                self.funcs.append((node.name, node))
        self.ns.pop("__builtins__", None)
        for s in self.tdstubs:
            self.ns[s.name] = s
        for n, c in own_classes.items():
            self.ns.setdefault(n, c)
        self.fuel0 = 3 + len(self.tdstubs)

    def _collect_class(self, node, path):
        for st in node.body:
            if isinstance(st, (ast.FunctionDef, ast.AsyncFunctionDef)):
                self.funcs.append((path + "." + st.name, st))
            elif isinstance(st, ast.ClassDef):
                self._collect_class(st, path + "." + st.name)

    # ---- evaluation ----
    def ev(self, src):
        try:
            return True, eval(src, dict(self.ns))
        except Exception:
            return False, None

    def fields_of(self, s, fuel):
        out = []
        for n, src in s.fields:
            ok, obj = self.ev(src)
            if not ok:
                return None
            t = self.reify(obj, fuel)
            if t is None:
                return None
            out.append(f"({coq_str(n)}, {t})")
        return coq_list(out)

    def resolve_fwd(self, name, fuel):
        s = self.ns.get(name)
        if not isinstance(s, TDStub):
            return None
        b = self.ns.get(s.base)
        if b is self.mx.TypedDict:
            own = self.fields_of(s, fuel - 1)
            if own is None:
                return None
            return f"(TTypedDict {own} [])" if s.total else f"(TTypedDict [] {own})"
        if isinstance(b, TDStub) and b.total and self.ns.get(b.base) is self.mx.TypedDict and not s.total:
            req = self.fields_of(b, fuel - 1)
            opt = self.fields_of(s, fuel - 1)
            if req is None or opt is None:
                return None
            return f"(TTypedDict {req} {opt})"
        return None

    def reify(self, t, fuel=None):
        if fuel is None:
            fuel = self.fuel0
        if fuel <= 0:
            return None
        if t is Any:
            return "TAny"
        if t is None:
            t = type(None)
        if isinstance(t, TDStub):
            return self.resolve_fwd(t.name, fuel)
        if isinstance(t, str):
            return self.resolve_fwd(t, fuel)
        if isinstance(t, typing.ForwardRef):
            return self.resolve_fwd(t.__forward_arg__, fuel)
        if t is typing.Callable:
            return "TCallable"
        origin = getattr(t, "__origin__", None)
        args = getattr(t, "__args__", None)
        if origin is not None and args is not None and not isinstance(t, type):
            def rs(xs):
                out = [self.reify(x, fuel) for x in xs]
                return None if any(o is None for o in out) else out
            if origin is tuple:
                if args == () or args == ((),):
                    return "(TTuple [])"
                if len(args) == 2 and args[1] is Ellipsis:
                    r = self.reify(args[0], fuel)
                    return None if r is None else f"(TTupleVar {r})"
                r = rs(args)
                return None if r is None else f"(TTuple {coq_list(r)})"
            r = rs(args)
            if r is None:
                return None
            if origin is Union:
                return f"(TUnion {coq_list(r)})"
            table = {list: ("TList", 1), set: ("TSet", 1), dict: ("TDict", 2),
                     collections.defaultdict: ("TDefaultDict", 2), type: ("TType", 1),
                     collections.abc.Iterator: ("TIterator", 1), collections.abc.Generator: ("TGenerator", 3)}
            if origin in table and table[origin][1] == len(r):
                return f"({table[origin][0]} {' '.join(r)})"
            return None
        if isinstance(t, type):
            return f"(TCls {coq_N(self.ct.of(t))})"
        return None

    def annotation_term(self, node):
        """Gallina `option ty`-ish: (source text, term or None if it does not evaluate / is not a type)"""
        src = ast.get_source_segment(self.text, node)
        ok, obj = self.ev(src)
        if not ok:
            return src, None
        return src, self.reify(obj)

    def functions(self):
        """{qualname: {"params": {name: (src, term|None)}, "return": (src, term|None) | None, "decorators": [...],
                       "async": bool}}"""
        out = {}
        for q, node in self.funcs:
            a = node.args
            params = {}
            for arg in list(a.posonlyargs) + list(a.args) + ([a.vararg] if a.vararg else []) + list(a.kwonlyargs) + \
                    ([a.kwarg] if a.kwarg else []):
                if arg.annotation is not None:
                    params[arg.arg] = self.annotation_term(arg.annotation)
            ret = self.annotation_term(node.returns) if node.returns is not None else None
            out[q] = {"params": params, "return": ret, "async": isinstance(node, ast.AsyncFunctionDef),
                      "decorators": [ast.get_source_segment(self.text, d) for d in node.decorator_list],
                      "all_params": [x.arg for x in list(a.posonlyargs) + list(a.args) + ([a.vararg] if a.vararg else [])
                                     + list(a.kwonlyargs) + ([a.kwarg] if a.kwarg else [])]}
        return out

    def typed_dict_classes(self):
        """[(name, base, total, [(field, term|None)])]"""
        out = []
        for s in self.tdstubs:
            fs = []
            for n, src in s.fields:
                ok, obj = self.ev(src)
                fs.append((n, self.reify(obj) if ok else None))
            out.append((s.name, s.base, s.total, fs))
        return out
