(* Proofs/StubSetMerge.v — C14 (partial): for TypedDict-free types, what the merged type (shrink_types) admits
   depends only on the SET of input types, not on their order or multiplicity. *)
From MT Require Import Types StubSet Infer TypesFacts UnionFacts InferFacts StubSetEquiv StubSetOrder.
From Coq Require Import Lia Sorting.Permutation.

(* ---------- TypedDict-free types ---------- *)
Lemma existsb_false_In {A} (f : A -> bool) l : existsb f l = false -> forall x, In x l -> f x = false.
Proof.
  intros H x Hx. destruct (f x) eqn:E; [|reflexivity].
  assert (existsb f l = true) by (apply existsb_exists; exists x; auto). congruence.
Qed.

Lemma existsb_eq_in {A} (f g : A -> bool) l : (forall x, In x l -> f x = g x) -> existsb f l = existsb g l.
Proof. induction l as [|x r IH]; intros H; [reflexivity|]. cbn [existsb].
  rewrite (H x (or_introl eq_refl)), IH; [reflexivity|]. intros y Hy. apply H. right. exact Hy. Qed.

Lemma tdfree_wf t : has_td t = false -> wf_ty t.
Proof.
  induction t as [ | c | x IH | | x IH | x IH | x IH | k v0 IHk IHv | k v0 IHk IHv | xs IH | x IH
                 | a1 a2 a3 IH1 IH2 IH3 | xs IH | r o IHr IHo | s ] using ty_ind';
    intros H; cbn [has_td wf_ty] in *; auto; try discriminate H.
  - apply orb_false_elim in H. destruct H. split; auto.
  - apply orb_false_elim in H. destruct H. split; auto.
  - apply wf_list_Forall. rewrite Forall_forall in *. intros x Hx. apply IH; [exact Hx|].
    eapply existsb_false_In; eassumption.
  - apply orb_false_elim in H. destruct H as [H H3]. apply orb_false_elim in H. destruct H. auto.
  - apply wf_list_Forall. rewrite Forall_forall in *. intros x Hx. apply IH; [exact Hx|].
    eapply existsb_false_In; eassumption.
Qed.

Lemma tdfree_not_td t : has_td t = false -> is_td t = false.
Proof. destruct t; cbn; intros H; try reflexivity. discriminate H. Qed.

Lemma forallb2_eq_in {A} (f g : A -> A -> bool) xs : forall ys,
  (forall x y, In x xs -> In y ys -> f x y = g x y) -> forallb2 f xs ys = forallb2 g xs ys.
Proof.
  induction xs as [|x xs IH]; intros [|y ys] H; try reflexivity. cbn [forallb2].
  rewrite (H x y) by (left; reflexivity). f_equal. apply IH. intros a b Ha Hb. apply H; right; assumption.
Qed.

(* on TypedDict-free types Python's == IS the set-like equivalence *)
Lemma py_eqb_equivb_tdfree a : forall b, has_td a = false -> has_td b = false -> py_eqb a b = equivb a b.
Proof.
  induction a as [ | c | x IH | | x IH | x IH | x IH | k v0 IHk IHv | k v0 IHk IHv | xs IH | x IH
                 | a1 a2 a3 IH1 IH2 IH3 | xs IH | r o IHr IHo | s ] using ty_ind';
    intros b Ha Hb; destruct b; try reflexivity; cbn [has_td] in Ha, Hb; try discriminate Ha;
    cbn [py_eqb equivb]; try (apply IH; assumption).
  - apply orb_false_elim in Ha, Hb. destruct Ha, Hb. rewrite IHk, IHv by assumption. reflexivity.
  - apply orb_false_elim in Ha, Hb. destruct Ha, Hb. rewrite IHk, IHv by assumption. reflexivity.
  - change (py_eqb (TTuple xs) (TTuple ts) = equivb (TTuple xs) (TTuple ts)).
    rewrite py_eqb_TTuple, equivb_TTuple. apply forallb2_eq_in. intros x y Hx Hy.
    rewrite Forall_forall in IH. apply (IH x Hx); [apply (existsb_false_In _ _ Ha x Hx)|apply (existsb_false_In _ _ Hb y Hy)].
  - apply orb_false_elim in Ha, Hb. destruct Ha as [Ha Ha3], Hb as [Hb Hb3].
    apply orb_false_elim in Ha, Hb. destruct Ha, Hb. rewrite IH1, IH2, IH3 by assumption. reflexivity.
  - change (py_eqb (TUnion xs) (TUnion ts) = equivb (TUnion xs) (TUnion ts)).
    rewrite py_eqb_TUnion, equivb_TUnion. rewrite Forall_forall in IH.
    pose proof (existsb_false_In _ _ Ha) as Fa. pose proof (existsb_false_In _ _ Hb) as Fb.
    f_equal; apply forallb_eq_in; intros z Hz.
    + rewrite (Fa z Hz). cbn [negb andb]. apply existsb_eq_in. intros y Hy. apply (IH z Hz); auto.
    + rewrite (Fb z Hz). cbn [negb andb]. apply existsb_eq_in. intros x Hx. apply (IH x Hx); auto.
Qed.

Lemma py_eqb_refl_tdfree a : has_td a = false -> py_eqb a a = true.
Proof. intros H. rewrite py_eqb_equivb_tdfree by assumption. apply equivb_refl. apply tdfree_wf. exact H. Qed.

Lemma py_eqb_sym_tdfree a b : has_td a = false -> has_td b = false -> py_eqb a b = true -> py_eqb b a = true.
Proof. intros Ha Hb. rewrite !py_eqb_equivb_tdfree by assumption. apply equivb_sym; apply tdfree_wf; assumption. Qed.

Lemma py_eqb_trans_tdfree a b c : has_td a = false -> has_td b = false -> has_td c = false ->
  py_eqb a b = true -> py_eqb b c = true -> py_eqb a c = true.
Proof. intros Ha Hb Hc. rewrite !py_eqb_equivb_tdfree by assumption. apply equivb_trans; apply tdfree_wf; assumption. Qed.

(* ---------- the "all == the first" test does not depend on which member comes first ---------- *)
Lemma all_eq_first_transfer t0 rest t0' rest' :
  Forall (fun t => has_td t = false) (t0 :: rest) ->
  incl (t0' :: rest') (t0 :: rest) ->
  forallb (fun t => py_eqb t t0) rest = true -> forallb (fun t => py_eqb t t0') rest' = true.
Proof.
  intros F I E. rewrite Forall_forall in F. rewrite forallb_forall in E.
  assert (All : forall u, In u (t0 :: rest) -> py_eqb u t0 = true).
  { intros u [<-|Hu]; [apply py_eqb_refl_tdfree; apply F; left; reflexivity|apply E; exact Hu]. }
  assert (H0 : In t0' (t0 :: rest)) by (apply I; left; reflexivity).
  apply forallb_forall. intros u Hu.
  assert (Hu' : In u (t0 :: rest)) by (apply I; right; exact Hu).
  apply (py_eqb_trans_tdfree u t0 t0'); try (apply F; assumption); [apply F; left; reflexivity|apply All; exact Hu'|].
  apply py_eqb_sym_tdfree; [apply F; exact H0|apply F; left; reflexivity|apply All; exact H0].
Qed.

Lemma forallb_incl {A} (f : A -> bool) l l' : incl l' l -> forallb f l = true -> forallb f l' = true.
Proof. intros I H. rewrite forallb_forall in *. auto. Qed.

Lemma forallb_same_set {A} (f : A -> bool) l l' : incl l l' -> incl l' l -> forallb f l = forallb f l'.
Proof.
  intros I1 I2. destruct (forallb f l) eqn:E.
  - symmetry. eapply forallb_incl; eassumption.
  - destruct (forallb f l') eqn:E'; [|reflexivity]. eapply forallb_incl in E'; [|exact I1]. congruence.
Qed.

Lemma incl_filter {A} (f : A -> bool) l l' : incl l l' -> incl (filter f l) (filter f l').
Proof. intros I x Hx. apply filter_In in Hx. destruct Hx. apply filter_In. split; auto. Qed.

Lemma list_arg_tdfree t : has_td t = false -> has_td (list_arg t) = false.
Proof. destruct t; cbn; auto. Qed.

Section MergeOrder.
Variable anyb : bool.
Variable sub : cls -> cls -> bool.
Variable k : nat.
Notation mem := (member anyb sub).

(* the merged type admits the same values whenever the two inputs are the same SET of TypedDict-free types *)
Lemma shrink_set_invariant f1 : forall f2 ts ts' t t',
  Forall (fun t => has_td t = false) ts ->
  incl ts ts' -> incl ts' ts ->
  shrink k f1 ts = Some t -> shrink k f2 ts' = Some t' ->
  forall v, mem v t = mem v t'.
Proof.
  induction f1 as [|f1 IH]; intros f2 ts ts' t t' F I1 I2 S S' v; [cbn in S; discriminate S|].
  destruct f2 as [|f2]; [cbn in S'; discriminate S'|].
  assert (F' : Forall (fun t => has_td t = false) ts').
  { rewrite Forall_forall in *. intros x Hx. apply F. apply I2. exact Hx. }
  cbn [shrink] in S, S'.
  destruct ts as [|t0 rest]; destruct ts' as [|t0' rest'].
  - injection S as <-. injection S' as <-. reflexivity.
  - exfalso. apply (I2 t0'). left. reflexivity.
  - exfalso. apply (I1 t0). left. reflexivity.
  - assert (N1 : forallb is_td (t0 :: rest) = false).
    { cbn [forallb]. rewrite tdfree_not_td; [reflexivity|]. inversion F; assumption. }
    assert (N2 : forallb is_td (t0' :: rest') = false).
    { cbn [forallb]. rewrite tdfree_not_td; [reflexivity|]. inversion F'; assumption. }
    rewrite N1 in S. rewrite N2 in S'.
    destruct (forallb (fun t => py_eqb t t0) rest) eqn:C1.
    + (* all == the first, on both sides *)
      rewrite (all_eq_first_transfer t0 rest t0' rest' F I2 C1) in S'.
      injection S as <-. injection S' as <-.
      assert (E : py_eqb t0' t0 = true).
      { assert (H0 : In t0' (t0 :: rest)) by (apply I2; left; reflexivity).
        destruct H0 as [<-|H0]; [apply py_eqb_refl_tdfree; inversion F; assumption|].
        rewrite forallb_forall in C1. apply C1. exact H0. }
      assert (T0 : has_td t0 = false) by (inversion F; assumption).
      assert (T0' : has_td t0' = false) by (inversion F'; assumption).
      symmetry. apply member_equivb; try (apply tdfree_wf; assumption).
      rewrite <- py_eqb_equivb_tdfree by assumption. exact E.
    + destruct (forallb (fun t => py_eqb t t0') rest') eqn:C1'.
      { rewrite (all_eq_first_transfer t0' rest' t0 rest F' I1 C1') in C1. discriminate C1. }
      rewrite <- (forallb_same_set is_tlist _ _ I1 I2) in S'.
      destruct (forallb is_tlist (t0 :: rest)) eqn:AL.
      * (* all lists: recurse on the element types *)
        destruct (shrink k f1 (filter (fun a => negb (is_tany a)) (map list_arg (t0 :: rest)))) as [T|] eqn:ST;
          [|cbn [option_map] in S; discriminate S].
        destruct (shrink k f2 (filter (fun a => negb (is_tany a)) (map list_arg (t0' :: rest')))) as [T'|] eqn:ST';
          [|cbn [option_map] in S'; discriminate S'].
        cbn [option_map] in S, S'. injection S as <-. injection S' as <-.
        cbn [member]. destruct v; try reflexivity. apply forallb_ext'. intros e.
        apply (IH f2 (filter (fun a => negb (is_tany a)) (map list_arg (t0 :: rest)))
                     (filter (fun a => negb (is_tany a)) (map list_arg (t0' :: rest'))) T T'); try assumption.
        -- rewrite Forall_forall in *. intros y Hy. apply filter_In in Hy. destruct Hy as [Hy _].
           apply in_map_iff in Hy. destruct Hy as [z [<- Hz]]. apply list_arg_tdfree. apply F. exact Hz.
        -- apply incl_filter. apply incl_map. exact I1.
        -- apply incl_filter. apply incl_map. exact I2.
      * (* Union of the members *)
        injection S as <-. injection S' as <-.
        change (td2dict t0 :: map td2dict rest) with (map td2dict (t0 :: rest)).
        change (td2dict t0' :: map td2dict rest') with (map td2dict (t0' :: rest')).
        apply union_mk_set_members.
        -- apply incl_map. exact I1.
        -- apply incl_map. exact I2.
        -- rewrite Forall_forall in *. intros y Hy. apply in_map_iff in Hy. destruct Hy as [z [<- Hz]].
           apply td2dict_wf. apply tdfree_wf. apply F. exact Hz.
        -- rewrite Forall_forall in *. intros y Hy. apply in_map_iff in Hy. destruct Hy as [z [<- Hz]].
           apply td2dict_wf. apply tdfree_wf. apply F'. exact Hz.
Qed.

(* for TypedDict-free inputs the merge is always defined (the fuel of shrink_top suffices; no assert can fail) *)
Lemma depth_In_le x l : In x l -> depth x <= depth_list l.
Proof.
  unfold depth_list. induction l as [|y r IH]; intros H; [destruct H|]. cbn [fold_right].
  destruct H as [->|H]; [lia|]. specialize (IH H). lia.
Qed.

Lemma depth_list_bound l n : (forall x, In x l -> depth x <= n) -> depth_list l <= n.
Proof.
  unfold depth_list. induction l as [|y r IH]; intros H; cbn [fold_right]; [lia|].
  assert (depth y <= n) by (apply H; left; reflexivity).
  assert (fold_right (fun x n => Nat.max (depth x) n) 0 r <= n) by (apply IH; intros x Hx; apply H; right; exact Hx).
  lia.
Qed.

Lemma shrink_tdfree_defined f : forall ts,
  Forall (fun t => has_td t = false) ts -> depth_list ts < f -> exists t, shrink k f ts = Some t.
Proof.
  induction f as [|f IH]; intros ts F D; [lia|]. cbn [shrink].
  destruct ts as [|t0 rest]; [eexists; reflexivity|].
  assert (N1 : forallb is_td (t0 :: rest) = false).
  { cbn [forallb]. rewrite tdfree_not_td; [reflexivity|]. inversion F; assumption. }
  rewrite N1.
  destruct (forallb (fun t => py_eqb t t0) rest); [eexists; reflexivity|].
  destruct (forallb is_tlist (t0 :: rest)) eqn:AL; [|eexists; reflexivity].
  destruct (IH (filter (fun a => negb (is_tany a)) (map list_arg (t0 :: rest)))) as [T ST].
  - rewrite Forall_forall in *. intros y Hy. apply filter_In in Hy. destruct Hy as [Hy _].
    apply in_map_iff in Hy. destruct Hy as [z [<- Hz]]. apply list_arg_tdfree. apply F. exact Hz.
  - rewrite forallb_forall in AL.
    assert (H0 : 1 <= depth_list (t0 :: rest)).
    { pose proof (depth_In_le t0 (t0 :: rest) (or_introl eq_refl)) as H.
      pose proof (AL t0 (or_introl eq_refl)) as L0. destruct t0; try discriminate L0. cbn [depth] in H. lia. }
    assert (H1 : depth_list (filter (fun a => negb (is_tany a)) (map list_arg (t0 :: rest)))
                 <= depth_list (t0 :: rest) - 1).
    { apply depth_list_bound. intros y Hy. apply filter_In in Hy. destruct Hy as [Hy _].
      apply in_map_iff in Hy. destruct Hy as [z [<- Hz]].
      pose proof (depth_In_le z _ Hz) as H. pose proof (AL z Hz) as Lz.
      destruct z; try discriminate Lz. cbn [depth list_arg] in *. lia. }
    lia.
  - rewrite ST. eexists; reflexivity.
Qed.

Theorem shrink_top_tdfree_defined ts :
  Forall (fun t => has_td t = false) ts -> exists t, shrink_top k ts = Some t.
Proof. intros F. unfold shrink_top. apply shrink_tdfree_defined; [exact F|lia]. Qed.

Theorem shrink_top_set_invariant ts ts' t t' :
  Forall (fun t => has_td t = false) ts ->
  incl ts ts' -> incl ts' ts ->
  shrink_top k ts = Some t -> shrink_top k ts' = Some t' ->
  forall v, mem v t = mem v t'.
Proof. unfold shrink_top. apply shrink_set_invariant. Qed.

Theorem shrink_top_perm_invariant ts ts' t t' :
  Forall (fun t => has_td t = false) ts -> Forall wf_ty ts ->
  Permutation ts ts' ->
  shrink_top k ts = Some t -> shrink_top k ts' = Some t' ->
  forall v, mem v t = mem v t'.
Proof.
  intros F _ P. apply shrink_top_set_invariant; [exact F| |]; intros x Hx; eapply Permutation_in; try exact Hx;
    [exact P|apply Permutation_sym; exact P].
Qed.

(* both merges exist and admit the same values *)
Theorem shrink_top_perm_total ts ts' :
  Forall (fun t => has_td t = false) ts -> Permutation ts ts' ->
  exists t t', shrink_top k ts = Some t /\ shrink_top k ts' = Some t' /\ forall v, mem v t = mem v t'.
Proof.
  intros F P.
  assert (F' : Forall (fun t => has_td t = false) ts').
  { rewrite Forall_forall in *. intros x Hx. apply F. eapply Permutation_in; [apply Permutation_sym; exact P|exact Hx]. }
  destruct (shrink_top_tdfree_defined ts F) as [t S]. destruct (shrink_top_tdfree_defined ts' F') as [t' S'].
  exists t, t'. split; [exact S|]. split; [exact S'|].
  apply (shrink_top_perm_invariant ts ts' t t' F); try assumption.
  rewrite Forall_forall in *. intros x Hx. apply tdfree_wf. apply F. exact Hx.
Qed.

End MergeOrder.

(* non-vacuity: three orders/multiplicities of the same set; the results are syntactically different but
   equivalent, and both premises hold *)
Example ex_shrink_top_perm :
  let i := TCls cInt in let s := TCls cStr in
  let ts  := [TList i; TList (TUnion [i; s]); TList TAny; TList s] in
  let ts' := [TList s; TList TAny; TList (TUnion [i; s]); TList i; TList s] in
  let us  := [i; TUnion [s; TCls cNone]; TList i] in
  let us' := [TList i; TUnion [s; TCls cNone]; i; TList i] in
  forallb (fun t => negb (has_td t)) (ts ++ us) = true
  /\ shrink_top 3 ts = Some (TList (TUnion [i; s]))
  /\ shrink_top 3 ts' = Some (TList (TUnion [s; i]))
  /\ shrink_top 3 us = Some (TUnion [i; s; TCls cNone; TList i])
  /\ shrink_top 3 us' = Some (TUnion [TList i; s; TCls cNone; i]).
Proof. vm_compute. repeat split; reflexivity. Qed.
