(* Proofs/MergePermEquiv.v — C14 (C14_merge_full): the merged TYPE ITSELF, TypedDicts included, is the same up to
   equivb (union members as sets, TypedDict fields as finite maps) whatever the order of the inputs.
   The same induction as MergePerm.shrink_rel, with Permutation as the input relation and equivb as the result. *)
From MT Require Import Types StubSet Infer TypesFacts UnionFacts InferFacts StubSetEquiv StubSetOrder StubSetMerge
  InferSound MergePermBase MergePerm.
From Coq Require Import Lia Sorting.Permutation.

Notation keys m := (map fst m) (only parsing).

(* ---------- equivalent types agree on "contains a TypedDict" ---------- *)
Lemma forallb2_has_td (xs : list ty) : forall ys,
  Forall (fun x => forall b, equivb x b = true -> has_td x = has_td b) xs ->
  forallb2 equivb xs ys = true -> existsb has_td xs = existsb has_td ys.
Proof.
  induction xs as [|x xs IHxs]; intros [|y ys] IH E; cbn [forallb2] in E; try discriminate E; [reflexivity|].
  apply andb_prop in E. destruct E as [E1 E2]. inversion IH as [|? ? IHx IHr]; subst.
  cbn [existsb]. rewrite (IHx y E1), (IHxs ys IHr E2). reflexivity.
Qed.

Lemma equivb_has_td a : forall b, equivb a b = true -> has_td a = has_td b.
Proof.
  induction a as [ | c | x IH | | x IH | x IH | x IH | k v0 IHk IHv | k v0 IHk IHv | xs IH | x IH
                 | a1 a2 a3 IH1 IH2 IH3 | xs IH | r o IHr IHo | s ] using ty_ind';
    intros b E;
    destruct b as [ | c' | y | | y | y | y | k' v' | k' v' | ys | y | b1 b2 b3 | ys | r' o' | s' ];
    try (cbn in E; discriminate E); try reflexivity;
    try (cbn [equivb has_td] in *; apply IH; exact E).
  - cbn [equivb has_td] in *. apply andb_prop in E. destruct E as [E1 E2].
    rewrite (IHk _ E1), (IHv _ E2). reflexivity.
  - cbn [equivb has_td] in *. apply andb_prop in E. destruct E as [E1 E2].
    rewrite (IHk _ E1), (IHv _ E2). reflexivity.
  - change (equivb (TTuple xs) (TTuple ys) = true) in E. rewrite equivb_TTuple in E.
    cbn [has_td]. apply forallb2_has_td; assumption.
  - cbn [equivb has_td] in *. apply andb_prop in E. destruct E as [E E3]. apply andb_prop in E. destruct E as [E1 E2].
    rewrite (IH1 _ E1), (IH2 _ E2), (IH3 _ E3). reflexivity.
  - change (equivb (TUnion xs) (TUnion ys) = true) in E. rewrite equivb_TUnion in E.
    apply andb_prop in E. destruct E as [E1 E2]. rewrite forallb_forall in E1, E2. rewrite Forall_forall in IH.
    cbn [has_td]. apply bool_eq_iff; intros H; apply existsb_exists in H; destruct H as [z [Hz Tz]]; apply existsb_exists.
    + specialize (E1 z Hz). apply existsb_exists in E1. destruct E1 as [y [Hy Ezy]].
      exists y. split; [exact Hy|]. rewrite <- (IH z Hz y Ezy). exact Tz.
    + specialize (E2 z Hz). apply existsb_exists in E2. destruct E2 as [x [Hx Exz]].
      exists x. split; [exact Hx|]. rewrite (IH x Hx z Exz). exact Tz.
Qed.

Lemma py_eqb_equivb a b : wf_ty a -> wf_ty b -> py_eqb a b = true -> equivb a b = true.
Proof. intros Wa Wb E. apply (py_eqb_char a b Wa Wb) in E. tauto. Qed.

(* ---------- Union[...]: the deduplicated member list, up to order ---------- *)
Lemma dedup_covers l : forall seen x, In x l ->
  exists y, (In y seen \/ In y (dedup seen l)) /\ (x = y \/ py_eqb x y = true).
Proof.
  induction l as [|t r IH]; intros seen x Hx; [destruct Hx|]. cbn [dedup].
  destruct (negb (has_td t) && existsb (py_eqb t) seen) eqn:D.
  - destruct Hx as [<-|Hx]; [|apply IH; exact Hx].
    apply andb_prop in D. destruct D as [_ D]. apply existsb_exists in D. destruct D as [y [Hy E]].
    exists y. split; [left; exact Hy|right; exact E].
  - destruct Hx as [<-|Hx].
    + exists t. split; [right; left; reflexivity|left; reflexivity].
    + destruct (IH (t :: seen) x Hx) as [y [[[<-|Hy]|Hy] R]].
      * exists t. split; [right; left; reflexivity|exact R].
      * exists y. split; [left; exact Hy|exact R].
      * exists y. split; [right; right; exact Hy|exact R].
Qed.

Lemma dedup_head t r : dedup [] (t :: r) = t :: dedup [t] r.
Proof. cbn [dedup existsb]. rewrite andb_false_r. reflexivity. Qed.

(* every later member is dropped: it is TypedDict-free and == the first *)
Lemma dedup_rest_nil t0 rest :
  dedup [t0] rest = [] <-> (forall u, In u rest -> has_td u = false /\ py_eqb u t0 = true).
Proof.
  induction rest as [|u r IH]; [split; [intros _ u []|reflexivity]|]. cbn [dedup existsb].
  destruct (negb (has_td u) && (py_eqb u t0 || false)) eqn:D.
  - rewrite IH. apply andb_prop in D. destruct D as [D1 D2]. apply negb_true_iff in D1. rewrite orb_false_r in D2.
    split; [intros H x [<-|Hx]; [split; assumption|apply H; exact Hx]|intros H x Hx; apply H; right; exact Hx].
  - split; [intros H; discriminate H|]. intros H. exfalso.
    destruct (H u (or_introl eq_refl)) as [H1 H2]. rewrite H1, H2 in D. discriminate D.
Qed.

Lemma dedup_rest_nil_perm t0 rest t0' rest' :
  Forall wf_ty (t0 :: rest) -> Permutation (t0 :: rest) (t0' :: rest') ->
  dedup [t0] rest = [] -> dedup [t0'] rest' = [].
Proof.
  intros W P H. rewrite dedup_rest_nil in *. rewrite Forall_forall in W.
  assert (W0 : wf_ty t0) by (apply W; left; reflexivity).
  destruct rest as [|t1 r].
  - apply Permutation_length_1_inv in P. injection P as -> ->. intros u [].
  - destruct (H t1 (or_introl eq_refl)) as [T1 E1].
    assert (W1 : wf_ty t1) by (apply W; right; left; reflexivity).
    assert (T0 : has_td t0 = false).
    { rewrite <- T1. symmetry. apply equivb_has_td. apply py_eqb_equivb; assumption. }
    assert (R0 : py_eqb t0 t0 = true).
    { apply (py_eqb_trans t0 t1 t0); auto. apply py_eqb_sym; auto. }
    assert (All : forall u, In u (t0 :: t1 :: r) -> has_td u = false /\ py_eqb u t0 = true).
    { intros u [<-|Hu]; [split; assumption|apply H; exact Hu]. }
    assert (In' : forall u, In u (t0' :: rest') -> In u (t0 :: t1 :: r)).
    { intros u Hu. eapply Permutation_in; [apply Permutation_sym; exact P|exact Hu]. }
    intros u Hu. destruct (All u (In' u (or_intror Hu))) as [Tu Eu]. split; [exact Tu|].
    destruct (All t0' (In' t0' (or_introl eq_refl))) as [_ E0].
    apply (py_eqb_trans u t0 t0'); auto; [apply W; apply In'; right; exact Hu|apply W; apply In'; left; reflexivity|].
    apply py_eqb_sym; auto. apply W. apply In'. left. reflexivity.
Qed.

Lemma dedup_cover_equivb l l' : Forall wf_ty l -> Permutation l l' ->
  forall x, In x (dedup [] l) -> exists y, In y (dedup [] l') /\ equivb x y = true.
Proof.
  intros W P x Hx. rewrite Forall_forall in W.
  assert (Hl : In x l) by (eapply dedup_incl; exact Hx).
  assert (Hl' : In x l') by (eapply Permutation_in; [exact P|exact Hl]).
  destruct (dedup_covers l' [] x Hl') as [y [[[]|Hy] R]]. exists y. split; [exact Hy|].
  assert (Wy : wf_ty y).
  { apply W. eapply Permutation_in; [apply Permutation_sym; exact P|]. eapply dedup_incl. exact Hy. }
  destruct R as [<-|R]; [apply equivb_refl; exact Wy|apply py_eqb_equivb; auto].
Qed.

Lemma union_shape_equivb l l' : Forall wf_ty l -> Permutation l l' ->
  equivb (match dedup [] l with [t] => t | d => TUnion d end)
         (match dedup [] l' with [t] => t | d => TUnion d end) = true.
Proof.
  intros Wl Pl.
  assert (Wl' : Forall wf_ty l').
  { rewrite Forall_forall in *. intros x Hx. apply Wl. eapply Permutation_in; [apply Permutation_sym; exact Pl|exact Hx]. }
  pose proof (dedup_cover_equivb _ _ Wl Pl) as C.
  pose proof (dedup_cover_equivb _ _ Wl' (Permutation_sym Pl)) as C'.
  assert (G : forall d d', (forall x, In x d -> exists y, In y d' /\ equivb x y = true) ->
                           (forall x, In x d' -> exists y, In y d /\ equivb x y = true) ->
                           Forall wf_ty d -> Forall wf_ty d' -> equivb (TUnion d) (TUnion d') = true).
  { intros d d' H H' Wd Wd'. rewrite equivb_TUnion. rewrite Forall_forall in Wd, Wd'.
    apply andb_true_intro; split; apply forallb_forall; intros z Hz; apply existsb_exists.
    - destruct (H z Hz) as [y [Hy E]]. exists y. split; assumption.
    - destruct (H' z Hz) as [x [Hx E]]. exists x. split; [exact Hx|]. apply equivb_sym; auto. }
  pose proof (dedup_wf [] _ Wl) as Wd. pose proof (dedup_wf [] _ Wl') as Wd'.
  destruct l as [|t0 rest]; destruct l' as [|t0' rest'].
  - reflexivity.
  - apply Permutation_nil in Pl. discriminate Pl.
  - apply Permutation_sym in Pl. apply Permutation_nil in Pl. discriminate Pl.
  - rewrite (dedup_head t0 rest), (dedup_head t0' rest') in *.
    destruct (dedup [t0] rest) as [|a1 d1] eqn:D; destruct (dedup [t0'] rest') as [|a1' d1'] eqn:D'.
    + destruct (C t0 (or_introl eq_refl)) as [y [[<-|Hy] E]]; [exact E|destruct Hy].
    + rewrite (dedup_rest_nil_perm t0 rest t0' rest' Wl Pl D) in D'. discriminate D'.
    + rewrite (dedup_rest_nil_perm t0' rest' t0 rest Wl' (Permutation_sym Pl) D') in D. discriminate D.
    + apply G; assumption.
Qed.

Lemma union_mk_perm_equivb ts ts' :
  Forall wf_ty ts -> Permutation ts ts' -> equivb (union_mk ts) (union_mk ts') = true.
Proof.
  intros W P. unfold union_mk. apply union_shape_equivb; [apply flatten_wf; exact W|].
  unfold flatten. apply Permutation_flat_map. exact P.
Qed.

(* ---------- Permutation versions of the map facts ---------- *)
Lemma Permutation_flat_map_pointwise {A B} (f g : A -> list B) l :
  (forall x, In x l -> Permutation (f x) (g x)) -> Permutation (flat_map f l) (flat_map g l).
Proof.
  induction l as [|x r IH]; intros H; [constructor|]. cbn [flat_map]. apply Permutation_app.
  - apply H. left. reflexivity.
  - apply IH. intros y Hy. apply H. right. exact Hy.
Qed.

Lemma perm_keys_flat (m m' : list (string * list ty)) :
  NoDup (keys m) -> NoDup (keys m') -> (forall s, In s (keys m) <-> In s (keys m')) ->
  (forall s, Permutation (lookup_m s m) (lookup_m s m')) -> Permutation (flat_map snd m) (flat_map snd m').
Proof.
  intros ND ND' K L. rewrite (flat_map_snd_keys m ND), (flat_map_snd_keys m' ND').
  apply (Permutation_trans (l' := flat_map (fun s => lookup_m s m') (keys m))).
  - apply Permutation_flat_map_pointwise. intros s _. apply L.
  - apply Permutation_flat_map. apply NoDup_Permutation; assumption.
Qed.

Section PermMaps.
Variables ts ts' : list ty.
Hypothesis W : Forall wf_ty ts.
Hypothesis P : Permutation ts ts'.
Let S := si_perm ts ts' P.

Lemma lookup_required_perm s : Permutation (lookup_m s (required_of ts)) (lookup_m s (required_of ts')).
Proof.
  rewrite !lookup_required, <- (reqb_same s ts ts' W S). destruct (reqb s ts); [|constructor].
  unfold req_vals. apply Permutation_flat_map. exact P.
Qed.

Lemma lookup_optional_perm s : Permutation (lookup_m s (optional_of ts)) (lookup_m s (optional_of ts')).
Proof.
  rewrite !lookup_optional, <- (reqb_same s ts ts' W S). apply Permutation_app.
  - destruct (reqb s ts); [constructor|]. unfold req_vals. apply Permutation_flat_map. exact P.
  - unfold opt_vals. apply Permutation_flat_map. exact P.
Qed.

Lemma all_values_perm :
  Permutation (flat_map snd (required_of ts) ++ flat_map snd (optional_of ts))
              (flat_map snd (required_of ts') ++ flat_map snd (optional_of ts')).
Proof.
  apply Permutation_app; apply perm_keys_flat;
    try apply ND_required'; try apply ND_optional';
    [apply (keys_required_same ts ts' W S)|apply lookup_required_perm
    |apply (keys_optional_same ts ts' W S)|apply lookup_optional_perm].
Qed.
End PermMaps.

(* ---------- the per-key sub-merges, for an arbitrary relation between results ---------- *)
Section MapMRelQ.
Variable Q : ty -> ty -> Prop.
Variable sh : list ty -> option ty.

Definition relQ (a b : option ty) : Prop :=
  match a, b with Some t, Some t' => Q t t' | None, None => True | _, _ => False end.

Definition relQ_fields (a b : option (list (string * ty))) : Prop :=
  match a, b with
  | Some R, Some R' => forall s, relQ (lookup_f s R) (lookup_f s R')
  | None, None => True
  | _, _ => False
  end.

Lemma mapM_relQ m m' : NoDup (keys m) -> NoDup (keys m') -> (forall s, In s (keys m) <-> In s (keys m')) ->
  (forall s, In s (keys m) -> relQ (sh (lookup_m s m)) (sh (lookup_m s m'))) ->
  relQ_fields (mapM (fun e : string * list ty => option_map (pair (fst e)) (sh (snd e))) m)
              (mapM (fun e : string * list ty => option_map (pair (fst e)) (sh (snd e))) m').
Proof.
  intros ND ND' K H.
  destruct (mapM (fun e : string * list ty => option_map (pair (fst e)) (sh (snd e))) m) as [R|] eqn:E;
  destruct (mapM (fun e : string * list ty => option_map (pair (fst e)) (sh (snd e))) m') as [R'|] eqn:E';
    cbn [relQ_fields].
  - intros s. rewrite (mapM_pair_lookup sh m R E s), (mapM_pair_lookup sh m' R' E' s).
    assert (X : existsb (String.eqb s) (keys m) = existsb (String.eqb s) (keys m')).
    { apply bool_eq_iff; rewrite !existsb_eqb_In; apply K. }
    rewrite <- X. destruct (existsb (String.eqb s) (keys m)) eqn:B; [|exact I].
    apply H. apply existsb_eqb_In. exact B.
  - destruct (mapM_pair_None sh m' ND' E') as [s [Hs Ns]]. apply K in Hs.
    destruct (mapM_pair_Some sh m R s ND E Hs) as [T ST]. specialize (H s Hs). rewrite ST, Ns in H. exact H.
  - destruct (mapM_pair_None sh m ND E) as [s [Hs Ns]].
    destruct (mapM_pair_Some sh m' R' s ND' E' (proj1 (K s) Hs)) as [T ST]. specialize (H s Hs). rewrite ST, Ns in H. exact H.
  - exact I.
Qed.
End MapMRelQ.

Notation eqQ := (fun a b : ty => equivb a b = true).

Lemma relQ_opt_equivb a b : relQ eqQ a b <-> opt_equivb a b = true.
Proof. destruct a, b; cbn; split; auto; try discriminate; try tauto. Qed.

(* fields that agree key by key (up to equivb) make equivalent TypedDicts *)
Lemma fsubE_of_lookup R R' : NoDup (keys R) ->
  (forall s, relQ eqQ (lookup_f s R) (lookup_f s R')) -> fsubE R R' = true.
Proof.
  intros ND H. unfold fsubE. apply forallb_forall. intros [s t] Hf. cbn [fst snd].
  specialize (H s). rewrite (lookup_f_NoDup s t R ND Hf) in H.
  destruct (lookup_f s R') as [y|]; [exact H|destruct H].
Qed.

Lemma keys_of_lookup R R' s : (forall s, relQ eqQ (lookup_f s R) (lookup_f s R')) -> In s (keys R) -> In s (keys R').
Proof.
  intros H Hs. specialize (H s). destruct (lookup_f s R') as [t'|] eqn:L'; [eapply lookup_f_Some_key; exact L'|].
  destruct (lookup_f s R) as [t|] eqn:L; [destruct H|]. apply lookup_f_None in L. contradiction.
Qed.

Lemma relQ_sym_eq a b : relQ eqQ a b -> relQ (fun x y : ty => equivb y x = true) b a.
Proof. destruct a, b; cbn; auto. Qed.

Lemma length_of_lookup (R R' : list (string * ty)) : NoDup (keys R) -> NoDup (keys R') ->
  (forall s, In s (keys R) <-> In s (keys R')) -> List.length R = List.length R'.
Proof.
  intros ND ND' K. rewrite <- (map_length fst R), <- (map_length fst R').
  apply Nat.le_antisymm; apply NoDup_incl_length; try assumption; intros s Hs; apply K; exact Hs.
Qed.

Lemma equivb_td_of_lookup R O R' O' :
  NoDup (keys R) -> NoDup (keys R') -> NoDup (keys O) -> NoDup (keys O') ->
  (forall s, In s (keys R) <-> In s (keys R')) -> (forall s, In s (keys O) <-> In s (keys O')) ->
  (forall s, relQ eqQ (lookup_f s R) (lookup_f s R')) -> (forall s, relQ eqQ (lookup_f s O) (lookup_f s O')) ->
  equivb (TTypedDict R O) (TTypedDict R' O') = true.
Proof.
  intros NR NR' NO NO' KR KO HR HO. rewrite equivb_TTypedDict.
  rewrite (length_of_lookup R R' NR NR' KR), (length_of_lookup O O' NO NO' KO), !Nat.eqb_refl.
  rewrite (fsubE_of_lookup R R' NR HR), (fsubE_of_lookup O O' NO HO). reflexivity.
Qed.

(* ---------- THE induction, up to equivb ---------- *)
Section EquivRel.
Variable k : nat.

Lemma shrink_perm_equivb fuel : forall ts ts', Forall wf_ty ts -> Permutation ts ts' ->
  relQ eqQ (shrink k fuel ts) (shrink k fuel ts').
Proof.
  induction fuel as [|fuel IH]; intros ts ts' W P; [exact I|].
  pose proof (si_perm _ _ P) as S.
  pose proof (si_wf _ _ S W) as W'. pose proof (si_incl _ _ S) as [I1 I2].
  cbn [shrink]. destruct ts as [|t0 rest]; destruct ts' as [|t0' rest'].
  - reflexivity.
  - exfalso. apply (I2 t0'). left. reflexivity.
  - exfalso. apply (I1 t0). left. reflexivity.
  - rewrite <- (si_forallb is_td _ _ S). destruct (forallb is_td (t0 :: rest)) eqn:ATD.
    + (* ---- all TypedDicts ---- *)
      set (ts := t0 :: rest) in *. set (ts' := t0' :: rest') in *.
      rewrite (merge_maps_pair ts), (merge_maps_pair ts'). cbn iota beta.
      rewrite <- (required_length_same ts ts' W S), <- (optional_length_same ts ts' W S).
      destruct (Nat.ltb k (List.length (required_of ts) + List.length (optional_of ts))).
      * pose proof (IH _ _ (all_entries_wf ts W) (all_values_perm ts ts' W P)) as X.
        destruct (shrink k fuel (flat_map snd (required_of ts) ++ flat_map snd (optional_of ts))) as [T|];
        destruct (shrink k fuel (flat_map snd (required_of ts') ++ flat_map snd (optional_of ts'))) as [T'|];
          cbn [relQ option_map] in *; exact X.
      * rewrite <- (keys_disjoint_same ts ts' W S).
        destruct (negb (keys_disjoint (required_of ts) (optional_of ts))); [exact I|].
        assert (HR : relQ_fields eqQ
                  (mapM (fun e : string * list ty => option_map (pair (fst e)) (shrink k fuel (snd e))) (required_of ts))
                  (mapM (fun e : string * list ty => option_map (pair (fst e)) (shrink k fuel (snd e))) (required_of ts'))).
        { apply mapM_relQ; [apply ND_required'|apply ND_required'|apply (keys_required_same ts ts' W S)|].
          intros s Hs. apply IH; [|apply (lookup_required_perm ts ts' W P)].
          apply (entries_wf' ts W (s, lookup_m s (required_of ts))). left. apply lookup_m_In. exact Hs. }
        assert (HO : relQ_fields eqQ
                  (mapM (fun e : string * list ty => option_map (pair (fst e)) (shrink k fuel (snd e))) (optional_of ts))
                  (mapM (fun e : string * list ty => option_map (pair (fst e)) (shrink k fuel (snd e))) (optional_of ts'))).
        { apply mapM_relQ; [apply ND_optional'|apply ND_optional'|apply (keys_optional_same ts ts' W S)|].
          intros s Hs. apply IH; [|apply (lookup_optional_perm ts ts' W P)].
          apply (entries_wf' ts W (s, lookup_m s (optional_of ts))). right. apply lookup_m_In. exact Hs. }
        destruct (mapM (fun e : string * list ty => option_map (pair (fst e)) (shrink k fuel (snd e))) (required_of ts)) as [R|] eqn:MR;
        destruct (mapM (fun e : string * list ty => option_map (pair (fst e)) (shrink k fuel (snd e))) (required_of ts')) as [R'|] eqn:MR';
          cbn [relQ_fields] in HR; try contradiction;
        destruct (mapM (fun e : string * list ty => option_map (pair (fst e)) (shrink k fuel (snd e))) (optional_of ts)) as [O|] eqn:MO;
        destruct (mapM (fun e : string * list ty => option_map (pair (fst e)) (shrink k fuel (snd e))) (optional_of ts')) as [O'|] eqn:MO';
          cbn [relQ_fields] in HO; try contradiction; cbn [relQ]; try exact I.
        pose proof (mapM_pair_keys _ _ _ MR) as KR. pose proof (mapM_pair_keys _ _ _ MR') as KR'.
        pose proof (mapM_pair_keys _ _ _ MO) as KO. pose proof (mapM_pair_keys _ _ _ MO') as KO'.
        apply equivb_td_of_lookup; try assumption.
        -- rewrite KR. apply ND_required'.
        -- rewrite KR'. apply ND_required'.
        -- rewrite KO. apply ND_optional'.
        -- rewrite KO'. apply ND_optional'.
        -- intros s. rewrite KR, KR'. apply (keys_required_same ts ts' W S).
        -- intros s. rewrite KO, KO'. apply (keys_optional_same ts ts' W S).
    + destruct (forallb (fun t => py_eqb t t0) rest) eqn:C1.
      * destruct (all_eq_first_si t0 rest t0' rest' W S C1) as [C1' E]. rewrite C1'. cbn [relQ].
        destruct E as [<-|E]; [apply equivb_refl; inversion W; assumption|].
        apply py_eqb_equivb; [inversion W|inversion W'|]; assumption.
      * destruct (forallb (fun t => py_eqb t t0') rest') eqn:C1'.
        { rewrite (all_eq_first_si_back t0 rest t0' rest' W S C1') in C1. discriminate C1. }
        rewrite <- (si_forallb is_tlist _ _ S). destruct (forallb is_tlist (t0 :: rest)) eqn:AL.
        -- assert (P2 : Permutation (filter (fun a => negb (is_tany a)) (map list_arg (t0 :: rest)))
                                     (filter (fun a => negb (is_tany a)) (map list_arg (t0' :: rest')))).
           { rewrite !filter_map_flat_map. apply Permutation_flat_map. exact P. }
           assert (W2 : Forall wf_ty (filter (fun a => negb (is_tany a)) (map list_arg (t0 :: rest)))).
           { rewrite Forall_forall in *. intros y Hy. apply filter_In in Hy. destruct Hy as [Hy _].
             apply in_map_iff in Hy. destruct Hy as [z [<- Hz]]. apply list_arg_wf. apply W. exact Hz. }
           pose proof (IH _ _ W2 P2) as X.
           destruct (shrink k fuel (filter (fun a => negb (is_tany a)) (map list_arg (t0 :: rest)))) as [T|];
           destruct (shrink k fuel (filter (fun a => negb (is_tany a)) (map list_arg (t0' :: rest')))) as [T'|];
             cbn [relQ option_map] in *; exact X.
        -- cbn [relQ].
           change (td2dict t0 :: map td2dict rest) with (map td2dict (t0 :: rest)).
           change (td2dict t0' :: map td2dict rest') with (map td2dict (t0' :: rest')).
           apply union_mk_perm_equivb; [|apply Permutation_map; exact P].
           rewrite Forall_forall in *. intros y Hy. apply in_map_iff in Hy. destruct Hy as [z [<- Hz]].
           apply td2dict_wf. apply W. exact Hz.
Qed.
End EquivRel.

(* C14_merge_full, as stated in Props/C14.v *)
Theorem merge_perm_equivb :
  forall k ts ts', Forall wf_ty ts -> Permutation ts ts' ->
    opt_equivb (shrink_top k ts) (shrink_top k ts') = true.
Proof.
  intros k ts ts' W P. apply relQ_opt_equivb. unfold shrink_top.
  rewrite <- (si_depth _ _ (si_perm _ _ P)). apply shrink_perm_equivb; assumption.
Qed.

(* the same for Union[...] alone *)
Theorem union_mk_perm_equiv :
  forall ts ts', Forall wf_ty ts -> Permutation ts ts' -> equivb (union_mk ts) (union_mk ts') = true.
Proof. exact union_mk_perm_equivb. Qed.

(* up to equivb MULTIPLICITY is not immaterial even outside the finding class, on an exotic input (an empty Union
   among the inputs: Union[x] collapses to x, Union[x, x] with an identity-hashed x does not); the membership-level
   theorem merge_dup_members is unaffected (both types admit the same values) *)
Example ex_dup_equivb_exotic :
  let x := TDefaultDict (TCls cStr) (TTypedDict [("a"%string, TCls cInt)] []) in
  kf_td_under_union x = false /\ kf_td_under_union (TUnion []) = false
  /\ shrink_top 2 [x; TUnion []] = Some x /\ shrink_top 2 [x; x; TUnion []] = Some (TUnion [x; x])
  /\ equivb x (TUnion [x; x]) = false.
Proof. vm_compute. repeat split; reflexivity. Qed.

Example ex_merge_perm_equivb :
  let i := TCls cInt in let s := TCls cStr in
  let a := TTypedDict [("a"%string, i)] [] in
  let b := TTypedDict [("b"%string, TUnion [a; i])] [("a"%string, s)] in
  let c := TList (TUnion [a; i]) in
  Permutation [a; b; c] [c; b; a]
  /\ shrink_top 2 [a; b; c] <> shrink_top 2 [c; b; a]
  /\ opt_equivb (shrink_top 2 [a; b; c]) (shrink_top 2 [c; b; a]) = true
  /\ shrink_top 2 [a; b] <> shrink_top 2 [b; a]
  /\ opt_equivb (shrink_top 2 [a; b]) (shrink_top 2 [b; a]) = true
  /\ shrink_top 2 [a; b] <> None.
Proof.
  cbv zeta. split; [exact (Permutation_rev [_; _; _])|]. vm_compute. repeat split; try reflexivity; discriminate.
Qed.

Print Assumptions merge_perm_equivb.
Print Assumptions union_mk_perm_equiv.
