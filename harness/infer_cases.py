"""Case stream shared by C04/C05/C06: (k, values, type returned by /repo's get_type+shrink_types)."""
import random

from harness import common
from harness.valgen import ValGen

KS = [0, 1, 2, 3, 10, 200]

HEADER = """From MT Require Import InferCases.
Definition h : hierarchy := %s.
"""


def impl_infer(vs, k):
    from monkeytype.typing import get_type, shrink_types
    return shrink_types([get_type(v, k) for v in vs], k)


def nontrivial(vs):
    """>= 2 values, at least one container, not all values' reifications equal."""
    import collections
    if len(vs) < 2:
        return False
    if not any(type(v) in (list, set, tuple, dict, collections.defaultdict) for v in vs):
        return False
    return True


def small_scope(ct):
    """Exhaustive: all multisets of size 1..3 over a 7-element alphabet of small values, k in {0,1,2}."""
    import itertools
    from harness import fxclasses as fx
    alpha = [1, "s", None, fx.B(), [], [1], {"a": 1}, {"a": "s", "b": 1}, {1: 2}, (1, "s"), [{"a": 1}], {"a": {"b": 1}}]
    for n in (1, 2, 3):
        for combo in itertools.combinations_with_replacement(range(len(alpha)), n):
            for k in (0, 1, 2):
                yield k, [alpha[i] for i in combo]


def nested_td_merges(rnd, n):
    """Second-level merges: every value is a list (or dict-of / tuple-of) of small str-keyed dicts with overlapping key
    sets, so per-value inference already merges TypedDicts (producing optional fields) and the merge across values
    then meets TypedDicts that carry optional fields, overflow the limit only together, or disagree on value types."""
    import collections
    keys = ["a", "b", "c", "d"]
    atoms = [1, "x", None, 2.5, [1], {"q": 1}]
    out = []
    for _ in range(n):
        def small_dict():
            ks = rnd.sample(keys, rnd.choice([1, 1, 2, 2, 3]))
            return {k: rnd.choice(atoms) for k in ks}
        def group():
            return [small_dict() for _ in range(rnd.choice([1, 2, 2, 3]))]
        ngroups = rnd.choice([1, 2, 2, 3])
        wrap = rnd.choice(["list", "list", "list", "dictval", "tuple", "ddict", "listlist"])
        vs = []
        for _ in range(ngroups):
            g = group()
            vs.append({"list": g, "dictval": {"k": g}, "tuple": (g, 1), "ddict": collections.defaultdict(int, {1: g}),
                       "listlist": [g]}[wrap])
        if rnd.random() < 0.3:
            vs.append(rnd.choice([None, [], 1, [{}]]))
        out.append((rnd.choice([1, 2, 2, 3, 3, 10]), vs))
    return out


def str_subclass_keys(rnd, n):
    """Dicts whose keys are instances of a str SUBCLASS and which are too large for a TypedDict (len > k): the key type
    is the subclass, never `str`.  (Small such dicts become TypedDicts in the implementation; the model's values have
    no str-subclass instances with content, so only the over-the-limit shape is in scope.)"""
    from harness import fxclasses as fx
    names = ["a", "b", "c", "d", "e"]
    atoms = [1, "x", None, 2.5, [1]]
    out = []
    for _ in range(n):
        k = rnd.choice([0, 0, 1, 2])
        def big():
            ks = rnd.sample(names, min(len(names), k + rnd.choice([1, 2, 3])))
            sub = rnd.random() < 0.8
            return {(fx.MyStr(x) if sub else x): rnd.choice(atoms) for x in ks}
        wrap = rnd.choice(["plain", "plain", "list", "tuple", "dictval"])
        vs = []
        for _ in range(rnd.choice([1, 2, 3])):
            d = big()
            vs.append({"plain": d, "list": [d], "tuple": (d, 1), "dictval": {1: d}}[wrap])
        out.append((k, vs))
    return out


def lying_keys(rnd, n):
    """Small dicts (within the limit) with a key that only CLAIMS to be a str through __class__: not a TypedDict."""
    from harness import fxclasses as fx
    out = []
    for _ in range(n):
        k = rnd.choice([1, 2, 3, 10])
        size = rnd.randrange(1, min(k, 3) + 1)
        names = rnd.sample(["a", "b", "c", "d"], size)
        nfake = rnd.choice([1, 1, size])
        d = {}
        for i, x in enumerate(names):
            d[fx.FakeStr(x) if i < nfake else x] = rnd.choice([1, "x", None, [1]])
        wrap = rnd.choice(["plain", "plain", "list", "pair"])
        out.append((k, {"plain": [d], "list": [[d]], "pair": [d, {"a": 1}]}[wrap]))
    return out


def reserved_keys(rnd, n):
    """Small str-keyed dicts whose keys are words that mean something to the functions that BUILD a TypedDict (keyword
    parameters of mypy_extensions.TypedDict and of type construction): they are keys like any other."""
    words = ["total", "cls", "_typename", "_fields", "fields", "self", "name", "bases", "ns", "typename", "a"]
    out = []
    for _ in range(n):
        k = rnd.choice([2, 3, 10])
        ks = rnd.sample(words, rnd.randrange(1, min(k, 3) + 1))
        d = {x: rnd.choice([1, "s", None, True]) for x in ks}
        wrap = rnd.choice(["plain", "plain", "list", "pair"])
        out.append((k, {"plain": [d], "list": [[d, dict(d)]], "pair": [d, {ks[0]: 2.5}]}[wrap]))
    return out


def long_lists(rnd, n):
    """Lists of a hundred elements and more (exactly 100, 101, 150), alone and merged with short lists of another type"""
    out = []
    for _ in range(n):
        ln = rnd.choice([99, 100, 101, 150])
        kind = rnd.choice(["str", "int", "mixed", "dicts"])
        big = {"str": [f"s{i}" for i in range(ln)], "int": list(range(ln)), "mixed": [i if i % 7 else str(i) for i in range(ln)],
               "dicts": [{"a": i} for i in range(ln)]}[kind]
        other = rnd.choice([[1], ["x"], [], [None], [[1]]])
        vs = rnd.choice([[big], [big, other], [other, big], [[big, other]], [{"k": big}, {"k": other}]])
        out.append((rnd.choice([0, 1, 3]), vs))
    return out


def subset_typed_dicts(rnd, n):
    """str-keyed dicts whose key sets are in a subset relation, sitting DIRECTLY in a tuple / under a non-str dict key, the
    larger one first or last"""
    out = []
    for _ in range(n):
        big = {"a": 1, "b": 2, "c": "x"}
        ks = rnd.sample(["a", "b", "c"], rnd.choice([1, 2]))
        small = {x: big[x] for x in ks}
        pair = [big, small] if rnd.random() < 0.5 else [small, big]
        wrap = rnd.choice(["tuple", "tuple", "intkey", "tuple2"])
        vs = [{"tuple": (d,), "intkey": {1: d}, "tuple2": (1, d)}[wrap] for d in pair]
        out.append((rnd.choice([3, 10]), vs))
    return out


def empty_with_dicts(rnd, n):
    """An EMPTY dict at a position that also sees small str-keyed dicts: the empty dict is never a TypedDict, and it must
    stay admitted by whatever the merge produces"""
    out = []
    for _ in range(n):
        k = rnd.choice([1, 2, 3, 10])
        d = {x: rnd.choice([1, "s", None]) for x in rnd.sample(["a", "b", "c"], rnd.randrange(1, min(k, 3) + 1))}
        d2 = dict(d)
        shape = rnd.choice(["top", "top_rev", "list", "field", "tuple", "twice", "lists", "lists_rev", "nested_lists", "list_of_lists"])
        vs = {"top": [{}, d], "top_rev": [d, {}], "list": [[{}, d]], "field": [{"f": {}}, {"f": d}], "tuple": [({},), (d,)],
              "twice": [{}, d, d2, {}],
              # one list holds only empty dicts, another only str-keyed ones (two calls, or two elements of one list)
              "lists": [[{}], [d]], "lists_rev": [[d], [{}, {}]], "nested_lists": [[[{}]], [[d]]], "list_of_lists": [[[{}], [d]]]}[shape]
        out.append((k, vs))
    return out


def equal_hashables(rnd, n):
    """Sets / dict keys holding values that compare (and hash) equal but have different classes - 1, True, 1.0 and
    tuples of them - typed one after the other in one process: any memoisation keyed by equality shows up."""
    alts = [[1, True, 1.0], [0, False, 0.0], [(1, 2), (True, 2), (1.0, 2), (1, 2.0)], [((1,), "a"), ((True,), "a"), ((1.0,), "a")],
            [(0, (1, 0)), (False, (True, 0)), (0.0, (1, False))]]
    out = []
    for _ in range(n):
        fam = rnd.choice(alts)
        order = rnd.sample(fam, len(fam))
        k = rnd.choice([0, 2])
        shape = rnd.choice(["set", "set", "set_in_list", "dictkey", "tupleset"])
        for x in order:     # consecutive cases: the same equal value, a different class each time
            v = {"set": {x}, "set_in_list": [{x}, {x, "s"}], "dictkey": {x: 1}, "tupleset": ({x}, 1)}[shape]
            out.append((k, [v]))
        out.append((k, [{"set": {x}, "set_in_list": [{x}], "dictkey": {x: 1}, "tupleset": ({x}, 1)}[shape] for x in order[:2]]))
    return out


async def _agen():
    yield 1


def runtime_objects(rnd, n):
    """Objects of the interpreter's own classes that merely resemble something the inference has a rule for: an async
    generator object is not a generator (and not an Iterator); alone, nested, next to real generators"""
    import types as _types

    class _Slotted:
        __slots__ = ("x",)
    out = []
    for _ in range(n):
        a = _agen()
        g = (i for i in range(2))
        vs = rnd.choice([[a], [[a]], [a, 1], [(a, 1)], [{"k": a}], [a, g], [{a}], [[a], [g]]])
        out.append((rnd.choice([0, 3]), vs))
        # attribute descriptors are not callables; a mappingproxy is not a dict (with str keys it must not become a TypedDict)
        d = rnd.choice([int.real, _Slotted.x, _types.MappingProxyType({"a": 1}), _types.MappingProxyType({}), _Slotted.__dict__])
        vs = rnd.choice([[d], [[d]], [d, len], [(d, 1)], [{"k": d}], [d, {"a": 1}], [[d], [{"a": 1}]]])
        out.append((rnd.choice([0, 3]), vs))
    return out


def very_long_lists(rnd, n):
    """Lists well beyond a thousand elements whose LAST elements differ from all the earlier ones (another class, a dict
    lacking a key the earlier ones have): every element counts, however long the list"""
    out = []
    for _ in range(n):
        ln = rnd.choice([1024, 1025, 1030, 2050])
        kind = rnd.choice(["late_str", "late_missing_key", "late_none"])
        if kind == "late_str":
            big = list(range(ln)) + ["s"]
        elif kind == "late_none":
            big = [f"s{i}" for i in range(ln)] + [None, None]
        else:
            big = [{"name": "n", "id": i % 7} for i in range(ln)] + [{"id": 1} for _ in range(3)]
        out.append((rnd.choice([0, 3]), rnd.choice([[big], [big, []], [{"k": big}]])))
    return out


def generate(seed, n_random, with_small_scope, extra_cases=()):
    """Returns (ct, cases) with cases = list of dict(k, vs, impl, term, nontrivial)."""
    ct = common.ClassTable()
    rnd = random.Random(seed)
    g = ValGen(rnd)
    raw = list(extra_cases)
    if with_small_scope:
        raw.extend(small_scope(ct))
    raw.extend(nested_td_merges(rnd, max(200, n_random // 3)))
    raw.extend(str_subclass_keys(rnd, max(60, n_random // 20)))
    raw.extend(equal_hashables(rnd, max(30, n_random // 40)))
    raw.extend(lying_keys(rnd, max(30, n_random // 40)))
    raw.extend(reserved_keys(rnd, max(40, n_random // 30)))
    raw.extend(long_lists(rnd, max(12, n_random // 100)))
    raw.extend(empty_with_dicts(rnd, max(30, n_random // 40)))
    raw.extend(subset_typed_dicts(rnd, max(30, n_random // 40)))
    raw.extend(runtime_objects(rnd, max(16, n_random // 100)))
    raw.extend(very_long_lists(rnd, max(6, n_random // 400)))
    for i in range(n_random):
        k = rnd.choice(KS)
        raw.append((k, g.values()))
    cases = []
    for k, vs in raw:
        try:
            impl = impl_infer(vs, k)
            impl_term = common.reify_type(impl, ct)
            err = None
        except Exception as e:   # the implementation raised: the property says inference never errors
            impl_term = 'TFwd "?raised"%string'
            err = f"{type(e).__name__}: {e}"
        vterms = [common.reify_value(v, ct) for v in vs]
        term = f"ICase {k} {common.coq_list(vterms)} ({impl_term})"
        cases.append({"k": k, "vs": vs, "vs_repr": repr(vs)[:400], "impl": impl_term, "term": term,
                      "nontrivial": nontrivial(vs), "error": err})
    return ct, cases


def distribution(cases):
    import collections
    d = collections.Counter()
    for c in cases:
        d[f"k={c['k']}"] += 1
        d[f"n_values={len(c['vs'])}"] += 1
        t = c["impl"]
        for tag in ("TTypedDict", "TUnion", "TList", "TDict", "TDefaultDict", "TTuple", "TSet", "TType", "TCallable", "TIterator", "TAny"):
            if tag in t:
                d["impl_has_" + tag] += 1
        if c["error"]:
            d["impl_raised"] += 1
    return dict(sorted(d.items()))
