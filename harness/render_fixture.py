"""C11 fixture package: modules whose names are dotted or textual suffixes of one another, nested classes,
a class named like its module, names containing the texts the renderer substitutes globally.
`write(dir)` creates the package; `POOL` is the static class pool (module, qualname) shared by the case
generator (parent process) and the implementation runner (child process)."""
import os

# every module can be the target module of a case: each defines the same functions / methods
FUNCS = '''
import functools


def z0():
    return None


def p3(a, /, *rest, k=3):
    return None


def p5(a, /, b, *rest, k=3, **kw):
    return None


def f0(a):
    return None


def f1(a, b=None):
    return None


def f2(a, b, c=3):
    return None


def g3(a, b, c):
    return None


def a_function_with_a_rather_long_name_so_that_the_signature_has_to_be_wrapped_at_120_columns(first_parameter, second_parameter=None):
    return None


class K:
    def m0(self, a):
        return None

    def m1(self, a, b=None):
        return None

    @functools.cached_property
    def cp0(self):
        return None
'''

# name -> (params [(name, default kind 0 none / 1 None / 2 other)], has_self)
FUNC_SHAPES = {
    "z0": ([], False),                  # no parameters at all: only the return annotation can ask for imports
    "f0": ([("a", 0)], False),
    "f1": ([("a", 0), ("b", 1)], False),
    "f2": ([("a", 0), ("b", 0), ("c", 2)], False),
    "g3": ([("a", 0), ("b", 0), ("c", 0)], False),
    "a_function_with_a_rather_long_name_so_that_the_signature_has_to_be_wrapped_at_120_columns":
        ([("first_parameter", 0), ("second_parameter", 1)], False),
    "K.m0": ([("self", 0), ("a", 0)], True),
    "K.m1": ([("self", 0), ("a", 0), ("b", 1)], True),
    # a functools.cached_property method: MonkeyType (without Django) knows no such decorator, it is a plain method
    "K.cp0": ([("self", 0)], True),
    # parameter kinds other than positional-or-keyword are encoded as 10 * kind + default kind (1 positional-only,
    # 2 *args, 3 keyword-only, 4 **kwargs); the text-level model does not render them (C12's model does): for these
    # functions only the implementation's own stub is parsed, evaluated and judged
    "p3": ([("a", 10), ("rest", 20), ("k", 32)], False),
    "p5": ([("a", 10), ("b", 0), ("rest", 20), ("k", 32), ("kw", 40)], False),
}
UNMODELLED = {"p3", "p5"}
LONG = "a_function_with_a_rather_long_name_so_that_the_signature_has_to_be_wrapped_at_120_columns"

MODULES = {
    "utils": "class A:\n    pass\n\n\nclass utils:\n    class Inner:\n        pass\n\n\n"
             "class Outer:\n    class Inner:\n        class Deep:\n            pass\n",
    "pkg": "class P:\n    pass\n",
    "pkg.utils": "class B:\n    pass\n\n\nclass C:\n    pass\n\n\nclass Outer:\n    pass\n",
    "foo": "class Baz:\n    pass\n\n\nclass Other:\n    pass\n\n\nclass MyNoneTypeX:\n    pass\n",
    # barfoo.foo is a CLASS named like the module foo, with a nested class: `barfoo.foo.Inner` must become `foo.Inner`,
    # never `Inner`, also when module foo is stripped in the same signature
    "barfoo": "class Baz:\n    pass\n\n\nclass Qux:\n    pass\n\n\nclass foo:\n    class Inner:\n        pass\n",
    "mytyping": "class Q:\n    pass\n",
    # a user module whose name starts with an underscore (only `_io` is renamed by the import block)
    "_impl": "class Handle:\n    pass\n",
    # user generic classes nested in a class; subscripted aliases of them (ALIASES) are rendered through repr()
    "shapes": "from typing import Generic, TypeVar\n\nT = TypeVar('T')\nU = TypeVar('U')\n\n\nclass Registry:\n"
              "    class Entry(Generic[T]):\n        pass\n\n    class Pair(Generic[T, U]):\n        pass\n",
    # a three-level chain of packages, each level with a class of its own
    "zed": "class Z:\n    pass\n",
    "zed.a": "class ZA:\n    pass\n",
    "zed.a.b": "class ZAB:\n    pass\n",
    # a module whose dotted path has a component called `typing`
    "zed.typing": "class Shape:\n    pass\n",
    # names of one module that differ only in leading underscores
    "tree": "class Node:\n    pass\n\n\nclass _Node:\n    pass\n\n\nclass Leaf:\n    pass\n\n\nclass _Leaf:\n    pass\n\n\n"
            "class __Tree:\n    pass\n\n\nclass Tree:\n    pass\n",
}

# the class pool; order fixes the class numbering (>= 16 in order of first registration)
POOL = [
    ("utils", "A"), ("utils", "utils"), ("utils", "utils.Inner"), ("utils", "Outer"), ("utils", "Outer.Inner"),
    ("utils", "Outer.Inner.Deep"), ("utils", "K"),
    ("pkg", "P"), ("pkg", "K"),
    ("pkg.utils", "B"), ("pkg.utils", "C"), ("pkg.utils", "Outer"), ("pkg.utils", "K"),
    ("foo", "Baz"), ("foo", "Other"), ("foo", "MyNoneTypeX"), ("foo", "K"),
    ("barfoo", "Baz"), ("barfoo", "Qux"), ("barfoo", "K"),
    ("mytyping", "Q"), ("mytyping", "K"),
    ("_io", "StringIO"), ("_io", "BytesIO"),
    ("builtins", "int"), ("builtins", "str"), ("builtins", "bool"), ("builtins", "float"), ("builtins", "bytes"),
    ("builtins", "NoneType"),
    # appended in wave 3 (indices above stay as they were)
    ("barfoo", "foo"), ("barfoo", "foo.Inner"),
    ("_impl", "Handle"), ("_impl", "K"),
    ("_thread", "RLock"), ("_struct", "Struct"), ("_csv", "Dialect"), ("_random", "Random"), ("_queue", "SimpleQueue"),
    ("shapes", "Registry"), ("shapes", "Registry.Entry"), ("shapes", "Registry.Pair"), ("shapes", "K"),
    ("zed", "Z"), ("zed", "K"), ("zed.a", "ZA"), ("zed.a", "K"), ("zed.a.b", "ZAB"), ("zed.a.b", "K"),
    ("zed.typing", "Shape"), ("zed.typing", "K"),
    ("tree", "Node"), ("tree", "_Node"), ("tree", "Leaf"), ("tree", "_Leaf"), ("tree", "__Tree"), ("tree", "Tree"), ("tree", "K"),
    # a class of the PUBLIC module io next to the `_io` classes (both end up in `from io import ...` lines)
    ("io", "UnsupportedOperation"),
]
TARGETS = list(MODULES)
# standard-library modules whose name starts with an underscore (types of threading.RLock(), struct.Struct(...), ...)
STDLIB_UNDERSCORE = ["_io", "_thread", "_struct", "_csv", "_random", "_queue", "io"]

# subscripted user generics: (module, qualname of the nested generic class, builtin argument names).  In the class table
# such an alias is a pseudo class whose qualname is the alias text ("Registry.Entry[int]"): that is how repr() prints it,
# and its import root is still the outermost class.
ALIASES = [("shapes", "Registry.Entry", ["int"]), ("shapes", "Registry.Entry", ["str"]),
           ("shapes", "Registry.Pair", ["int", "str"])]


def alias_text(i: int) -> str:
    m, q, args = ALIASES[i]
    return f"{m}.{q}[{', '.join(args)}]"


def resolve_alias(i: int):
    import builtins
    m, q, args = ALIASES[i]
    origin = resolve(m, q)
    params = tuple(getattr(builtins, a) for a in args)
    return origin[params if len(params) > 1 else params[0]]


def write(root: str) -> None:
    for mod, body in MODULES.items():
        parts = mod.split(".")
        if any(other.startswith(mod + ".") for other in MODULES):
            path = os.path.join(root, *parts, "__init__.py")
        else:
            path = os.path.join(root, *parts) + ".py"
        os.makedirs(os.path.dirname(path), exist_ok=True)
        with open(path, "w") as f:
            f.write(body + FUNCS)


def resolve(mod: str, qualname: str):
    """The live class object of a pool entry (child process only; the fixture must be importable)."""
    import importlib
    if (mod, qualname) == ("builtins", "NoneType"):
        return type(None)
    obj = importlib.import_module(mod)
    for part in qualname.split("."):
        obj = getattr(obj, part)
    return obj
