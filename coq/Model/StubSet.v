(* Model/StubSet.v — C14: what "the same stub up to the order of union members" means, and the order-insensitive
   parts of stub generation.  Executable definitions only. *)
From MT Require Export Types.
From Coq Require Import Sorting.Permutation.
Open Scope list_scope.

(* set-like equivalence of types: union members compared as SETS (order and multiplicity ignored), TypedDict
   fields as finite maps, everything else structurally *)
Fixpoint equivb (a b : ty) {struct a} : bool :=
  let fix leq (xs ys : list ty) : bool :=
      match xs, ys with
      | [], [] => true
      | x :: xs', y :: ys' => equivb x y && leq xs' ys'
      | _, _ => false end in
  let fix fsub (xs : list (string * ty)) (ys : list (string * ty)) : bool :=
      match xs with
      | [] => true
      | f :: xs' => match lookup_f (fst f) ys with
                    | Some y => equivb (snd f) y | None => false end && fsub xs' ys end in
  match a, b with
  | TAny, TAny => true
  | TCls c, TCls d => N.eqb c d
  | TType x, TType y => equivb x y
  | TCallable, TCallable => true
  | TList x, TList y => equivb x y
  | TSet x, TSet y => equivb x y
  | TIterator x, TIterator y => equivb x y
  | TTupleVar x, TTupleVar y => equivb x y
  | TDict k v, TDict k' v' => equivb k k' && equivb v v'
  | TDefaultDict k v, TDefaultDict k' v' => equivb k k' && equivb v v'
  | TTuple xs, TTuple ys => leq xs ys
  | TGenerator a1 a2 a3, TGenerator b1 b2 b3 => equivb a1 b1 && equivb a2 b2 && equivb a3 b3
  | TUnion xs, TUnion ys =>
      (fix sub1 (l : list ty) : bool :=
         match l with [] => true | x :: r => existsb (equivb x) ys && sub1 r end) xs
      && (fix sub2 (l : list ty) : bool :=
            match l with [] => true
            | y :: r => (fix ex (l2 : list ty) : bool :=
                           match l2 with [] => false | x :: r2 => equivb x y || ex r2 end) xs && sub2 r end) ys
  | TTypedDict r o, TTypedDict r' o' =>
      Nat.eqb (List.length r) (List.length r') && fsub r r'
      && Nat.eqb (List.length o) (List.length o') && fsub o o'
  | TFwd s, TFwd s' => String.eqb s s'
  | _, _ => false
  end.

Definition opt_equivb (a b : option ty) : bool :=
  match a, b with Some x, Some y => equivb x y | None, None => true | _, _ => false end.

(* ---- the order-insensitive skeleton of stub generation ----
   rows -> set of distinct rows (GROUP BY / Python set of traces) -> per function and position, the set of types
   -> merged type; functions and classes are emitted sorted by name. *)
Section Skeleton.
Context {K : Type} (keyb : K -> K -> bool).

(* distinct elements, first occurrences kept *)
Fixpoint nodupb (l : list K) : list K :=
  match l with
  | [] => []
  | x :: r => if existsb (keyb x) r then nodupb r else x :: nodupb r
  end.

(* set equality of two lists *)
Definition same_set (a b : list K) : bool :=
  forallb (fun x => existsb (keyb x) b) a && forallb (fun y => existsb (keyb y) a) b.
End Skeleton.

(* insertion sort by a key order: ModuleStub/ClassStub render their members sorted by name *)
Section Sort.
Context {A : Type} (leb : A -> A -> bool).
Fixpoint insert (x : A) (l : list A) : list A :=
  match l with [] => [x] | y :: r => if leb x y then x :: y :: r else y :: insert x r end.
Fixpoint isort (l : list A) : list A := match l with [] => [] | x :: r => insert x (isort r) end.
End Sort.
