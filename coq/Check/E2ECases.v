(* Check/E2ECases.v — C01 verdict: every value the program observed at a position belongs to the type that the
   annotation of the emitted stub denotes (annotation evaluated in the stub's own namespace by the harness). *)
From MT Require Export Types Common.
Open Scope string_scope.

Inductive pkind := PParam | PReturn | PGen.      (* PGen: the function yielded at least once *)
Record epos := EPos { e_name : string; e_kind : pkind; e_ty : ty; e_vals : list value; e_yields : list value }.
Record e2ecase := E2ECase { e_k : nat; e_imports_ok : bool; e_hidden : bool; e_td_collision : bool; e_positions : list epos }.
(* e_td_collision: the stub defines two generated TypedDict classes under one name (C11's kf_hint_collision) *)
(* e_hidden: some observed value's class lives in `builtins` under a name that cannot be looked up there (module,
   coroutine, dict_keys, list_iterator, ...): finding kf_hidden_builtin_type *)

Definition is_none (v : value) : bool := match v with VAtom c _ => N.eqb c cNone | _ => false end.

Section V.
Variable h : hierarchy.
Notation mem := (member true (subclass h)).

Definition pos_ok (p : epos) : bool :=
  match e_kind p with
  | PParam | PReturn => forallb (fun v => mem v (e_ty p)) (e_vals p)
  | PGen =>
      match e_ty p with
      | TIterator y => forallb (fun v => mem v y) (e_yields p) && forallb is_none (e_vals p)
      | TGenerator y _ r => forallb (fun v => mem v y) (e_yields p) && forallb (fun v => mem v r) (e_vals p)
      | TAny => true
      | _ => false
      end
  end.

Definition unresolved (p : epos) : bool := match e_ty p with TFwd _ => true | _ => false end.

(* 0 ok | 2 some observed value is outside the emitted annotation (or the annotation does not evaluate)
   | 6 a value of a hidden builtin type was observed (its whole trace cannot be decoded)
   | 5 the only failures are annotations that do not evaluate in a stub generated with max_typed_dict_size > 0
       (C11's recorded TypedDict-rendering findings seen end to end) *)
Definition verdict_e2e (c : e2ecase) : nat :=
  let bad := filter (fun p => negb (pos_ok p)) (e_positions c) in
  match bad with
  | [] => if e_imports_ok c then 0 else if Nat.ltb 0 (e_k c) then 5 else 2
  | _ => if e_hidden c then 6
         else if Nat.ltb 0 (e_k c) && (forallb unresolved bad || e_td_collision c) then 5 else 2
  end.
End V.
