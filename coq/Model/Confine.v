(* Model/Confine.v — C16: MonkeyType's import confinement (`apply --pep_563`).
   cli.get_newly_imported_items, MoveImportsToTypeCheckingBlockVisitor.transform_module_impl and
   RemoveImportsTransformer (monkeytype/type_checking_imports_transformer.py) on an abstract module.
   libcst's GatherImportsVisitor.symbol_mapping and AddImportsVisitor are modelled (not verified).
   Executable definitions only; proofs live in Proofs/Confine*.v. *)
From Coq Require Import List Bool Arith String Ascii.
Import ListNotations.
Open Scope list_scope.

(* ---------------------------------------------------------------- abstract syntax *)
(* one name of an import statement: dotted name (or object name) and optional `as` alias *)
Definition name := (string * option string)%type.

Inductive imp :=
| IImport (ns : list name)                 (* import a.b as c, d *)
| IFrom (md : string) (ns : list name)     (* from md import x as y, z ; md carries its leading dots when relative *)
| IStar (md : string).                     (* from md import * *)

(* where an import statement nested in a compound statement sits *)
Inductive ctx :=
| CRun      (* executed when the module is imported, binds a module-level name (try/if/with/for/while bodies) *)
| CLocal    (* inside a def or class body: binds no module-level name *)
| CTC.      (* under an `if TYPE_CHECKING:` *)

Inductive stmt :=
| SDoc (tok : string)                                   (* leading docstring (or __strict__ flag) *)
| SImp (i : imp)                                        (* an import statement alone on its line, module level *)
| SIfTC (body : list imp)                               (* module-level `if TYPE_CHECKING:` holding imports only *)
| SComp (tok : string) (body : list (ctx * imp))        (* any other compound statement, annotations erased;
                                                           the imports inside it in document order *)
| SClass (nm : string) (bases : list string) (tok : string) (body : list (ctx * imp))
                                                        (* module-level class: names its header evaluates *)
| SOther (tok : string).                                (* any other simple statement *)

Definition module := list stmt.

(* libcst's ImportItem (relative imports never become items: module_name None is skipped) *)
Record item := Item { i_mod : string; i_obj : option string; i_alias : option string }.

(* ---------------------------------------------------------------- equality tests *)
Definition ostr_eqb (a b : option string) : bool :=
  match a, b with
  | None, None => true
  | Some x, Some y => String.eqb x y
  | _, _ => false
  end.

Definition name_eqb (a b : name) : bool := String.eqb (fst a) (fst b) && ostr_eqb (snd a) (snd b).

Definition item_eqb (a b : item) : bool :=
  String.eqb (i_mod a) (i_mod b) && ostr_eqb (i_obj a) (i_obj b) && ostr_eqb (i_alias a) (i_alias b).

Definition memb (it : item) (l : list item) : bool := existsb (item_eqb it) l.
Definition smemb (s : string) (l : list string) : bool := existsb (String.eqb s) l.

Definition is_rel (md : string) : bool :=
  match md with String c _ => Ascii.eqb c "."%char | EmptyString => false end.

(* ---------------------------------------------------------------- items of a module *)
Definition imp_items (i : imp) : list item :=
  match i with
  | IImport ns => map (fun n => Item (fst n) None (snd n)) ns
  | IFrom md ns => if is_rel md then [] else map (fun n => Item md (Some (fst n)) (snd n)) ns
  | IStar _ => []
  end.

Definition stmt_imps (s : stmt) : list imp :=
  match s with
  | SImp i => [i]
  | SIfTC b => b
  | SComp _ b => map snd b
  | SClass _ _ _ b => map snd b
  | SDoc _ | SOther _ => []
  end.

Definition all_imps (m : module) : list imp := flat_map stmt_imps m.
Definition all_items (m : module) : list item := flat_map imp_items (all_imps m).

(* import statements alone on their line at module level (libcst: SimpleStatementLine in Module.body) *)
Definition top_imps (m : module) : list imp :=
  flat_map (fun s => match s with SImp i => [i] | _ => [] end) m.
Definition top_items (m : module) : list item := flat_map imp_items (top_imps m).

Definition pick (c : ctx) (b : list (ctx * imp)) : list imp :=
  flat_map (fun ci => match fst ci, c with
                      | CRun, CRun | CLocal, CLocal | CTC, CTC => [snd ci]
                      | _, _ => [] end) b.

(* import statements executed at module level when the module is imported *)
Definition stmt_run_imps (s : stmt) : list imp :=
  match s with
  | SImp i => [i]
  | SComp _ b => pick CRun b
  | SClass _ _ _ b => pick CRun b
  | _ => []
  end.
(* import statements under `if TYPE_CHECKING:` *)
Definition stmt_tc_imps (s : stmt) : list imp :=
  match s with
  | SIfTC b => b
  | SComp _ b => pick CTC b
  | SClass _ _ _ b => pick CTC b
  | _ => []
  end.

Definition run_items (m : module) : list item := flat_map imp_items (flat_map stmt_run_imps m).
(* run-time imports nested in module-level compound statements (try / if / with ... bodies) *)
Definition stmt_nested_run (s : stmt) : list imp :=
  match s with
  | SComp _ b => pick CRun b
  | SClass _ _ _ b => pick CRun b
  | _ => []
  end.
Definition nested_run_items (m : module) : list item := flat_map imp_items (flat_map stmt_nested_run m).
Definition tc_items (m : module) : list item := flat_map imp_items (flat_map stmt_tc_imps m).

(* ---------------------------------------------------------------- GatherImportsVisitor.symbol_mapping *)
Definition key (it : item) : string :=
  match i_alias it with
  | Some a => a
  | None => match i_obj it with Some o => o | None => i_mod it end
  end.

Fixpoint dict_set (k : string) (v : item) (d : list (string * item)) : list (string * item) :=
  match d with
  | [] => [(k, v)]
  | (k', v') :: r => if String.eqb k k' then (k, v) :: r else (k', v') :: dict_set k v r
  end.

Definition set_items (d : list (string * item)) (its : list item) : list (string * item) :=
  fold_left (fun d it => dict_set (key it) it d) its d.

Definition has_plain (ns : list name) : bool :=
  existsb (fun n => match snd n with None => true | Some _ => false end) ns.

(* _handle_ImportFrom returns early - before the symbol mapping is updated - when the statement has an
   unaliased name and a star import of the same module was seen before ("don't add to a '*' module") *)
Fixpoint gather_go (stars : list string) (d : list (string * item)) (is : list imp) : list (string * item) :=
  match is with
  | [] => d
  | IStar md :: r => gather_go (if is_rel md then stars else md :: stars) d r
  | IFrom md ns :: r =>
      if is_rel md then gather_go stars d r
      else if has_plain ns && smemb md stars then gather_go stars d r
      else gather_go stars (set_items d (imp_items (IFrom md ns))) r
  | IImport ns :: r => gather_go stars (set_items d (imp_items (IImport ns))) r
  end.

Definition gather (m : module) : list item := map snd (gather_go [] [] (all_imps m)).
(* proposed patch C16-4: for the source only the module-level import statements count *)
Definition gather_top (m : module) : list item := map snd (gather_go [] [] (top_imps m)).

(* cli.get_newly_imported_items: set(stub symbol mapping) - set(symbol mapping of the source's module-level imports) *)
Definition newly (stub src : module) : list item :=
  filter (fun it => negb (memb it (gather_top src))) (gather stub).

(* _remove_typing_module (with proposed patch C16-3: the module of the TypedDict base class stays at runtime) *)
Definition runtime_module (md : string) : bool :=
  String.eqb md "typing" || String.eqb md "mypy_extensions".

Definition moved_items (stub src : module) : list item :=
  filter (fun it => negb (runtime_module (i_mod it))) (newly stub src).

(* ---------------------------------------------------------------- _add_type_checking_import (AddImportsVisitor) *)
Definition tc_name : name := ("TYPE_CHECKING"%string, None).

Fixpoint top_block (m : module) : list imp :=
  match m with
  | SImp i :: r => i :: top_block r
  | _ => []
  end.

Definition typing_star (tb : list imp) : bool :=
  existsb (fun i => match i with IStar md => String.eqb md "typing" | _ => false end) tb.
Definition typing_has_tc (tb : list imp) : bool :=
  existsb (fun i => match i with
                    | IFrom md ns => String.eqb md "typing" && existsb (name_eqb tc_name) ns
                    | _ => false end) tb.
Definition typing_from (tb : list imp) : bool :=
  existsb (fun i => match i with IFrom md _ => String.eqb md "typing" | _ => false end) tb.

(* prepend TYPE_CHECKING to the first `from typing import ...` of the leading import block *)
Fixpoint add_first (m : module) : module :=
  match m with
  | SImp (IFrom md ns) :: r =>
      if String.eqb md "typing" then SImp (IFrom md (tc_name :: ns)) :: r
      else SImp (IFrom md ns) :: add_first r
  | SImp i :: r => SImp i :: add_first r
  | _ => m
  end.

(* a new statement goes at the end of the leading import block *)
Fixpoint insert_after_block (x : stmt) (m : module) : module :=
  match m with
  | SImp i :: r => SImp i :: insert_after_block x r
  | _ => x :: m
  end.

Definition add_tc_body (m : module) : module :=
  let tb := top_block m in
  if typing_star tb || typing_has_tc tb then m
  else if typing_from tb then add_first m
  else insert_after_block (SImp (IFrom "typing" [tc_name])) m.

Definition add_tc (m : module) : module :=
  match m with
  | SDoc t :: r => SDoc t :: add_tc_body r
  | _ => add_tc_body m
  end.

(* ---------------------------------------------------------------- RemoveImportsTransformer
   (with proposed patches C16-1: `import x` matches only a moved `import x`; C16-2: aliases compared) *)
Definition keep_import (moved : list item) (n : name) : bool :=
  negb (memb (Item (fst n) None (snd n)) moved).
Definition keep_from (moved : list item) (md : string) (n : name) : bool :=
  negb (memb (Item md (Some (fst n)) (snd n)) moved).

Definition rm_imp (moved : list item) (i : imp) : option imp :=
  match i with
  | IImport ns => match filter (keep_import moved) ns with
                  | [] => None
                  | k => Some (IImport k)
                  end
  | IFrom md ns => if is_rel md then Some i
                   else match filter (keep_from moved md) ns with
                        | [] => None
                        | k => Some (IFrom md k)
                        end
  | IStar _ => Some i
  end.

(* proposed patch C16-4: the transformer does not descend into compound statements *)
Fixpoint remove (moved : list item) (m : module) : module :=
  match m with
  | [] => []
  | SImp i :: r => match rm_imp moved i with
                   | Some i' => SImp i' :: remove moved r
                   | None => remove moved r
                   end
  | s :: r => s :: remove moved r
  end.

(* ---------------------------------------------------------------- the block: AddImportsVisitor on an empty module *)
Fixpoint sinsert (s : string) (l : list string) : list string :=
  match l with
  | [] => [s]
  | x :: r => if String.eqb s x then l else if String.ltb s x then s :: l else x :: sinsert s r
  end.
Definition ssort (l : list string) : list string := fold_right sinsert [] l.

Definition name_ltb (a b : name) : bool :=
  if String.eqb (fst a) (fst b) then
    match snd a, snd b with
    | None, Some _ => true
    | Some x, Some y => String.ltb x y
    | _, _ => false
    end
  else String.ltb (fst a) (fst b).
Fixpoint ninsert (n : name) (l : list name) : list name :=
  match l with
  | [] => [n]
  | x :: r => if name_eqb n x then l else if name_ltb n x then n :: l else x :: ninsert n r
  end.
Definition nsort (l : list name) : list name := fold_right ninsert [] l.

Definition plain_mods (its : list item) : list string :=
  flat_map (fun it => match i_obj it, i_alias it with None, None => [i_mod it] | _, _ => [] end) its.
Fixpoint alias_set (k a : string) (d : list (string * string)) : list (string * string) :=
  match d with
  | [] => [(k, a)]
  | (k', a') :: r => if String.eqb k k' then (k, a) :: r else (k', a') :: alias_set k a r
  end.
Definition aliased_mods (its : list item) : list (string * string) :=
  fold_left (fun d it => match i_obj it, i_alias it with
                         | None, Some a => alias_set (i_mod it) a d
                         | _, _ => d end) its [].
Definition from_mods (aliased : bool) (its : list item) : list string :=
  flat_map (fun it => match i_obj it, i_alias it with
                      | Some _, Some _ => if aliased then [i_mod it] else []
                      | Some _, None => if aliased then [] else [i_mod it]
                      | _, _ => [] end) its.
Definition from_names (md : string) (its : list item) : list name :=
  flat_map (fun it => match i_obj it with
                      | Some o => if String.eqb (i_mod it) md then [(o, i_alias it)] else []
                      | None => [] end) its.

Definition render (its : list item) : list imp :=
  let am := ssort (from_mods true its) in
  let pm := filter (fun md => negb (smemb md am)) (ssort (from_mods false its)) in
  map (fun md => IImport [(md, None)]) (ssort (plain_mods its))
  ++ map (fun ma => IImport [(fst ma, Some (snd ma))]) (aliased_mods its)
  ++ map (fun md => IFrom md (nsort (from_names md its))) (am ++ pm).

(* Python's sorted() on (obj, alias) pairs compares None with str when one object is imported both
   plain and aliased from the same module; `from __future__` items would be placed before the block.
   `import m as a` items go through a dict keyed by module (the last alias wins), so two aliases of one module are
   excluded.  All are outside the modelled domain (MonkeyType's stubs import only `from m import a, b`). *)
Fixpoint dup_fst (l : list name) : bool :=
  match l with
  | [] => false
  | n :: r => existsb (fun x => String.eqb (fst n) (fst x)) r || dup_fst r
  end.
Definition in_domain (its : list item) : bool :=
  forallb (fun it => negb (String.eqb (i_mod it) "__future__")
                     && negb (dup_fst (from_names (i_mod it) its))
                     && negb (is_rel (i_mod it))
                     && match i_obj it, i_alias it with
                        | None, Some a =>
                            (* `import m as a`: one alias per module *)
                            forallb (fun y => match i_obj y, i_alias y with
                                              | None, Some b => negb (String.eqb (i_mod y) (i_mod it)) || String.eqb a b
                                              | _, _ => true end) its
                        | _, _ => true end) its.

(* ---------------------------------------------------------------- _add_if_type_checking_block / _split_module *)
Definition is_simp (s : stmt) : bool := match s with SImp _ => true | _ => false end.

Fixpoint insert_after_last_go (x : stmt) (m : module) : module :=
  match m with
  | [] => [x]
  | s :: r => if existsb is_simp r then s :: insert_after_last_go x r else s :: x :: r
  end.
Definition insert_after_last (x : stmt) (m : module) : module :=
  if existsb is_simp m then insert_after_last_go x m else x :: m.

Definition insert_block (moved : list item) (m : module) : module :=
  match moved with
  | [] => m
  | _ => insert_after_last (SIfTC (render moved)) m
  end.

(* ---------------------------------------------------------------- transform_module_impl *)
(* proposed patch C16-5: an import that an existing module-level `if TYPE_CHECKING:` block already holds (put there by
   the source or by an earlier application) gets no second block; the symbol mapping of those blocks' imports *)
Definition tc_block_imps (m : module) : list imp :=
  flat_map (fun s => match s with SIfTC b => b | _ => [] end) m.
Definition already_confined (m : module) : list item := map snd (gather_go [] [] (tc_block_imps m)).
Definition to_block (moved : list item) (m : module) : list item :=
  filter (fun it => negb (memb it (already_confined m))) moved.

Definition confine_with (moved : list item) (applied : module) : module :=
  let t := remove moved (add_tc applied) in
  insert_block (to_block moved t) t.

(* stub: the stub module; src: the source module; applied: libcst's ApplyTypeAnnotationsVisitor output *)
Definition confine (stub src applied : module) : option module :=
  let mv := moved_items stub src in
  if in_domain mv then Some (confine_with mv applied) else None.

(* ---------------------------------------------------------------- names bound at import time *)
Fixpoint head_component (s : string) : string :=
  match s with
  | EmptyString => EmptyString
  | String c r => if Ascii.eqb c "."%char then EmptyString else String c (head_component r)
  end.

Definition imp_bound (i : imp) : list string :=
  match i with
  | IImport ns => map (fun n => match snd n with Some a => a | None => head_component (fst n) end) ns
  | IFrom _ ns => map (fun n => match snd n with Some a => a | None => fst n end) ns
  | IStar _ => []
  end.

Definition item_bound (it : item) : string :=
  match i_alias it with
  | Some a => a
  | None => match i_obj it with Some o => o | None => head_component (i_mod it) end
  end.

Definition runtime_bound (m : module) : list string := flat_map imp_bound (flat_map stmt_run_imps m).

Definition class_names (m : module) : list string :=
  flat_map (fun s => match s with SClass n _ _ _ => [n] | _ => [] end) m.

(* names the class statements that `apply` generated evaluate when the module is imported:
   bases of classes the source does not have, other than classes of the module itself *)
Definition runtime_needed (src m : module) : list string :=
  flat_map (fun s => match s with
                     | SClass n bs _ _ =>
                         if smemb n (class_names src) then []
                         else filter (fun b => negb (smemb b (class_names m))) bs
                     | _ => [] end) m.

(* modelled-libcst assumption: what generated classes need is imported at run-time level by the apply step,
   from a module that confinement leaves at run time *)
Definition needed_okb (src applied : module) : bool :=
  forallb (fun b => existsb (fun it => String.eqb (item_bound it) b && runtime_module (i_mod it))
                            (run_items applied))
          (runtime_needed src applied).

(* ---------------------------------------------------------------- the specification's vocabulary *)
Definition future_head_body (m : module) : bool :=
  match m with
  | SImp (IFrom md ns) :: _ => String.eqb md "__future__" && existsb (name_eqb ("annotations"%string, None)) ns
  | _ => false
  end.
Definition future_head (m : module) : bool :=
  match m with
  | SDoc _ :: r => future_head_body r
  | _ => future_head_body m
  end.

(* finding class: a module-level import item of the source is absent from the symbol mapping of the source's module-level
   imports (a later module-level import binds the same name, or a star import of its module precedes it) and the stub
   asks for exactly that item, so it is "newly imported" *)
Definition kf_shadow (stub src : module) : bool :=
  existsb (fun it => memb it (moved_items stub src)) (top_items src).

(* finding class: libcst's apply step put a module-level import into the module that MonkeyType's
   stub-minus-source difference does not list (libcst qualified a clashing name and added `import m`) *)
Definition allowed_runtime (src : module) (it : item) : bool :=
  memb it (run_items src) || runtime_module (i_mod it) || String.eqb (i_mod it) "__future__".
Definition kf_apply_extra (stub src applied : module) : bool :=
  existsb (fun it => negb (allowed_runtime src it) && negb (memb it (moved_items stub src))) (top_items applied).
(* modelled-libcst assumption: the apply step adds imports at module level only *)
Definition nested_ok (src applied : module) : bool :=
  forallb (allowed_runtime src) (nested_run_items applied).

(* well-formed import statements name at least one thing (Python's grammar) *)
Definition wf_imp (i : imp) : bool :=
  match i with IImport ns | IFrom _ ns => negb (match ns with [] => true | _ => false end) | IStar _ => true end.
Definition wf_module (m : module) : bool := forallb wf_imp (all_imps m).

(* ---------------------------------------------------------------- "stays in place": order-preserving embedding *)
Section Emb.
Context {A B : Type} (r : A -> B -> bool).
Fixpoint emb_go (rec : list B -> bool) (a : A) (l' : list B) : bool :=
  match l' with
  | [] => false
  | b :: t' => if r a b then rec t' else emb_go rec a t'
  end.
Fixpoint embb (l : list A) (l' : list B) : bool :=
  match l with
  | [] => true
  | a :: t => emb_go (embb t) a l'
  end.
End Emb.

Definition ctx_eqb (a b : ctx) : bool :=
  match a, b with CRun, CRun | CLocal, CLocal | CTC, CTC => true | _, _ => false end.

Definition imp_leb (i i' : imp) : bool :=
  match i, i' with
  | IImport ns, IImport ns' => embb name_eqb ns ns'
  | IFrom md ns, IFrom md' ns' => String.eqb md md' && embb name_eqb ns ns'
  | IStar md, IStar md' => String.eqb md md'
  | _, _ => false
  end.
Definition cimp_leb (a b : ctx * imp) : bool := ctx_eqb (fst a) (fst b) && imp_leb (snd a) (snd b).
Definition lstr_eqb (a b : list string) : bool :=
  Nat.eqb (List.length a) (List.length b) && forallb (fun p => String.eqb (fst p) (snd p)) (combine a b).

Definition stmt_leb (s s' : stmt) : bool :=
  match s, s' with
  | SDoc t, SDoc t' => String.eqb t t'
  | SImp i, SImp i' => imp_leb i i'
  | SIfTC b, SIfTC b' => embb imp_leb b b'
  | SComp t b, SComp t' b' => String.eqb t t' && embb cimp_leb b b'
  | SClass n bs t b, SClass n' bs' t' b' =>
      String.eqb n n' && lstr_eqb bs bs' && String.eqb t t' && embb cimp_leb b b'
  | SOther t, SOther t' => String.eqb t t'
  | _, _ => false
  end.

(* every statement of m occurs in m', in the same order, with all its import names in order *)
Definition embedsb (m m' : module) : bool := embb stmt_leb m m'.

(* ---------------------------------------------------------------- the name TYPE_CHECKING is bound before it is tested *)
(* the import statement binds the name TYPE_CHECKING at module level *)
Definition binds_tc (i : imp) : bool :=
  smemb "TYPE_CHECKING" (imp_bound i)
  || match i with IStar md => String.eqb md "typing" | _ => false end.

(* what the model guarantees: the leading import block (after a docstring) imports TYPE_CHECKING from typing *)
Definition tc_ready_body (m : module) : bool :=
  typing_star (top_block m) || typing_has_tc (top_block m).
Definition tc_ready (m : module) : bool :=
  match m with
  | SDoc _ :: r => tc_ready_body r
  | _ => tc_ready_body m
  end.

(* what importability needs: every module-level `if TYPE_CHECKING:` is preceded by a module-level statement
   that binds the name (an import, or an import executed inside a try/if/with block) *)
Fixpoint tc_before_go (seen : bool) (m : module) : bool :=
  match m with
  | [] => true
  | SImp i :: r => tc_before_go (seen || binds_tc i) r
  | SIfTC _ :: r => seen && tc_before_go seen r
  | SComp _ b :: r => tc_before_go (seen || existsb binds_tc (pick CRun b)) r
  | _ :: r => tc_before_go seen r
  end.
Definition tc_before (m : module) : bool := tc_before_go false m.

(* sub-class of kf_apply_extra with a behavioural consequence: the module-level import that libcst's apply step adds and
   that is not moved binds a name that a run-time import of the source already binds (to something else: the item
   differs), so the name is rebound when the module is imported *)
Definition kf_rebind (stub src applied : module) : bool :=
  existsb (fun it => negb (allowed_runtime src it) && negb (memb it (moved_items stub src))
                     && smemb (item_bound it) (runtime_bound src)) (top_items applied).
