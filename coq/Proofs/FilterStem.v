(* Proofs/FilterStem.v — PurePath.stem and str.split(",") as modelled, characterised declaratively;
   the reading of the allow-list branch for listed names that carry no file suffix. *)
From Coq Require Import List Bool Arith String Ascii Lia.
From MT Require Import Filter FilterSpec.
Import ListNotations.
Open Scope list_scope.

Fixpoint has_char (ch : ascii) (s : string) : bool :=
  match s with
  | EmptyString => false
  | String c r => Ascii.eqb c ch || has_char ch r
  end.

(* ------------------------------------------------------------------------------------------ *)
(* stem                                                                                        *)
(* ------------------------------------------------------------------------------------------ *)
Lemma split_last_dot_none : forall s, split_last_dot s = None <-> has_char "." s = false.
Proof.
  induction s as [|c r IH]; cbn [split_last_dot has_char].
  - split; reflexivity.
  - destruct (split_last_dot r) as [[a b]|] eqn:E.
    + split; [discriminate|]. intro H. apply orb_false_iff in H. destruct H as [_ H].
      apply IH in H. discriminate.
    + destruct (Ascii.eqb c ".") eqn:C; cbn.
      * split; discriminate.
      * split; [intros _; apply IH; reflexivity|reflexivity].
Qed.

Lemma split_last_dot_app : forall a b, has_char "." b = false ->
  split_last_dot (a ++ String "." b)%string = Some (a, b).
Proof.
  induction a as [|c a IH]; intros b H; cbn [append split_last_dot].
  - apply split_last_dot_none in H. rewrite H. reflexivity.
  - rewrite (IH b H). reflexivity.
Qed.

Lemma split_last_dot_some : forall s a b, split_last_dot s = Some (a, b) ->
  s = (a ++ String "." b)%string /\ has_char "." b = false.
Proof.
  induction s as [|c r IH]; intros a b H; cbn [split_last_dot] in H; [discriminate|].
  destruct (split_last_dot r) as [[a' b']|] eqn:E.
  - inversion H; subst. destruct (IH a' b eq_refl) as [-> Hb]. split; [reflexivity|exact Hb].
  - destruct (Ascii.eqb c ".") eqn:C; [|discriminate]. inversion H; subst.
    apply Ascii.eqb_eq in C. subst c. split; [reflexivity|]. apply split_last_dot_none. exact E.
Qed.

Lemma str_empty_iff : forall s, str_empty s = true <-> s = EmptyString.
Proof. destruct s; cbn; split; congruence. Qed.

(* "mod.py" -> "mod", "a.b.py" -> "a.b", "c.tar.gz" -> "c.tar" *)
Lemma stem_name_suffix : forall a b, a <> EmptyString -> b <> EmptyString -> has_char "." b = false ->
  stem_name (a ++ String "." b)%string = a.
Proof.
  intros a b Ha Hb H. unfold stem_name. rewrite (split_last_dot_app a b H).
  destruct a; [congruence|]. destruct b; [congruence|]. reflexivity.
Qed.

(* everything else (no dot, ".bashrc", "foo.") is its own stem *)
Lemma stem_name_other : forall name,
  (forall a b, name = (a ++ String "." b)%string -> has_char "." b = false -> a = EmptyString \/ b = EmptyString) ->
  stem_name name = name.
Proof.
  intros name H. unfold stem_name. destruct (split_last_dot name) as [[a b]|] eqn:E; [|reflexivity].
  apply split_last_dot_some in E. destruct E as [E Hb]. destruct (H a b E Hb) as [->| ->]; cbn; [reflexivity|].
  rewrite orb_true_r. reflexivity.
Qed.

Lemma stem_name_nodot : forall m, has_char "." m = false -> suffix_free m.
Proof.
  intros m H. unfold suffix_free, stem_name. apply split_last_dot_none in H. rewrite H. reflexivity.
Qed.

(* ------------------------------------------------------------------------------------------ *)
(* split(",")                                                                                  *)
(* ------------------------------------------------------------------------------------------ *)
Fixpoint join_comma (l : list string) : string :=
  match l with
  | [] => EmptyString
  | x :: r => match r with [] => x | _ => (x ++ String "," (join_comma r))%string end
  end.

Lemma split_comma_nonempty : forall s, split_comma s <> [].
Proof.
  induction s as [|c r IH]; cbn [split_comma]; [discriminate|].
  destruct (Ascii.eqb c ","); [discriminate|]. destruct (split_comma r); discriminate.
Qed.

Lemma split_comma_join : forall s, join_comma (split_comma s) = s.
Proof.
  induction s as [|c r IH]; cbn [split_comma]; [reflexivity|].
  destruct (Ascii.eqb c ",") eqn:C.
  - apply Ascii.eqb_eq in C. subst c. cbn [join_comma].
    destruct (split_comma r) as [|h t] eqn:E; [exfalso; exact (split_comma_nonempty r E)|].
    rewrite IH. reflexivity.
  - destruct (split_comma r) as [|h t] eqn:E; [exfalso; exact (split_comma_nonempty r E)|].
    cbn [join_comma] in *. destruct t; rewrite <- IH; reflexivity.
Qed.

Lemma split_comma_nocomma : forall s, Forall (fun m => has_char "," m = false) (split_comma s).
Proof.
  induction s as [|c r IH]; cbn [split_comma]; [constructor; [reflexivity|constructor]|].
  destruct (Ascii.eqb c ",") eqn:C.
  - constructor; [reflexivity|exact IH].
  - destruct (split_comma r) as [|h t]; [constructor; [cbn; rewrite C; reflexivity|constructor]|].
    inversion IH; subst. constructor; [cbn; rewrite C; assumption|assumption].
Qed.

(* ------------------------------------------------------------------------------------------ *)
(* parts = directory parts + the file's own name                                               *)
(* ------------------------------------------------------------------------------------------ *)
Lemma in_removelast : forall (x : string) l, In x (removelast l) -> In x l.
Proof.
  induction l as [|y l IH]; cbn [removelast]; [tauto|].
  destruct l as [|z l]; [intros []|]. intros [->|H]; [left; reflexivity|right; apply IH; exact H].
Qed.

Lemma dir_parts_incl : forall m p, In m (dir_parts p) -> In m p.
Proof.
  intros m p. unfold dir_parts. destruct (tail_parts p); [tauto|apply in_removelast].
Qed.

Lemma last_cons_nonempty : forall (c : string) r d, r <> [] -> last (c :: r) d = last r d.
Proof. intros c r d H. destruct r; [congruence|reflexivity]. Qed.

Lemma parts_split : forall m p, In m p -> In m (dir_parts p) \/ m = name_of p.
Proof.
  intros m p Hin. unfold dir_parts, name_of.
  destruct (tail_parts p) as [|t ts] eqn:T; [left; exact Hin|].
  assert (Hp : p <> []) by (destruct p; [discriminate|discriminate]).
  assert (Hl : last (t :: ts) EmptyString = last p EmptyString).
  { unfold tail_parts in T. destruct p as [|c r]; [discriminate|].
    destruct (String.eqb c "/"); [|congruence].
    subst r. symmetry. apply last_cons_nonempty. discriminate. }
  rewrite Hl. rewrite (app_removelast_last EmptyString Hp) in Hin.
  apply in_app_or in Hin. destruct Hin as [H|[H|[]]]; [left; exact H|right; symmetry; exact H].
Qed.

(* the allow-list branch for names without a file suffix: a listed name matches the file's stem or one of
   the directories (packages) on the way to it — never anything else *)
Lemma default_filter_spec_modules : forall roots ms raw file, Forall suffix_free ms ->
  (default_filter roots (Some ms) raw (Some file) = Some true <->
   real_source raw /\ exists m rest, In m ms /\ stripped roots file rest /\
                                     (stem rest = m \/ In m (dir_parts rest))).
Proof.
  intros roots ms raw file Hsf. rewrite default_filter_spec. unfold filter_spec.
  apply and_iff_compat_l. split.
  - intros (m & rest & Hin & Hs & H). exists m, rest. split; [exact Hin|]. split; [exact Hs|].
    destruct H as [H|H]; [left; exact H|].
    destruct (parts_split m rest H) as [Hd|Hn]; [right; exact Hd|left].
    rewrite Forall_forall in Hsf. specialize (Hsf m Hin). unfold suffix_free in Hsf.
    unfold stem. rewrite <- Hn. exact Hsf.
  - intros (m & rest & Hin & Hs & H). exists m, rest. split; [exact Hin|]. split; [exact Hs|].
    destruct H as [H|H]; [left; exact H|right; apply dir_parts_incl; exact H].
Qed.
