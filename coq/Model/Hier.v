(* Model/Hier.v — checkable well-formedness of the class tables the harness emits
   (cls -> __mro__, cls -> __bases__), and of a rewriter chain.  Executable definitions only;
   the facts are in Proofs/RewriteHier.v and Proofs/RewriteMono.v. *)
From MT Require Export Types.
From MT Require Import Rewrite.

(* every class listed in the MRO m has (when the table knows it) its own MRO contained in m *)
Definition mro_closed (h : hierarchy) (m : list cls) : bool :=
  forallb (fun a => match mro_of h a with
                    | Some m' => forallb (fun x => memN x m) m'
                    | None => true
                    end) m.

(* the class table makes issubclass transitive: MROs are closed under taking MROs, and object's
   MRO (if listed) is [object] *)
Definition wf_hier (h : hierarchy) : bool :=
  forallb (fun e => mro_closed h (snd e)
                    && (if N.eqb (fst e) cObject
                        then forallb (fun x => N.eqb x cObject) (snd e) else true)) h.

(* every class listed in __bases__ of c is an ancestor of c according to the MRO table *)
Definition bt_ok (h : hierarchy) (bt : bases_table) : bool :=
  forallb (fun '(c, bs) => forallb (fun b => subclass h c b) bs) bt.

Definition is_remove_empty (r : rewriter) : bool :=
  match r with RRemoveEmpty => true | _ => false end.
Definition is_large_union (r : rewriter) : bool :=
  match r with RLargeUnion _ => true | _ => false end.

(* a chain in which RemoveEmptyContainers never runs after a RewriteLargeUnion: it splits as
   rs1 ++ rs2 with no RLargeUnion in rs1 and no RRemoveEmpty in rs2 *)
Fixpoint chain_ok (rs : list rewriter) : bool :=
  match rs with
  | [] => true
  | r :: rest => if is_large_union r then forallb (fun x => negb (is_remove_empty x)) rest
                 else chain_ok rest
  end.
