(* C16 - what stays false of the model even with patches C16-1..4: the two finding classes.
   Witnesses are the reified real runs of harness/props/C16.py DIRECTED[23] and DIRECTED[10] (patched tree). *)
From Coq Require Import List Bool String.
From MT Require Import Confine.
Import ListNotations.
Open Scope list_scope.

(* kf_shadow: the source has `from shapes import Circle` and, later at module level, `from other import Circle`
   (libcst's symbol mapping keeps only the latter); the stub imports `from shapes import Circle`.
   The source's own first import is considered new and moved under TYPE_CHECKING: clause 4 fails.
   (The name is rebound by the later import anyway, so the final run-time binding is unchanged.) *)
Theorem source_import_moved_refuted :
  exists stub src applied out,
    wf_module src = true /\ embedsb src applied = true /\ confine stub src applied = Some out
    /\ kf_shadow stub src = true
    /\ embedsb src out = false.
Proof.
  exists [SImp (IFrom "shapes" [("Circle"%string, None)]); SComp "s" []].
  exists [SImp (IFrom "shapes" [("Circle"%string, None)]); SOther "l";
          SImp (IFrom "other" [("Circle"%string, None)]); SComp "f" []].
  exists [SImp (IFrom "__future__" [("annotations"%string, None)]); SImp (IFrom "shapes" [("Circle"%string, None)]);
          SImp (IImport [("shapes"%string, None)]); SOther "l";
          SImp (IFrom "other" [("Circle"%string, None)]); SComp "f" []].
  eexists. vm_compute. repeat split; reflexivity.
Qed.
Print Assumptions source_import_moved_refuted.

(* kf_apply_extra: the source binds Circle (`from other import Circle`), the stub needs shapes.Circle; libcst qualifies the
   annotation as `shapes.Circle` and adds `import shapes` at module level - an item the stub does not have, so it is not
   moved: a new run-time import that only annotations need (clause 3 fails). *)
Theorem new_runtime_import_refuted :
  exists stub src applied out,
    wf_module src = true /\ embedsb src applied = true /\ confine stub src applied = Some out
    /\ kf_apply_extra stub src applied = true
    /\ existsb (fun it => negb (allowed_runtime src it)) (run_items out) = true.
Proof.
  exists [SImp (IFrom "shapes" [("Circle"%string, None)]); SComp "s" []].
  exists [SImp (IFrom "other" [("Circle"%string, None)]); SComp "f" []].
  exists [SImp (IFrom "__future__" [("annotations"%string, None)]); SImp (IFrom "other" [("Circle"%string, None)]);
          SImp (IImport [("shapes"%string, None)]); SComp "f" []].
  eexists. vm_compute. repeat split; reflexivity.
Qed.
Print Assumptions new_runtime_import_refuted.

(* kf_rebind (inside kf_apply_extra): a hand-written stub imports the module (`import shapes`) and annotates with the
   dotted name `shapes.Circle`; libcst rewrites the annotation to `Circle` and adds `from shapes import Circle` at module
   level - an item the stub does not list, so it is not moved - after the source's own `from other import Circle`:
   the name Circle is rebound at run time.  Reified real run (harness/props/C16.py, MODULE_STUBS). *)
Theorem runtime_name_rebound_refuted :
  exists stub src applied out,
    wf_module src = true /\ embedsb src applied = true /\ confine stub src applied = Some out
    /\ kf_apply_extra stub src applied = true /\ kf_rebind stub src applied = true
    /\ existsb (fun it => negb (memb it (run_items src)) && smemb (item_bound it) (runtime_bound src))
               (top_items out) = true.
Proof.
  exists [SImp (IImport [("shapes"%string, None)]); SComp "s" []].
  exists [SImp (IFrom "other" [("Circle"%string, None)]); SComp "f" []].
  exists [SImp (IFrom "__future__" [("annotations"%string, None)]); SImp (IFrom "other" [("Circle"%string, None)]);
          SImp (IFrom "shapes" [("Circle"%string, None)]); SComp "f" []].
  eexists. vm_compute. repeat split; reflexivity.
Qed.
Print Assumptions runtime_name_rebound_refuted.
