(* C07 — shipped rewriters never narrow, never crash, fire only on their trigger.
   Model: Model/Rewrite.v (generic traversal + every shipped rewriter; DEFAULT_REWRITER regenerated from source).
   The model is total by construction (every rewriter is a total function ty -> ty: "never crashes" for the model;
   that the implementation does not raise is decided per case by the correspondence check).
   Reading: an inferred type is read TIGHTLY on input (Any only stands for "nothing was seen": List[Any] admits only
   the empty list), and as an annotation on output (Any admits everything). *)
From MT Require Import Types TypesFacts Infer Rewrite Hier RewriteHier RewriteMono Constants.
From MT Require Import RewriteTrigger RewriteTriggerFacts RewriteTriggerExact RewriteTriggerInfer.

(* The model of DEFAULT_REWRITER is the one the source declares today (Gen/Constants.v is
   regenerated from monkeytype/typing.py on every run): every member is a modelled rewriter. *)
Theorem default_chain_modelled :
  default_chain = Some [RRemoveEmpty; RConfigDict; RLargeUnion large_union_default_max; RGenerator].
Proof. reflexivity. Qed.
Print Assumptions default_chain_modelled.

Theorem noop_identity : forall h bt t, rw h bt RNoOp t = t.
Proof. intros h bt t. destruct t; reflexivity. Qed.
Print Assumptions noop_identity.

(* Every shipped rewriter, on every well-formed type, for every class table whose MROs are closed: every value the
   input admits (tight reading) is admitted by the output (annotation reading). *)
Theorem rw_never_narrows :
  forall h bt, wf_hier h = true -> bt_ok h bt = true ->
  forall r t v, wf_ty t -> member false (subclass h) v t = true -> member true (subclass h) v (rw h bt r t) = true.
Proof. exact rw_mono_tight_annot. Qed.
Print Assumptions rw_never_narrows.

(* Sharper, reading by reading: every rewriter except RemoveEmptyContainers is monotone under the annotation
   reading; every rewriter except RewriteLargeUnion is monotone under the tight reading. *)
Theorem rw_never_narrows_annotation :
  forall h bt, wf_hier h = true -> bt_ok h bt = true ->
  forall r t v, r <> RRemoveEmpty -> wf_ty t ->
    member true (subclass h) v t = true -> member true (subclass h) v (rw h bt r t) = true.
Proof. exact rw_mono_annot. Qed.
Print Assumptions rw_never_narrows_annotation.

Theorem rw_never_narrows_tight :
  forall h bt, wf_hier h = true -> bt_ok h bt = true ->
  forall r t v, (forall n, r <> RLargeUnion n) -> wf_ty t ->
    member false (subclass h) v t = true -> member false (subclass h) v (rw h bt r t) = true.
Proof. exact rw_mono_tight. Qed.
Print Assumptions rw_never_narrows_tight.

(* Chains (hence all pairs): any chain in which RemoveEmptyContainers never runs after a RewriteLargeUnion *)
Theorem chain_never_narrows :
  forall h bt, wf_hier h = true -> bt_ok h bt = true ->
  forall rs t v, chain_ok rs = true -> wf_ty t ->
    member false (subclass h) v t = true -> member true (subclass h) v (rw_chain h bt rs t) = true.
Proof. exact rw_chain_ok_mono. Qed.
Print Assumptions chain_never_narrows.

(* ... in particular the default chain, whatever the source declares it to be today *)
Theorem default_chain_never_narrows :
  forall h bt, wf_hier h = true -> bt_ok h bt = true ->
  forall rs t v, default_chain = Some rs -> wf_ty t ->
    member false (subclass h) v t = true -> member true (subclass h) v (rw_chain h bt rs t) = true.
Proof. exact default_chain_mono. Qed.
Print Assumptions default_chain_never_narrows.

(* rewriting keeps types well formed (so the theorems chain) *)
Theorem rw_well_formed : forall h bt r t, wf_ty t -> wf_ty (rw h bt r t).
Proof. exact rw_wf. Qed.
Print Assumptions rw_well_formed.

(* the hypothesis on the class table is what makes issubclass transitive *)
Theorem subclass_transitive :
  forall h c a b, wf_hier h = true -> subclass h c a = true -> subclass h a b = true -> subclass h c b = true.
Proof. exact RewriteHier.subclass_trans. Qed.
Print Assumptions subclass_transitive.

(* ---- a rewriter leaves a type unchanged unless its documented trigger is present ----
   `trigger r t`: the documented trigger occurs somewhere in t (an empty container next to a non-empty one of the same
   kind / more members than the maximum / all members dicts with one key type / all members classes); `fires r t`:
   it occurs at a position the rewriter actually visits.  `normal t`: every union is one Python's typing could have
   built (>= 2 members, flat, duplicate-free) -- inference and rewriting only produce such types. *)
Theorem rw_unchanged_without_trigger :
  forall h bt r t, normal t = true -> trigger r t = false -> rw h bt r t = t.
Proof. exact rw_trigger_id. Qed.
Print Assumptions rw_unchanged_without_trigger.

Theorem rw_unchanged_unless_fires :
  forall h bt r t, normal t = true -> fires r t = false -> rw h bt r t = t.
Proof. exact rw_fires_id. Qed.
Print Assumptions rw_unchanged_unless_fires.

Theorem fires_implies_trigger : forall r t, fires r t = true -> trigger r t = true.
Proof. exact fires_trigger. Qed.
Print Assumptions fires_implies_trigger.

(* for the rewriters of the default chain the trigger is exactly the condition for a change *)
Theorem rw_changes_exactly_when_fires :
  forall h bt r t, r <> RCommonBase -> normal t = true -> (rw h bt r t <> t <-> fires r t = true).
Proof. exact rw_changes_iff_fires. Qed.
Print Assumptions rw_changes_exactly_when_fires.

(* a union is collapsed only when it has more members than the configured maximum *)
Theorem large_union_only_above_max :
  forall h n ts, here_rlu n ts = false -> rlu_union h n ts = TUnion ts.
Proof. intros h n ts. exact (proj1 (rlu_union_local h n ts)). Qed.
Print Assumptions large_union_only_above_max.

(* inference produces normal types, and rewriting keeps them normal: the theorems above apply at every stage *)
Theorem infer_produces_normal :
  forall k vs t, forallb wf_valueb vs = true -> infer k vs = Some t -> normal t = true.
Proof. exact infer_normal. Qed.
Print Assumptions infer_produces_normal.

Theorem rw_keeps_normal : forall h bt r t, normal t = true -> normal (rw h bt r t) = true.
Proof. exact rw_normal. Qed.
Print Assumptions rw_keeps_normal.

Example ex_c07_nonvacuous :
  wf_hier ex_h = true /\ bt_ok ex_h ex_bt = true /\ wf_ty ex_t
  /\ member false (subclass ex_h) ex_v ex_t = true
  /\ rw ex_h ex_bt RRemoveEmpty ex_t <> ex_t.
Proof. repeat split; try exact (proj1 ex_hyps); try (vm_compute; reflexivity); try (vm_compute; discriminate).
  all: try (destruct ex_hyps as (A & B & C); assumption).
Qed.
