(* C18 — sampling thins traces without distorting them.  The draw random.randrange(rate) is an input carried by
   each call event (the RNG is not modelled; uniformity is assumed, see the evidence). *)
From MT Require Import Types Tracer TracerFacts.

(* rate unset (None) or 0: no sampling at all — identical to the unsampled run, state and log *)
Theorem rate_unset_traces_all :
  forall rate H, sampling rate = false -> run rate H = run None H.
Proof. exact TracerFacts.rate_unset_traces_all. Qed.
Print Assumptions rate_unset_traces_all.

(* rate 1: randrange(1) only ever returns 0, and then every call is traced exactly as without sampling *)
Theorem rate_one_traces_all :
  forall H, draws_below 1 H = true -> run (Some 1) H = run None H.
Proof. exact TracerFacts.rate_one_traces_all. Qed.
Print Assumptions rate_one_traces_all.

(* a call none of whose call events drew 0 leaves no trace and no residue — for ANY history, well formed or not *)
Theorem unsampled_no_trace_no_residue :
  forall rate H f, sampling rate = true -> no_call_sampled (proj f H) = true ->
    logged_for f (run rate H) = [] /\ lookup f (live (run rate H)) = None.
Proof. exact unsampled_history. Qed.
Print Assumptions unsampled_no_trace_no_residue.

(* the complete decision per call, outside the known finding class kf_resume_sampled_after_skip: the call is
   logged iff its FIRST call event drew 0, and then its trace is exactly the one the unsampled description
   prescribes (argument types of the first call event, all yields, the return) — later draws are irrelevant *)
Theorem sampled_faithful :
  forall rate H f, sampling rate = true -> wf_history H = true ->
    kf_resume_sampled_after_skip rate (proj f H) = false ->
    logged_for f (run rate H) = (if first_taken rate (proj f H) then expected_frame (proj f H) else [])
    /\ (match lookup f (live (run rate H)) with Some _ => true | None => false end)
       = (first_taken rate (proj f H) && pending_frame (proj f H)).
Proof. exact sampled_history. Qed.
Print Assumptions sampled_faithful.

Example ex_c18_nonvacuous :
  let g := Code 1 false true (Some 7%N) KGen in
  let p := Code 2 false true (Some 8%N) KPlain in
  let H := [EvCall 10 g [("a"%string, TCls cInt)] 0; EvReturn 10 g SYield op_yield (TCls cInt);
            EvCall 20 p [] 1; EvReturn 20 p SReturn op_retc (TCls cNone);
            EvCall 10 g [("a"%string, TCls cStr)] 1; EvReturn 10 g SReturn op_retv (TCls cNone);
            EvCall 21 p [] 0; EvReturn 21 p SReturn op_retc (TCls cNone)] in
  wf_history H = true /\ sampling (Some 2) = true
  /\ kf_resume_sampled_after_skip (Some 2) (proj 10 H) = false
  /\ logged_for 10 (run (Some 2) H) = [Trace 7 [("a"%string, TCls cInt)] (Some (TCls cNone)) (Some (TCls cInt))]
  /\ logged_for 20 (run (Some 2) H) = [] /\ List.length (logged_for 21 (run (Some 2) H)) = 1.
Proof. vm_compute. repeat split; reflexivity. Qed.
