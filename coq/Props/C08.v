(* C08 — placeholder while the tie is brought up; replaced below. *)
From MT Require Import Types Encode.
Example ex_c08_stub : encodable (TList TAny) = true.
Proof. reflexivity. Qed.
