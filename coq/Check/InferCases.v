(* Check/InferCases.v — verdicts for the inference correspondence (C04; C05 and C06 add theirs).
   verdict: 0 ok, 1 correspondence mismatch (model vs implementation),
            2 property predicate false on the implementation's own output. *)
From MT Require Export Infer Common.

Record icase := ICase { ik : nat; ivs : list value; iimpl : ty }.

Definition model_of (c : icase) : option ty := infer (ik c) (ivs c).

(* 3 = the case violates the theorem's premise (harness bug, never the code's fault) *)
Definition verdict_c04 (h : hierarchy) (c : icase) : nat :=
  if negb (forallb wf_valueb (ivs c)) then 3 else
  if negb (forallb (fun v => member false (subclass h) v (iimpl c)) (ivs c)) then 2
  else match model_of c with
       | Some t => if corrb t (iimpl c) then 0 else 1
       | None => 1
       end.

(* ---- C06 ---- *)
Record c6case := C6Case {
  c6 : icase;
  c6decoded : ty;            (* type_from_json (type_to_json impl), by /repo *)
  c6stub_counts : list nat   (* fields per generated stub class; base+NonTotal pairs summed *)
}.

Definition all_str_dicts (vs : list value) : bool :=
  forallb (fun v => match v with
                    | VDict kvs => negb (Nat.eqb (List.length kvs) 0) && forallb is_strkey kvs
                    | _ => false end) vs.

Definition verdict_c06 (c : c6case) : nat :=
  let k := ik (c6 c) in
  let impl := iimpl (c6 c) in
  if negb (td_boundedb k impl) then 2
  else if Nat.eqb k 0 && has_td impl then 2
  else if negb (td_boundedb k (c6decoded c)) then 2
  else if negb (forallb (fun n => Nat.leb 1 n && Nat.leb n k) (c6stub_counts c)) then 2
  else if is_td impl && negb (all_str_dicts (ivs (c6 c))) then 2
  else match model_of (c6 c) with
       | Some t => if corrb t impl then 0 else 1
       | None => 1
       end.
