(* C02 — every completed call yields exactly one faithful call trace.
   The tracer (Model/Tracer.v: step = CallTracer.__call__/handle_call/handle_return, with the opcode tables and
   the coroutine guard read from the source on every run) against a reference monitor that looks only at ground
   truth.  `wf_history` is the environment assumption (what CPython delivers): per frame
   call . (suspend . call)* . final return, one code object per frame, and opcode/ground-truth consistency
   (`consistent`), which EXCLUDES the known finding class kf_raise_at_yield (Refuted/C02.v). *)
From MT Require Import Types Tracer TracerFacts TracerOrder.

(* Faithfulness, per call (= per frame), for every well-formed history and any interleaving of frames:
   the traces logged for frame f are exactly what the declarative description of that call prescribes — nothing
   unless the call is of admitted resolvable code and has finished; then exactly one trace carrying the resolved
   function, the argument types at the FIRST call event, the return type iff the call returned (absent iff it
   raised), and the union of the types it yielded (awaits are not yields). *)
Theorem tracer_log_faithful :
  forall rate H f, sampling rate = false -> wf_history H = true ->
    logged_for f (run rate H) = expected_frame (proj f H).
Proof. exact tracer_log_faithful_frame. Qed.
Print Assumptions tracer_log_faithful.

(* logged at most once *)
Theorem tracer_logs_at_most_once :
  forall rate H f, sampling rate = false -> wf_history H = true ->
    List.length (logged_for f (run rate H)) <= 1.
Proof. intros. rewrite tracer_log_faithful_frame by assumption. apply expected_frame_le1. Qed.
Print Assumptions tracer_logs_at_most_once.

(* No residue: the tracer's per-call table holds frame f exactly while the call is in flight *)
Theorem tracer_no_residue :
  forall rate H f, sampling rate = false -> wf_history H = true ->
    (match lookup f (live (run rate H)) with Some _ => true | None => false end) = pending_frame (proj f H).
Proof. exact tracer_no_residue_frame. Qed.
Print Assumptions tracer_no_residue.

(* The whole machine equals the reference monitor (which never reads an opcode) on consistent events *)
Theorem tracer_refines_monitor :
  forall rate H, sampling rate = false -> forallb ev_consistent H = true -> run rate H = spec_run H.
Proof. exact run_faithful. Qed.
Print Assumptions tracer_refines_monitor.

(* Order of completion: the log is append-only; entries appear when the completing event is processed and are
   never reordered or removed *)
Theorem tracer_log_append_only :
  forall rate H1 H2, exists new, logged (run rate (H1 ++ H2)) = new ++ logged (run rate H1).
Proof. exact log_grows_only_at_completion. Qed.
Print Assumptions tracer_log_append_only.

(* The source constants the model was written against (regenerated from tracing.py on every run) *)
Theorem tracer_source_shape :
  tr_return_ops = [op_retv; op_retc] /\ tr_yield_ops = [op_yield] /\ tr_yield_skips_coroutines = true
  /\ tr_handle_call_steps = ["sample"; "lookup"; "unresolved_return"; "resumed_return"; "argnames"; "bind"; "store"]%string
  /\ tr_call_gates = ["unsupported_event"; "filter_rejects"]%string
  /\ (forall c, gated c = negb (c_admit c)).
Proof. repeat split; try reflexivity. Qed.
Print Assumptions tracer_source_shape.


(* ORDER OF COMPLETION (global): read oldest first, the log is exactly the sequence of completion events of the
   history -- each finished traceable call once, with the trace the declarative description prescribes for the
   events of its frame up to and including the completing event, in the order in which the calls finished. *)
Theorem tracer_log_in_completion_order :
  forall rate H, sampling rate = false -> wf_history H = true ->
    rev (logged (run rate H)) = completion_events H.
Proof. exact log_is_completion_sequence. Qed.
Print Assumptions tracer_log_in_completion_order.

(* what completion_events is (so that the statement above cannot be read vacuously) *)
Theorem completion_events_meaning :
  (forall H, completion_events H = flat_map (completion_at H) (seq 0 (List.length H)))
  /\ (forall H i e f, nth_error H i = Some e -> completes e = Some f ->
        completion_at H i = map (pair f) (expected_frame (proj f (firstn (S i) H))))
  /\ (forall H i e, nth_error H i = Some e -> completes e = None -> completion_at H i = [])
  /\ (forall f c sm op a, completes (EvReturn f c sm op a) = Some f <->
        is_final sm = true /\ gated c = false /\ exists fn, c_func c = Some fn)
  /\ (forall f c args d, completes (EvCall f c args d) = None) /\ (forall f c, completes (EvOther f c) = None).
Proof.
  split; [exact completion_events_indexed|]. split; [exact completion_at_unfold|]. split; [exact completion_at_none|].
  split; [exact completes_iff|]. split; reflexivity.
Qed.
Print Assumptions completion_events_meaning.

Theorem tracer_completion_logs_exactly_one :
  forall rate H e f, sampling rate = false -> wf_history (H ++ [e]) = true -> completes e = Some f ->
    exists t, expected_frame (proj f (H ++ [e])) = [t]
              /\ logged (run rate (H ++ [e])) = (f, t) :: logged (run rate H).
Proof. exact completion_logs_one. Qed.
Print Assumptions tracer_completion_logs_exactly_one.

Theorem tracer_noncompletion_logs_nothing :
  forall rate H e, sampling rate = false -> wf_history (H ++ [e]) = true -> completes e = None ->
    logged (run rate (H ++ [e])) = logged (run rate H).
Proof. exact noncompletion_logs_nothing. Qed.
Print Assumptions tracer_noncompletion_logs_nothing.

Theorem tracer_completions_are_the_expected_frames :
  forall rate H f t, sampling rate = false -> wf_history H = true ->
    (In (f, t) (completion_events H) <-> expected_frame (proj f H) = [t]).
Proof. exact completion_events_iff_expected. Qed.
Print Assumptions tracer_completions_are_the_expected_frames.

Theorem tracer_logs_each_frame_once :
  forall rate H, sampling rate = false -> wf_history H = true -> NoDup (map fst (logged (run rate H))).
Proof. exact logged_frames_nodup. Qed.
Print Assumptions tracer_logs_each_frame_once.

(* GLOBAL NO RESIDUE *)
Theorem tracer_table_is_the_pending_frames :
  forall rate H, sampling rate = false -> wf_history H = true ->
    NoDup (map fst (live (run rate H)))
    /\ (forall f, In f (map fst (live (run rate H))) <-> pending_frame (proj f H) = true)
    /\ (forall f, lookup f (live (run rate H)) = partial_frame (proj f H)).
Proof.
  intros rate H Hs W. split; [apply live_keys_nodup|]. split; intros f.
  - apply live_keys_are_pending; assumption.
  - apply live_entry_is_partial_trace; assumption.
Qed.
Print Assumptions tracer_table_is_the_pending_frames.

Theorem tracer_keeps_nothing_when_all_finished :
  forall rate H, sampling rate = false -> wf_history H = true ->
    (forall f, In f (frames_of H) -> pending_frame (proj f H) = false) ->
    live (run rate H) = [].
Proof. exact live_empty_when_all_finished. Qed.
Print Assumptions tracer_keeps_nothing_when_all_finished.

(* Non-vacuity: two interleaved generator frames and a coroutine; the history is well formed and the log is
   the expected one. *)
Example ex_c02_nonvacuous :
  let g := Code 1 false true (Some 7%N) KGen in
  let co := Code 2 false true (Some 8%N) KCoro in
  let H := [EvCall 10 g [("a"%string, TCls cInt)] 0; EvReturn 10 g SYield op_yield (TCls cInt);
            EvCall 11 g [("a"%string, TCls cStr)] 0; EvReturn 11 g SYield op_yield (TCls cStr);
            EvCall 12 co [] 0; EvReturn 12 co SAwait op_yield (TCls cNone);
            EvCall 10 g [("a"%string, TCls cStr)] 0; EvReturn 10 g SYield op_yield (TCls cStr);
            EvCall 12 co [] 0; EvReturn 12 co SReturn op_retc (TCls cInt);
            EvCall 10 g [] 0; EvReturn 10 g SReturn op_retv (TCls cNone);
            EvCall 11 g [] 0; EvReturn 11 g SRaise "RERAISE"%string (TCls cNone)] in
  wf_history H = true
  /\ logged_for 10 (run None H) = [Trace 7 [("a"%string, TCls cInt)] (Some (TCls cNone)) (Some (TUnion [TCls cInt; TCls cStr]))]
  /\ logged_for 11 (run None H) = [Trace 7 [("a"%string, TCls cStr)] None (Some (TCls cStr))]
  /\ logged_for 12 (run None H) = [Trace 8 [] (Some (TCls cInt)) None]
  /\ live (run None H) = [].
Proof. vm_compute. repeat split; reflexivity. Qed.

(* Non-vacuity of the order theorems: three frames that finish in an order different from their start order *)
Example ex_c02_order_nonvacuous :
  wf_history ex_order_history = true
  /\ rev (logged (run None ex_order_history)) = completion_events ex_order_history
  /\ map fst (completion_events ex_order_history) = [21; 22; 20]%N
  /\ live (run None ex_order_history) = [].
Proof. vm_compute. repeat split; reflexivity. Qed.
