(* Proofs/StoreSpec.v — the abstract specification C09 is stated against: "the store is a set of rows".
   Definitions only (Prop level, nothing here is executed); the theorems are in StoreFacts.v. *)
From Coq Require Import List Bool Arith NArith String Ascii.
From MT Require Import Store.
Import ListNotations.
Open Scope list_scope.

(* q starts with p: literally, byte for byte - no case folding, no wildcards *)
Definition starts_with (p q : string) : Prop := exists s, q = (p ++ s)%string.

(* r was ever committed: some add() that returned contained a serialisable trace whose row is r *)
Definition committed (ops : list op) (r : row) : Prop :=
  exists b, In (Add b) ops /\ In (Some r) b.

(* the rows filter(m, p, _) is about *)
Definition wanted (ops : list op) (m : string) (p : option string) (r : row) : Prop :=
  committed ops r /\ r_module r = m
  /\ match p with None => True | Some p => starts_with p (r_qualname r) end.

(* what a filter(m, p, n) answer must look like after history ops:
   distinct rows, each wanted, and min(n, d) of them, d = the number of distinct wanted rows
   (d is pinned by *any* duplicate-free enumeration l of the wanted set) *)
Definition filter_answer_spec (ops : list op) (m : string) (p : option string) (n : N) (out : list row) : Prop :=
  NoDup out
  /\ (forall r, In r out -> wanted ops m p r)
  /\ (forall l, NoDup l -> (forall r, In r l <-> wanted ops m p r) ->
                N.of_nat (List.length out) = N.min n (N.of_nat (List.length l))).

(* what a list_modules() answer must look like: exactly the (non-empty) module names that have rows *)
Definition modules_answer_spec (ops : list op) (ms : list string) : Prop :=
  NoDup ms
  /\ (forall m, In m ms <-> (m <> EmptyString /\ exists r, committed ops r /\ r_module r = m)).

(* the abstract store: a set of rows; Add inserts the batch's serialisable rows, nothing else changes it *)
Definition rowset := row -> Prop.
Definition spec_step (S : rowset) (o : op) : rowset :=
  match o with
  | Add b => fun r => S r \/ In (Some r) b
  | AddAborted _ | Reopen | Filter _ _ _ | ListModules => S
  end.
Definition spec_run (ops : list op) : rowset := fold_left spec_step ops (fun _ => False).
