(* Proofs/RewriteMono.v — C07: the shipped type rewriters never narrow.
   For a well-formed class table (Model/Hier.v) every rewriter maps a type to one admitting at
   least the same values: all rewriters except RemoveEmptyContainers under the annotation reading
   of Any (A), all except RewriteLargeUnion under the tight reading (C), and every rewriter and
   every chain "RemoveEmpty before LargeUnion" from the tight to the annotation reading (B, CH). *)
From MT Require Import Types Rewrite Hier Constants TypesFacts UnionFacts RewriteHier.
From Coq Require Import Lia.

(* ---------- Python == : the other direction of py_eqb_member_imp ---------- *)
Section PyEqRev.
Variable anyb : bool.
Variable sub : cls -> cls -> bool.
Notation mem := (member anyb sub).

Lemma py_eqb_member_rev a : forall b v,
  wf_ty a -> wf_ty b -> py_eqb a b = true -> mem v b = true -> mem v a = true.
Proof.
  induction a as [ | c | x IH | | x IH | x IH | x IH | k v0 IHk IHv | k v0 IHk IHv | xs IH | x IH
                 | a1 a2 a3 IH1 IH2 IH3 | xs IH | r o IHr IHo | s ] using ty_ind';
    intros b v Wa Wb E M; destruct b; cbn [py_eqb] in E; try discriminate E; try exact M.
  - (* TCls *) apply N.eqb_eq in E. subst. exact M.
  - (* TType *) cbn [member] in *. destruct v; try discriminate M.
    destruct x, b; cbn [py_eqb] in E; try discriminate E; try discriminate M; try exact M.
    apply N.eqb_eq in E. subst. exact M.
  - (* TList *) cbn [member] in *. destruct v; try discriminate M.
    revert M. apply forallb_imp. intros e _. apply IH; assumption.
  - (* TSet *) cbn [member] in *. destruct v; try discriminate M.
    revert M. apply forallb_imp. intros e _. apply IH; assumption.
  - (* TDict *) cbn [member wf_ty] in *. destruct Wa as [Wa1 Wa2], Wb as [Wb1 Wb2].
    apply andb_prop in E. destruct E as [E1 E2].
    destruct v; try discriminate M; revert M; apply forallb_imp; intros kv _ H;
      apply andb_prop in H; destruct H as [H1 H2]; apply andb_true_intro; split;
      [apply (IHk _ _ Wa1 Wb1 E1 H1)|apply (IHv _ _ Wa2 Wb2 E2 H2)
      |apply (IHk _ _ Wa1 Wb1 E1 H1)|apply (IHv _ _ Wa2 Wb2 E2 H2)].
  - (* TDefaultDict *) cbn [member wf_ty] in *. destruct Wa as [Wa1 Wa2], Wb as [Wb1 Wb2].
    apply andb_prop in E. destruct E as [E1 E2].
    destruct v; try discriminate M; revert M; apply forallb_imp; intros kv _ H;
      apply andb_prop in H; destruct H as [H1 H2]; apply andb_true_intro; split;
      [apply (IHk _ _ Wa1 Wb1 E1 H1)|apply (IHv _ _ Wa2 Wb2 E2 H2)].
  - (* TTuple *) change (py_eqb (TTuple xs) (TTuple ts) = true) in E. rewrite py_eqb_TTuple in E.
    apply wf_TTuple in Wa. apply wf_TTuple in Wb.
    destruct v; try discriminate M. rewrite member_TTuple in *.
    revert ts es Wb E M. induction xs as [|x xs IHxs]; intros [|y ys] es Wb E M; cbn [forallb2] in E; try discriminate E.
    + exact M.
    + destruct es as [|e es]; [discriminate M|].
      apply andb_prop in E. destruct E as [E1 E2]. apply andb_prop in M. destruct M as [M1 M2].
      inversion IH as [|? ? IHx IHxs']; subst. inversion Wa; subst. inversion Wb; subst.
      apply andb_true_intro; split.
      * match goal with Hx : wf_ty x, Hy : wf_ty y |- _ => apply (IHx _ _ Hx Hy E1 M1) end.
      * apply (IHxs ltac:(assumption) ltac:(assumption) ys es); assumption.
  - (* TTupleVar *) cbn [member] in *. destruct v; try discriminate M.
    revert M. apply forallb_imp. intros e _. apply IH; assumption.
  - (* TUnion *) change (py_eqb (TUnion xs) (TUnion ts) = true) in E. rewrite py_eqb_TUnion in E.
    apply wf_TUnion in Wa. apply wf_TUnion in Wb.
    rewrite member_TUnion in *. apply existsb_exists in M. destruct M as [y [Hy My]].
    apply andb_prop in E. destruct E as [_ E2]. rewrite forallb_forall in E2. specialize (E2 y Hy).
    apply andb_prop in E2. destruct E2 as [_ E2]. apply existsb_exists in E2. destruct E2 as [x [Hx Exy]].
    apply existsb_exists. exists x. split; [exact Hx|].
    rewrite Forall_forall in IH, Wa, Wb. apply (IH x Hx y); auto.
  - (* TTypedDict *)
    change (py_eqb (TTypedDict r o) (TTypedDict req opt) = true) in E. rewrite py_eqb_TTypedDict in E.
    apply wf_TTypedDict in Wa. apply wf_TTypedDict in Wb.
    destruct Wa as [NDa [Wr Wo]], Wb as [NDb [Wr' Wo']].
    apply andb_prop in E. destruct E as [E Eo]. apply andb_prop in E. destruct E as [E Elo].
    apply andb_prop in E. destruct E as [Elr Er]. apply Nat.eqb_eq in Elr, Elo.
    assert (Hir : incl (map fst req) (map fst r)).
    { apply NoDup_length_incl.
      - apply NoDup_app_l in NDa. exact NDa.
      - rewrite !map_length. lia.
      - apply fsubP_keys. exact Er. }
    assert (Hio : incl (map fst opt) (map fst o)).
    { apply NoDup_length_incl.
      - apply NoDup_app_r in NDa. exact NDa.
      - rewrite !map_length. lia.
      - apply fsubP_keys. exact Eo. }
    rewrite member_TTypedDict in *. destruct v; try discriminate M.
    apply andb_prop in M. destruct M as [MA MB]. apply andb_true_intro; split.
    + revert MA. apply forallb_imp. intros [kk vv] _. cbn [fst snd]. destruct kk; try (intros; discriminate).
      unfold field_ty. intros H.
      destruct (lookup_f s req) as [ft'|] eqn:Lr'.
      * (* key required in b: required in a, with a py-equal type *)
        assert (Hk : In s (map fst r)) by (apply Hir; eapply lookup_f_Some_key; exact Lr').
        destruct (lookup_f s r) as [ft|] eqn:Lr; [|apply lookup_f_None in Lr; contradiction].
        unfold fsubP in Er. rewrite forallb_forall in Er.
        pose proof (lookup_f_In _ _ _ Lr) as Hin. specialize (Er _ Hin). cbn [fst snd] in Er.
        rewrite Lr' in Er.
        rewrite Forall_forall in IHr, Wr, Wr'. apply (IHr _ Hin ft'); cbn [snd]; auto.
        { apply (Wr _ Hin). } { apply (Wr' (s, ft')). apply lookup_f_In. exact Lr'. }
      * destruct (lookup_f s opt) as [ft'|] eqn:Lo'; [|discriminate H].
        assert (Hk : In s (map fst o)) by (apply Hio; eapply lookup_f_Some_key; exact Lo').
        assert (Lr : lookup_f s r = None).
        { apply lookup_f_None. intros Hc. exact (NoDup_app_disj _ _ s NDa Hc Hk). }
        rewrite Lr.
        destruct (lookup_f s o) as [ft|] eqn:Lo; [|apply lookup_f_None in Lo; contradiction].
        unfold fsubP in Eo. rewrite forallb_forall in Eo.
        pose proof (lookup_f_In _ _ _ Lo) as Hin. specialize (Eo _ Hin). cbn [fst snd] in Eo.
        rewrite Lo' in Eo.
        rewrite Forall_forall in IHo, Wo, Wo'. apply (IHo _ Hin ft'); cbn [snd]; auto.
        { apply (Wo _ Hin). } { apply (Wo' (s, ft')). apply lookup_f_In. exact Lo'. }
    + (* every required field of a is required in b *)
      pose proof (fsubP_keys _ _ Er) as Hincl.
      rewrite forallb_forall in MB |- *. intros f Hf.
      assert (Hk : In (fst f) (map fst req)) by (apply Hincl; apply in_map; exact Hf).
      apply in_map_iff in Hk. destruct Hk as [f' [Ef Hf']]. rewrite <- Ef. apply MB. exact Hf'.
Qed.
End PyEqRev.
