(* Proofs/DecodeExamples.v — a concrete world and rows showing that the hypotheses of the C10 theorems are
   satisfiable: every stale kind is exhibited, and a store interleaving valid rows with one row of every
   kind satisfies `stale_or_valid` and runs as the theorem says. *)
From Coq Require Import List Bool Arith NArith String Ascii Lia.
From MT Require Import Constants Decode DecodeFacts DecodeStale.
Import ListNotations.
Open Scope list_scope.
Open Scope string_scope.

Definition ex_subscript (g : string) (ds : list dty) : option dty := Some (DGen g ds).
Definition ex_build (ts : list trace) : bres := BStub ("stub of " ++ dec (List.length ts) ++ " trace(s)").

Definition fn (m q : string) : obj := Obj (KFunc (FRef m (Some q))) "<class 'function'>" None.
Definition cl (n : string) : obj := Obj (KClass n) "<class 'type'>" None.

Definition exw : world :=
  World
    (fun m => if (m =? "fx") || (m =? "builtins") || (m =? "typing") then ImpOk else ImpNotFound)
    (fun m path =>
       if existsb (String.eqb "<locals>") path then AttrMissing else
       let p := join_dot path in
       if m =? "fx" then
         if p =? "f" then AttrOk (fn "fx" "f")
         else if p =? "g" then AttrOk (Obj (KFunc (FRef "fx" (Some "g"))) "<class 'function'>" (Some (fn "fx" "g")))
         else if p =? "alias" then AttrOk (fn "fx" "f")
         else if p =? "handler" then AttrOk (fn "fx" "factory.<locals>.inner")
         else if p =? "h" then AttrOk (fn "fx" "h")
         else if p =? "K" then AttrOk (cl "fx.K")
         else if p =? "K.m" then AttrOk (fn "fx" "K.m")
         else if p =? "K.ps" then AttrOk (Obj (KProperty (Some (FRef "fx" (Some "K.ps"))) true) "<class 'property'>" None)
         else if p =? "K.pn" then AttrOk (Obj (KProperty None false) "<class 'property'>" None)
         else if p =? "n" then AttrOk (Obj KOther "<class 'int'>" None)
         else AttrMissing
       else if m =? "builtins" then
         if p =? "int" then AttrOk (cl "builtins.int") else AttrMissing
       else if m =? "typing" then
         if p =? "List" then AttrOk (Obj (KGeneric "typing.List") "<class 'typing._SpecialGenericAlias'>" None)
         else AttrMissing
       else AttrMissing).

Definition e_int : ety := ETy "builtins" "int" false [].
Definition e_list (e : ety) : ety := ETy "typing" "List" true [e].

(* valid rows *)
Definition v1 : row := Row "fx" "f" [("a", e_int); ("b", e_list e_int)] (Some e_int) None.
Definition v2 : row := Row "fx" "K.m" [("self", ETy "fx" "K" false []); ("x", ETd "m" "TD" [("k", e_int)])] (Some (ETy "builtins" "NoneType" false [])) None.
Definition v3 : row := Row "fx" "g" [("gone_name", e_int)] None (Some e_int).
(* one row per stale kind *)
Definition s_of (k : stale_kind) : row :=
  match k with
  | SModuleRemoved => Row "gone" "g" [] None None
  | SSubmoduleRemoved => Row "fx.sub" "g" [("a", e_int)] None None
  | SFuncRemoved => Row "fx" "K.gone" [] None None
  | SLocalScope => Row "fx" "h.<locals>.inner" [("x", e_int)] (Some e_int) None
  | SNonFunction => Row "fx" "n" [] None None
  | SNowClass => Row "fx" "K" [] None None
  | SSettableProperty => Row "fx" "K.ps" [] None None
  | SNoGetterProperty => Row "fx" "K.pn" [] None None
  | SOtherFunction => Row "fx" "handler" [("a", e_int)] (Some e_int) None
  | SArgClassRemoved => Row "fx" "f" [("a", e_int); ("b", e_list (ETy "fx" "Gone" false []))] None None
  | SReturnClassRemoved => Row "fx" "f" [("a", e_int)] (Some (ETy "gone" "G" false [])) None
  | SYieldClassRemoved => Row "fx" "f" [] (Some e_int) (Some (ETd "m" "TD" [("j", e_int); ("k", ETy "fx" "Gone" false [])]))
  | SClassNonType => Row "fx" "f" [("a", ETy "fx" "n" false [])] None None
  end.

Definition all_kinds : list stale_kind :=
  [SModuleRemoved; SSubmoduleRemoved; SFuncRemoved; SLocalScope; SNonFunction; SNowClass; SSettableProperty;
   SNoGetterProperty; SOtherFunction; SArgClassRemoved; SReturnClassRemoved; SYieldClassRemoved; SClassNonType].

Definition ex_rows : list row :=
  [s_of SModuleRemoved; v1; s_of SSubmoduleRemoved; s_of SFuncRemoved; s_of SLocalScope; v2; s_of SNonFunction;
   s_of SNowClass; s_of SSettableProperty; s_of SNoGetterProperty; s_of SArgClassRemoved;
   s_of SReturnClassRemoved; s_of SYieldClassRemoved; v3; s_of SClassNonType; s_of SOtherFunction].

Definition ex_args (verbose : bool) : args := Args CStub "fx" None verbose false false "fx".

Lemma exw_no_locals : no_locals_attr exw.
Proof.
  intros m path. cbn [exw w_attr]. rewrite existsb_app. cbn [existsb]. rewrite String.eqb_refl.
  rewrite orb_true_r. reflexivity.
Qed.

Lemma exw_never_raises : forall m, attrs_never_raise exw m.
Proof.
  intros m path x. cbn [exw w_attr].
  repeat match goal with |- context [if ?b then _ else _] => destruct b end; discriminate.
Qed.

Lemma hidden_false_fx : forall q, is_hidden "fx" q = false.
Proof. reflexivity. Qed.

Lemma s_of_exhibits : forall k, exhibits ex_subscript exw (s_of k) k.
Proof.
  intros k.
  destruct k; cbn [exhibits s_of].
  - reflexivity.
  - split; [exists "fx", "sub"; reflexivity|reflexivity].
  - split; [reflexivity|]. exists ["K"], "gone", []. split; [reflexivity|]. split; [|reflexivity].
    cbn. split; [eexists; reflexivity|exact I].
  - split; [reflexivity|]. split; [cbn; tauto|]. split; [exact exw_no_locals|apply exw_never_raises].
  - eexists; eexists; eexists; eexists. split; [reflexivity|]. split; [reflexivity|exact I].
  - eexists; eexists; eexists; eexists. split; [reflexivity|]. split; [reflexivity|eexists; reflexivity].
  - eexists; eexists; eexists; eexists. split; [reflexivity|]. split; [reflexivity|eexists; reflexivity].
  - eexists; eexists; eexists; eexists. split; [reflexivity|]. split; [reflexivity|eexists; reflexivity].
  - eexists; eexists; eexists; eexists. split; [reflexivity|]. split; [reflexivity|].
    eexists; eexists. split; [reflexivity|]. split; [reflexivity|discriminate].
  - split; [eexists; reflexivity|]. eexists. split.
    + exists [("a", e_int)], "b", []. split; [reflexivity|eexists; reflexivity].
    + apply (st_child ex_subscript exw RefGone "typing" "List" "typing.List" "<class 'typing._SpecialGenericAlias'>" None
                      [] (ETy "fx" "Gone" false []) []); [reflexivity|reflexivity|eexists; reflexivity|].
      apply st_head. apply hs_attr; [reflexivity|]. split; [reflexivity|].
      exists [], "Gone", []. split; [reflexivity|]. split; [exact I|reflexivity].
  - split; [eexists; reflexivity|]. eexists. split.
    + split; [eexists; reflexivity|reflexivity].
    + apply st_head. apply hs_module; reflexivity.
  - split; [eexists; reflexivity|]. eexists. split.
    + split; [eexists; reflexivity|]. split; [eexists; reflexivity|reflexivity].
    + apply (st_field ex_subscript exw RefGone "m" "TD" [("j", e_int)] "k" (ETy "fx" "Gone" false []) []);
        [eexists; reflexivity|].
      apply st_head. apply hs_attr; [reflexivity|]. split; [reflexivity|].
      exists [], "Gone", []. split; [reflexivity|]. split; [exact I|reflexivity].
  - split; [eexists; reflexivity|]. eexists. split.
    + left. exists [], "a", []. split; [reflexivity|eexists; reflexivity].
    + apply st_head. eapply hs_nontype; [reflexivity|reflexivity|exact I].
Qed.

Theorem every_kind_exhibited : forall k, exists r, exhibits ex_subscript exw r k.
Proof. intros k. exists (s_of k). apply s_of_exhibits. Qed.

Lemma stale_row : forall k, stale_or_valid ex_subscript exw (s_of k).
Proof. intros k. right. exists k. apply s_of_exhibits. Qed.

Lemma valid_row : forall r t, to_trace ex_subscript exw r = Ok t -> stale_or_valid ex_subscript exw r.
Proof. intros r t H. left. exists t. exact H. Qed.

Theorem ex_rows_ok : Forall (stale_or_valid ex_subscript exw) ex_rows.
Proof.
  unfold ex_rows.
  repeat first [ apply Forall_nil
               | apply Forall_cons; [first [apply stale_row | eapply valid_row; vm_compute; reflexivity]|] ].
Qed.

Theorem ex_run_ok :
  run ex_subscript ex_build (fun s => AOk s) (ex_args false) exw ex_rows
    = Exit ["stub of 3 trace(s)"] ["13 traces failed to decode; use -v for details"] 0
  /\ (exists l, run ex_subscript ex_build (fun s => AOk s) (ex_args true) exw ex_rows
                = Exit ["stub of 3 trace(s)"] l 0 /\ List.length l = 13
                  /\ nth 2 l "" = "WARNING: Failed decoding trace: Module 'fx' has no attribute 'K.gone'")
  /\ run ex_subscript ex_build (fun s => AOk s) (ex_args false) exw (filter (fun r => negb (decodable ex_subscript exw r)) ex_rows)
     = Exit [] ["13 traces failed to decode; use -v for details"; "No traces found for module fx"] 0.
Proof.
  split; [vm_compute; reflexivity|]. split; [|vm_compute; reflexivity].
  eexists. split; [vm_compute; reflexivity|]. split; vm_compute; reflexivity.
Qed.
