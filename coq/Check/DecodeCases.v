(* Check/DecodeCases.v — verdicts for the C10 correspondence.
   verdict: 0 ok; 1 model <> implementation (property predicate still true on the implementation's output);
            2 property predicate false on the implementation's own output; 3 malformed case (harness bug). *)
From Coq Require Import List Bool Arith NArith String Ascii.
From MT Require Export Decode Common.
Import ListNotations.
Open Scope list_scope.

(* ---- a concrete world from observed tables; anything not observed fails closed ---- *)
Fixpoint list_str_eqb (a b : list string) : bool :=
  match a, b with
  | [], [] => true
  | x :: r, y :: s => String.eqb x y && list_str_eqb r s
  | _, _ => false
  end.

Definition world_of (it : list (string * import_res)) (att : list (string * list string * attr_res)) : world :=
  World (fun m => match find (fun kv => String.eqb m (fst kv)) it with
                  | Some kv => snd kv
                  | None => ImpRaises "?unlisted-module"
                  end)
        (fun m path => match find (fun e => String.eqb m (fst (fst e)) && list_str_eqb path (snd (fst e))) att with
                       | Some e => snd e
                       | None => AttrRaises "?unlisted-attribute"
                       end).

(* typing's g[args] on the shapes the generator produces (already normalised by the real encoder) *)
Definition subscript_c (g : string) (ds : list dty) : option dty := Some (DGen g ds).

(* ---- equality on decoded things ---- *)
Fixpoint dty_eqb (a b : dty) {struct a} : bool :=
  match a, b with
  | DCls x, DCls y => String.eqb x y
  | DAny, DAny => true
  | DGenBare x, DGenBare y => String.eqb x y
  | DGen x xs, DGen y ys =>
      String.eqb x y &&
      (fix go (l1 l2 : list dty) : bool :=
         match l1, l2 with
         | [], [] => true
         | p :: r, q :: s => dty_eqb p q && go r s
         | _, _ => false
         end) xs ys
  | DTd x xs, DTd y ys =>
      String.eqb x y &&
      (fix go (l1 l2 : list (string * dty)) : bool :=
         match l1, l2 with
         | [], [] => true
         | (k1, p) :: r, (k2, q) :: s => String.eqb k1 k2 && dty_eqb p q && go r s
         | _, _ => false
         end) xs ys
  | _, _ => false          (* DOpaque equals nothing, not even itself: reifiers fail closed *)
  end.

Definition odty_eqb (a b : option dty) : bool :=
  match a, b with
  | None, None => true
  | Some x, Some y => dty_eqb x y
  | _, _ => false
  end.

Fixpoint fields_eqb (a b : list (string * dty)) : bool :=
  match a, b with
  | [], [] => true
  | (k1, p) :: r, (k2, q) :: s => String.eqb k1 k2 && dty_eqb p q && fields_eqb r s
  | _, _ => false
  end.

Definition trace_eqb (a b : trace) : bool :=
  String.eqb (t_func a) (t_func b) && fields_eqb (t_args a) (t_args b)
  && odty_eqb (t_ret a) (t_ret b) && odty_eqb (t_yield a) (t_yield b).

Fixpoint traces_eqb (a b : list trace) : bool :=
  match a, b with
  | [], [] => true
  | x :: r, y :: s => trace_eqb x y && traces_eqb r s
  | _, _ => false
  end.

Definition outcome_eqb (a b : outcome) : bool :=
  match a, b with
  | Exit o1 e1 r1, Exit o2 e2 r2 => list_str_eqb o1 o2 && list_str_eqb e1 e2 && Nat.eqb r1 r2
  | Crash x1 e1, Crash x2 e2 => String.eqb x1 x2 && list_str_eqb e1 e2
  | _, _ => false
  end.

(* ---- what the real CallTraceRow.to_trace did with one row (observed in a fresh interpreter) ---- *)
Inductive rres := RROk (t : trace) | RRMT (cls msg : string) | RROther (exc : string).
(* what the generator intended: valid, a stale kind of the property (with the MonkeyTypeError class it
   should raise), or outside the property *)
Inductive expect := ExpOk | ExpMT (cls : string) | ExpOutside.

Definition class_name (e : mterr) : string :=
  match mt_class e with
  | NameLookupError => "NameLookupError"
  | InvalidTypeError => "InvalidTypeError"
  end.

Record rcase := RCase { rc_world : world; rc_row : row; rc_real : rres; rc_exp : expect }.

Definition verdict_row (c : rcase) : nat :=
  let pre := match rc_exp c, rc_real c with
             | ExpOk, RROk _ => 0
             | ExpOk, _ => 3
             | ExpMT _, RRMT _ _ => 0
             | ExpMT _, RROther _ => 2       (* a stale kind escapes `except MonkeyTypeError` *)
             | ExpMT _, RROk _ => 2          (* a row that is stale by construction decodes: not skipped, not counted *)
             | ExpOutside, _ => 0
             end in
  if negb (Nat.eqb pre 0) then pre else
  match to_trace subscript_c (rc_world c) (rc_row c), rc_real c with
  | Ok t, RROk t' => if trace_eqb t t' then 0 else 1
  | MTError e, RRMT cls msg =>
      if String.eqb (class_name e) cls && String.eqb (mt_msg e) msg
         && match rc_exp c with ExpMT cls' => String.eqb cls cls' | _ => true end
      then 0 else 1
  | OtherError x, RROther y => if String.eqb x y then 0 else 1
  | _, _ => 1
  end.

(* ---- one run of the real command line on a database, and a second one on the decodable rows alone ---- *)
Record scase := SCase {
  sc_world : world;
  sc_args : args;
  sc_diff : bool;             (* `stub --diff`: get_diff runs get_stub twice, so the report appears twice *)
  sc_rows1 : list row;        (* what the real store.filter returns, in that order *)
  sc_exp1 : list expect;      (* for each row INSERTED for this module/specifier: valid / stale (BY CONSTRUCTION of
                                 the fixture) / outside the property -- independent of what the store query returns *)
  sc_obs1 : outcome;          (* observed: stdout chunk, stderr lines, status *)
  sc_rows2 : list row;        (* store.filter on the database holding only the rows that are valid by construction *)
  sc_obs2 : outcome
}.

Definition n_stale (es : list expect) : nat :=
  List.length (filter (fun e => match e with ExpMT _ => true | _ => false end) es).
Definition n_valid (es : list expect) : nat :=
  List.length (filter (fun e => match e with ExpOk => true | _ => false end) es).
Definition has_outside (es : list expect) : bool :=
  existsb (fun e => match e with ExpOutside => true | _ => false end) es.

Definition last_is_no_traces (err : list string) : bool :=
  match rev err with
  | l :: _ => String.prefix "No traces found" l
  | [] => false
  end.

(* The property, evaluated on the implementation's two observed runs only: same stdout as the valid rows alone,
   status 0, and stderr = the report of the n stale rows (one count line, or n WARNING lines with -v) followed by
   the stderr of the valid rows alone; nothing valid -> empty stdout and "No traces found" right after the report. *)
Definition prop_pred (c : scase) : bool :=
  let n := n_stale (sc_exp1 c) in
  let verbose := a_verbose (sc_args c) in
  let passes := if sc_diff c then 2 else 1 in
  let nrep := passes * (if verbose then n else if Nat.eqb n 0 then 0 else 1) in
  let cl := if Nat.eqb n 0 then [] else [count_line n] in
  match sc_obs1 c, sc_obs2 c with
  | Exit out1 err1 rc1, Exit out2 err2 rc2 =>
      list_str_eqb out1 out2
      && Nat.eqb rc1 0
      && (if verbose
          then Nat.eqb (List.length (firstn nrep err1)) nrep
               && forallb (String.prefix "WARNING: Failed decoding trace: ") (firstn nrep err1)
               && list_str_eqb (skipn nrep err1) err2
          else list_str_eqb err1 (cl ++ (if sc_diff c then cl else []) ++ err2))
      && (if Nat.eqb (n_valid (sc_exp1 c)) 0
          then match out1 with [] => true | _ => false end
               && last_is_no_traces err1 && Nat.eqb (List.length err1) (S nrep)
          else true)
  | _, _ => false
  end.

Definition obs_build (decoded2 : list trace) (obs2 : outcome) (ts : list trace) : bres :=
  if traces_eqb ts decoded2 then
    match obs2 with
    | Exit [s] _ _ => BStub s
    | Exit [] _ _ => BNone
    | _ => BRaises "?second-run-not-usable"
    end
  else BRaises "?traces-differ-from-second-run".

Definition model_run (c : scase) (rows : list row) : outcome :=
  run subscript_c
      (obs_build (decode_all subscript_c (sc_world c) (sc_rows2 c)) (sc_obs2 c))
      (fun s => AOk s)
      (sc_args c) (sc_world c) rows.

(* `stub --diff`: get_diff calls get_stub twice on the same store (REPLICATE, then IGNORE), each pass decodes and
   reports; stdout is the diff of the two stubs (observed through the second run, like `build`).  --sample-count is
   not combined with --diff by the generator (3 = malformed case). *)
Definition model_run_any (c : scase) (rows : list row) : outcome :=
  if sc_diff c then
    match model_run c rows with
    | Exit out err rc =>
        Exit out (report (a_verbose (sc_args c)) (failures subscript_c (sc_world c) rows) ++ err) rc
    | o => o
    end
  else model_run c rows.

Definition verdict_cli (c : scase) : nat :=
  if sc_diff c && (a_sample_count (sc_args c) || match a_cmd (sc_args c) with CApply => true | CStub => false end) then 3 else
  if negb (has_outside (sc_exp1 c)) && negb (prop_pred c) then 2 else
  if negb (Nat.eqb (List.length (sc_rows1 c)) (List.length (sc_exp1 c))) then 1 else
  if outcome_eqb (model_run_any c (sc_rows1 c)) (sc_obs1 c)
     && (has_outside (sc_exp1 c) || outcome_eqb (model_run_any c (sc_rows2 c)) (sc_obs2 c))
  then 0 else 1.

(* stub of rows == stub of the same rows with the traced names that are no longer parameters removed *)
Record pcase := PCase { pc_obs : outcome; pc_obs_pruned : outcome }.
Definition verdict_prune (c : pcase) : nat :=
  match pc_obs c, pc_obs_pruned c with
  | Exit o1 e1 r1, Exit o2 e2 r2 =>
      if list_str_eqb o1 o2 && list_str_eqb e1 e2 && Nat.eqb r1 0 && Nat.eqb r2 0
         && match o1 with [] => false | _ => true end
      then 0 else 2
  | _, _ => 2
  end.

(* `apply` also rewrites the module's source file.  The file after the run on the full store must be the file
   after the run on the decodable rows alone; it is what was printed; when nothing was printed it is the
   original file (None = the module has no source file any more). *)
Definition ostr_eqb (a b : option string) : bool :=
  match a, b with
  | None, None => true
  | Some x, Some y => String.eqb x y
  | _, _ => false
  end.

Record fcase := FCase {
  fc_orig : option string; fc_file1 : option string; fc_file2 : option string; fc_out1 : list string
}.
Definition verdict_file (c : fcase) : nat :=
  if negb (ostr_eqb (fc_file1 c) (fc_file2 c)) then 2 else
  match fc_out1 c with
  | [] => if ostr_eqb (fc_file1 c) (fc_orig c) then 0 else 2
  | [s] => if ostr_eqb (fc_file1 c) (Some s) then 0 else 2
  | _ => 3
  end.
