(* Proofs/ApplyExamples.v — C15: concrete inputs used by the non-vacuity examples and the refutation witnesses.
   The terms were produced by the harness abstraction (harness/apply_abs.py) from Python text; the `_out`
   terms are the abstraction of what the real apply_stub_using_libcst returned on (stub, src). *)
From Coq Require Import List Bool String.
From MT Require Import Apply.
Import ListNotations.
Open Scope list_scope.

(* DESIGN Appendix B-13:
   stub   def f(a: Thing, b: str = ..., *args: int, c: Optional[int] = ..., **kw: Dict[str, int]) -> List[int]: ...
   source def f(a, b: int = 3, *args, c=None, **kw): return [1]      (after a docstring, __future__ and `import os`) *)
Definition b13_stub : list stmt :=
  [Import (mkItem "typing"%string (Some "Dict"%string) None); Import (mkItem "typing"%string (Some "List"%string) None); Import (mkItem "typing"%string (Some "Optional"%string) None); Import (mkItem "things"%string (Some "Thing"%string) None); Def (mkDef "f"%string false [] [mkParam "a"%string PosOrKw (Some [AName ["Thing"%string]]) None; mkParam "b"%string PosOrKw (Some [AName ["str"%string]]) (Some "..."%string); mkParam "args"%string VarPos (Some [AName ["int"%string]]) None; mkParam "c"%string KwOnly (Some [AName ["Optional"%string]; ATok "["%string; AName ["int"%string]; ATok "]"%string]) (Some "..."%string); mkParam "kw"%string VarKw (Some [AName ["Dict"%string]; ATok "["%string; AName ["str"%string]; ATok ","%string; AName ["int"%string]; ATok "]"%string]) None] (Some [AName ["List"%string]; ATok "["%string; AName ["int"%string]; ATok "]"%string])) [Other "..."%string]].
Definition b13_src : list stmt :=
  [StrExpr "'doc'"%string; Import (mkItem "__future__"%string (Some "annotations"%string) None); Import (mkItem "os"%string None None); Assign ["X"%string] "X = 1"%string; Def (mkDef "f"%string false [] [mkParam "a"%string PosOrKw None None; mkParam "b"%string PosOrKw (Some [AName ["int"%string]]) (Some "3"%string); mkParam "args"%string VarPos None None; mkParam "c"%string KwOnly None (Some "None"%string); mkParam "kw"%string VarKw None None] None) [Other "return [1]"%string]].
(* abstraction of the real tool's output on that input *)
Definition b13_out : list stmt :=
  [StrExpr "'doc'"%string; Import (mkItem "__future__"%string (Some "annotations"%string) None); Import (mkItem "os"%string None None); Import (mkItem "things"%string (Some "Thing"%string) None); Import (mkItem "typing"%string (Some "List"%string) None); Assign ["X"%string] "X = 1"%string; Def (mkDef "f"%string false [] [mkParam "a"%string PosOrKw (Some [AName ["Thing"%string]]) None; mkParam "b"%string PosOrKw (Some [AName ["int"%string]]) (Some "3"%string); mkParam "args"%string VarPos None None; mkParam "c"%string KwOnly (Some [AName ["Optional"%string]; ATok "["%string; AName ["int"%string]; ATok "]"%string]) (Some "None"%string); mkParam "kw"%string VarKw None None] (Some [AName ["List"%string]; ATok "["%string; AName ["int"%string]; ATok "]"%string])) [Other "return [1]"%string]].
Definition dot_stub : list stmt :=
  [Import (mkItem "shapes"%string (Some "Outer"%string) None); Def (mkDef "f"%string false [] [mkParam "a"%string PosOrKw (Some [AName ["Outer"%string; "Inner"%string]]) None; mkParam "b"%string KwOnly (Some [AName ["Outer"%string; "Inner"%string]]) None] (Some [AName ["Outer"%string; "Inner"%string]])) [Other "..."%string]].
Definition dot_src : list stmt :=
  [Def (mkDef "f"%string false [] [mkParam "a"%string PosOrKw None None; mkParam "b"%string KwOnly None None] None) [Other "return a"%string]].
(* abstraction of the real tool's output on that input *)
Definition dot_out : list stmt :=
  [Import (mkItem "shapes.Outer"%string (Some "Inner"%string) None); Def (mkDef "f"%string false [] [mkParam "a"%string PosOrKw (Some [AName ["Inner"%string]]) None; mkParam "b"%string KwOnly (Some [AName ["Outer"%string; "Inner"%string]]) None] (Some [AName ["Inner"%string]])) [Other "return a"%string]].
Definition qc_stub : list stmt :=
  [Import (mkItem "mypy_extensions"%string (Some "TypedDict"%string) None); Class "FooTypedDict__RENAME_ME__"%string [] [AName ["TypedDict"%string]] [AnnAssign "a"%string [AName ["int"%string]] None]; Def (mkDef "g"%string false [] [mkParam "x"%string PosOrKw (Some [AName ["Later"%string]]) None] (Some [AName ["Later"%string]])) [Other "..."%string]; Class "Early"%string [] [] [Def (mkDef "m"%string false [] [mkParam "self"%string PosOrKw None None; mkParam "o"%string PosOrKw (Some [AName ["Early"%string]]) None; mkParam "p"%string PosOrKw (Some [AName ["Later"%string]]) None; mkParam "foo"%string PosOrKw (Some [ATok "'FooTypedDict__RENAME_ME__'"%string]) None] (Some [AName ["Early"%string]])) [Other "..."%string]]].
Definition qc_src : list stmt :=
  [Import (mkItem "os"%string None None); Class "Early"%string [] [] [Def (mkDef "m"%string false [] [mkParam "self"%string PosOrKw None None; mkParam "o"%string PosOrKw None None; mkParam "p"%string PosOrKw None None; mkParam "foo"%string PosOrKw None None] None) [Other "return o"%string]]; Def (mkDef "g"%string false [] [mkParam "x"%string PosOrKw None None] None) [Other "return x"%string]; Import (mkItem "os"%string (Some "path"%string) None); Class "Later"%string [] [] [Other "pass"%string]].
(* abstraction of the real tool's output on that input *)
Definition qc_out : list stmt :=
  [Import (mkItem "os"%string None None); Import (mkItem "mypy_extensions"%string (Some "TypedDict"%string) None); Class "Early"%string [] [] [Def (mkDef "m"%string false [] [mkParam "self"%string PosOrKw None None; mkParam "o"%string PosOrKw (Some [ATok "'Early'"%string]) None; mkParam "p"%string PosOrKw (Some [ATok "'Later'"%string]) None; mkParam "foo"%string PosOrKw (Some [ATok "'FooTypedDict__RENAME_ME__'"%string]) None] (Some [ATok "'Early'"%string])) [Other "return o"%string]]; Def (mkDef "g"%string false [] [mkParam "x"%string PosOrKw (Some [ATok "'Later'"%string]) None] (Some [ATok "'Later'"%string])) [Other "return x"%string]; Import (mkItem "os"%string (Some "path"%string) None); Class "FooTypedDict__RENAME_ME__"%string [] [AName ["TypedDict"%string]] [AnnAssign "a"%string [AName ["int"%string]] None]; Class "Later"%string [] [] [Other "pass"%string]].
