(* Proofs/DecodeStale.v — what "stale" means, kind by kind, in terms of the world; every stale kind makes
   to_trace raise a MonkeyTypeError (never anything else); the headline statement of C10. *)
From Coq Require Import List Bool Arith NArith String Ascii Lia.
From MT Require Import Constants Decode DecodeFacts.
Import ListNotations.
Open Scope list_scope.

Section Stale.
Variable subscript : string -> list dty -> option dty.
Variable build : list trace -> bres.
Variable applyf : string -> ares.

Notation to_trace := (to_trace subscript).
Notation decode_ty := (decode_ty subscript).
Notation decode_list := (decode_list subscript).
Notation decode_fields := (decode_fields subscript).
Notation decode_opt := (decode_opt subscript).
Notation decode_all := (decode_all subscript).
Notation failures := (failures subscript).
Notation decodable := (decodable subscript).
Notation no_other := (no_other subscript).
Notation run := (run subscript build applyf).
Notation finish := (finish build applyf).

(* ------------------------------------------------------------------------------------------------ *)
(* name lookup                                                                                       *)
(* ------------------------------------------------------------------------------------------------ *)
(* every getattr along `pre` (continuing from `walked`) succeeds *)
Fixpoint resolves (w : world) (m : string) (walked pre : list string) : Prop :=
  match pre with
  | [] => True
  | p :: r => (exists o, w_attr w m (walked ++ [p]) = AttrOk o) /\ resolves w m (walked ++ [p]) r
  end.

(* the module imports, the path resolves up to some component, and that component is no longer there *)
Definition attr_gone (w : world) (m q : string) : Prop :=
  w_import w m = ImpOk /\
  exists pre p post, split_dot q = pre ++ p :: post /\ resolves w m [] pre /\ w_attr w m (pre ++ [p]) = AttrMissing.

Lemma walk_gone : forall w m pre walked p post cur,
  resolves w m walked pre -> w_attr w m (walked ++ pre ++ [p]) = AttrMissing ->
  walk w m walked (pre ++ p :: post) cur = MTError (NoAttr m (walked ++ pre ++ [p])).
Proof.
  intros w m pre. induction pre as [|a pre' IH]; intros walked p post cur Hres Hmiss.
  - cbn [app walk] in *. rewrite Hmiss. reflexivity.
  - cbn [resolves] in Hres. destruct Hres as [[o Ho] Hres].
    cbn [app walk]. cbn [app] in Hmiss. rewrite Ho.
    replace (walked ++ a :: pre' ++ [p]) with ((walked ++ [a]) ++ pre' ++ [p]) in *
      by (rewrite <- app_assoc; reflexivity).
    apply IH; assumption.
Qed.

Lemma attr_gone_get_name : forall w m q, attr_gone w m q ->
  exists walked, get_name_in_module w m q = MTError (NoAttr m walked).
Proof.
  intros w m q [Himp (pre & p & post & Hs & Hres & Hmiss)].
  unfold get_name_in_module. rewrite Himp, Hs.
  exists ([] ++ pre ++ [p]). apply walk_gone; assumption.
Qed.

(* nothing has an attribute called "<locals>" (it is not an identifier) *)
Definition no_locals_attr (w : world) : Prop :=
  forall m path, w_attr w m (path ++ ["<locals>"%string]) = AttrMissing.
Definition attrs_never_raise (w : world) (m : string) : Prop :=
  forall path x, w_attr w m path <> AttrRaises x.

Lemma walk_locals : forall w m rest walked cur,
  no_locals_attr w -> attrs_never_raise w m -> In "<locals>"%string rest ->
  exists walked', walk w m walked rest cur = MTError (NoAttr m walked').
Proof.
  intros w m rest. induction rest as [|p r IH]; intros walked cur Hnl Hnr Hin; [destruct Hin|].
  cbn [walk]. destruct (w_attr w m (walked ++ [p])) as [o| |x] eqn:Ea.
  - destruct Hin as [Hp|Hin].
    + subst p. rewrite Hnl in Ea. discriminate.
    + apply IH; assumption.
  - eexists. reflexivity.
  - exfalso. exact (Hnr _ _ Ea).
Qed.

(* ------------------------------------------------------------------------------------------------ *)
(* stale references inside a stored type, at a position the decoder visits                            *)
(* ------------------------------------------------------------------------------------------------ *)
Inductive refkind := RefGone (* the name is not there any more *) | RefNonType (* it is there, not a type *).
Definition ref_class (h : refkind) : mtclass :=
  match h with RefGone => NameLookupError | RefNonType => InvalidTypeError end.

Definition nontype_kind (k : okind) : Prop :=
  match k with KClass _ | KAny | KGeneric _ => False | _ => True end.

Inductive head_stale (w : world) : refkind -> string -> string -> Prop :=
| hs_module : forall m q, is_hidden m q = false -> w_import w m = ImpNotFound -> head_stale w RefGone m q
| hs_attr : forall m q, is_hidden m q = false -> attr_gone w m q -> head_stale w RefGone m q
| hs_nontype : forall m q o, is_hidden m q = false -> get_name_in_module w m q = Ok o ->
                             nontype_kind (o_kind o) -> head_stale w RefNonType m q.

Inductive stale_ty (w : world) (how : refkind) : ety -> Prop :=
| st_head : forall m q has es, head_stale w how m q -> stale_ty w how (ETy m q has es)
| st_child : forall m q g t wr pre e post,
    is_hidden m q = false ->
    get_name_in_module w m q = Ok (Obj (KGeneric g) t wr) ->
    (exists ds, decode_list w pre = Ok ds) ->
    stale_ty w how e ->
    stale_ty w how (ETy m q true (pre ++ e :: post))
| st_field : forall m q pre k e post,
    (exists ds, decode_fields w pre = Ok ds) ->
    stale_ty w how e ->
    stale_ty w how (ETd m q (pre ++ (k, e) :: post)).

Lemma decode_list_stop : forall w pre e post ds err,
  decode_list w pre = Ok ds -> decode_ty w e = MTError err ->
  decode_list w (pre ++ e :: post) = MTError err.
Proof.
  intros w pre. induction pre as [|a pre' IH]; intros e post ds err Hpre He.
  - cbn [app Decode.decode_list]. rewrite He. reflexivity.
  - cbn [app Decode.decode_list] in *.
    destruct (decode_ty w a) as [d| |]; cbn [bindr] in *; try discriminate.
    destruct (Decode.decode_list subscript w pre') as [ds'| |] eqn:Ed; cbn [bindr] in Hpre; try discriminate.
    rewrite (IH e post ds' err eq_refl He). reflexivity.
Qed.

Lemma decode_fields_stop : forall w pre k e post ds err,
  decode_fields w pre = Ok ds -> decode_ty w e = MTError err ->
  decode_fields w (pre ++ (k, e) :: post) = MTError err.
Proof.
  intros w pre. induction pre as [|[ka a] pre' IH]; intros k e post ds err Hpre He.
  - cbn [app Decode.decode_fields]. rewrite He. reflexivity.
  - cbn [app Decode.decode_fields] in *.
    destruct (decode_ty w a) as [d| |]; cbn [bindr] in *; try discriminate.
    destruct (Decode.decode_fields subscript w pre') as [ds'| |] eqn:Ed; cbn [bindr] in Hpre; try discriminate.
    rewrite (IH k e post ds' err eq_refl He). reflexivity.
Qed.

Lemma head_stale_mterror : forall w how m q, head_stale w how m q ->
  exists err, resolve_head w m q = MTError err /\ mt_class err = ref_class how.
Proof.
  intros w how m q H. unfold resolve_head. destruct H as [m q Hh Hi|m q Hh Hg|m q o Hh Hn Hk]; rewrite Hh.
  - unfold get_name_in_module. rewrite Hi. eexists. split; reflexivity.
  - destruct (attr_gone_get_name _ _ _ Hg) as [walked E]. rewrite E. eexists. split; reflexivity.
  - rewrite Hn. cbn [bindr]. unfold head_of.
    destruct (o_kind o); cbn in Hk; try contradiction; eexists; split; reflexivity.
Qed.

Theorem stale_ty_mterror : forall w how e, stale_ty w how e ->
  exists err, decode_ty w e = MTError err /\ mt_class err = ref_class how.
Proof.
  intros w how e H. induction H as [m q has es Hh | m q g t wr pre e post Hh Hn [ds Hpre] Hs IH | m q pre k e post [ds Hpre] Hs IH].
  - rewrite decode_ty_ETy. destruct (head_stale_mterror _ _ _ _ Hh) as [err [E C]].
    rewrite E. exists err. split; [reflexivity|exact C].
  - destruct IH as [err [E C]]. rewrite decode_ty_ETy. unfold resolve_head. rewrite Hh, Hn.
    cbn [bindr head_of o_kind]. rewrite (decode_list_stop w pre e post ds err Hpre E).
    exists err. split; [reflexivity|exact C].
  - destruct IH as [err [E C]]. rewrite decode_ty_ETd.
    rewrite (decode_fields_stop w pre k e post ds err Hpre E).
    exists err. split; [reflexivity|exact C].
Qed.

(* ------------------------------------------------------------------------------------------------ *)
(* the stale kinds of the property                                                                   *)
(* ------------------------------------------------------------------------------------------------ *)
Inductive stale_kind :=
| SModuleRemoved | SSubmoduleRemoved | SFuncRemoved | SLocalScope
| SNonFunction | SNowClass | SSettableProperty | SNoGetterProperty | SOtherFunction
| SArgClassRemoved | SReturnClassRemoved | SYieldClassRemoved | SClassNonType.

Definition kind_class (k : stale_kind) : mtclass :=
  match k with
  | SModuleRemoved | SSubmoduleRemoved | SFuncRemoved | SLocalScope
  | SArgClassRemoved | SReturnClassRemoved | SYieldClassRemoved => NameLookupError
  | _ => InvalidTypeError
  end.

Definition func_found (w : world) (r : row) : Prop :=
  exists f, get_func_in_module w (r_module r) (r_qualname r) = Ok f.

(* e is the first thing of the row that can fail: everything decoded before it is fine *)
Definition at_arg (w : world) (r : row) (e : ety) : Prop :=
  exists pre n post, r_args r = pre ++ (n, e) :: post /\ exists ds, decode_fields w pre = Ok ds.
Definition at_ret (w : world) (r : row) (e : ety) : Prop :=
  (exists ds, decode_fields w (r_args r) = Ok ds) /\ r_ret r = Some e.
Definition at_yield (w : world) (r : row) (e : ety) : Prop :=
  (exists ds, decode_fields w (r_args r) = Ok ds) /\ (exists d, decode_opt w (r_ret r) = Ok d) /\ r_yield r = Some e.

Definition nonfunc_kind (k : okind) : Prop :=
  match k with KOther | KAny | KGeneric _ => True | _ => False end.

(* what the function name of the row resolves to now, after inspect.unwrap *)
Definition func_name_is (w : world) (r : row) (P : okind -> Prop) : Prop :=
  exists o k t wr, get_name_in_module w (r_module r) (r_qualname r) = Ok o /\ unwrap o = Obj k t wr /\ P k.

(* the function object get_func_in_module ends up with, for the kinds of object it accepts *)
Definition func_ref (k : okind) : option fref :=
  match k with
  | KMethod f | KFunc f | KProperty (Some f) false => Some f
  | _ => None
  end.

Definition exhibits (w : world) (r : row) (k : stale_kind) : Prop :=
  match k with
  | SModuleRemoved => w_import w (r_module r) = ImpNotFound
  | SSubmoduleRemoved =>
      (exists parent leaf, r_module r = (parent ++ "." ++ leaf)%string) /\ w_import w (r_module r) = ImpNotFound
  | SFuncRemoved => attr_gone w (r_module r) (r_qualname r)
  | SLocalScope =>
      w_import w (r_module r) = ImpOk /\ In "<locals>"%string (split_dot (r_qualname r)) /\
      no_locals_attr w /\ attrs_never_raise w (r_module r)
  | SNonFunction => func_name_is w r nonfunc_kind
  | SNowClass => func_name_is w r (fun k => exists c, k = KClass c)
  | SSettableProperty => func_name_is w r (fun k => exists f, k = KProperty (Some f) true)
  | SNoGetterProperty => func_name_is w r (fun k => exists b, k = KProperty None b)
  (* the name is bound to a function (an alias, a closure, an undecorating wrapper) whose own qualified name is
     not the recorded one *)
  | SOtherFunction =>
      func_name_is w r (fun k => exists f fq, func_ref k = Some f /\ fr_qual f = Some fq /\ fq <> r_qualname r)
  | SArgClassRemoved => func_found w r /\ exists e, at_arg w r e /\ stale_ty w RefGone e
  | SReturnClassRemoved => func_found w r /\ exists e, at_ret w r e /\ stale_ty w RefGone e
  | SYieldClassRemoved => func_found w r /\ exists e, at_yield w r e /\ stale_ty w RefGone e
  | SClassNonType =>
      func_found w r /\ exists e, (at_arg w r e \/ at_ret w r e \/ at_yield w r e) /\ stale_ty w RefNonType e
  end.

Lemma to_trace_func_err : forall w r err,
  get_func_in_module w (r_module r) (r_qualname r) = MTError err -> to_trace w r = MTError err.
Proof. intros w r err H. unfold Decode.to_trace. rewrite H. reflexivity. Qed.

Lemma func_name_err : forall w r (P : okind -> Prop),
  func_name_is w r P ->
  (forall k, P k -> match k with KMethod _ | KFunc _ | KProperty (Some _) false => False | _ => True end) ->
  exists err, to_trace w r = MTError err /\ mt_class err = InvalidTypeError.
Proof.
  intros w r P (o & k & t & wr & Hn & Hu & Hk) HP. specialize (HP k Hk).
  assert (E : exists err, get_func_in_module w (r_module r) (r_qualname r) = MTError err
                          /\ mt_class err = InvalidTypeError).
  { unfold get_func_in_module. rewrite Hn. cbn [bindr]. unfold func_of_obj. rewrite Hu.
    destruct k as [f|f|[f|] [|]|c| |g|]; try contradiction; eexists; split; reflexivity. }
  destruct E as [err [E C]]. exists err. split; [apply to_trace_func_err; exact E|exact C].
Qed.

Lemma other_function_err : forall w r,
  func_name_is w r (fun k => exists f fq, func_ref k = Some f /\ fr_qual f = Some fq /\ fq <> r_qualname r) ->
  exists err, to_trace w r = MTError err /\ mt_class err = InvalidTypeError.
Proof.
  intros w r (o & k & t & wr & Hn & Hu & f & fq & Hf & Hq & Hne).
  exists (WrongName (r_module r) (r_qualname r) (fr_mod f) fq). split; [|reflexivity].
  apply to_trace_func_err. unfold get_func_in_module. rewrite Hn. cbn [bindr]. unfold func_of_obj. rewrite Hu.
  destruct k as [f'|f'|[f'|] [|]|c| |g|]; cbn in Hf; try discriminate; inversion Hf; subst f';
    unfold check_name; rewrite Hq;
    (destruct (String.eqb fq (r_qualname r)) eqn:E; [apply String.eqb_eq in E; contradiction|reflexivity]).
Qed.

Lemma at_arg_err : forall w r e err, func_found w r -> at_arg w r e -> decode_ty w e = MTError err ->
  to_trace w r = MTError err.
Proof.
  intros w r e err [f Hf] (pre & n & post & Ha & ds & Hpre) He.
  unfold Decode.to_trace. rewrite Hf. cbn [bindr]. rewrite Ha.
  rewrite (decode_fields_stop w pre n e post ds err Hpre He). reflexivity.
Qed.

Lemma at_ret_err : forall w r e err, func_found w r -> at_ret w r e -> decode_ty w e = MTError err ->
  to_trace w r = MTError err.
Proof.
  intros w r e err [f Hf] [[ds Hargs] Hr] He.
  unfold Decode.to_trace. rewrite Hf. cbn [bindr]. rewrite Hargs. cbn [bindr]. rewrite Hr.
  unfold Decode.decode_opt. rewrite He. reflexivity.
Qed.

Lemma at_yield_err : forall w r e err, func_found w r -> at_yield w r e -> decode_ty w e = MTError err ->
  to_trace w r = MTError err.
Proof.
  intros w r e err [f Hf] [[ds Hargs] [[d Hret] Hy]] He.
  unfold Decode.to_trace. rewrite Hf. cbn [bindr]. rewrite Hargs. cbn [bindr]. rewrite Hret. cbn [bindr].
  rewrite Hy. unfold Decode.decode_opt. rewrite He. reflexivity.
Qed.

(* every stale kind the property lists raises a MonkeyTypeError of the expected class -- never anything else *)
Theorem stale_is_mterror : forall w r k, exhibits w r k ->
  exists err, to_trace w r = MTError err /\ mt_class err = kind_class k.
Proof.
  intros w r k H. destruct k; cbn [exhibits kind_class] in *.
  - (* module removed *)
    exists (NoModule (r_module r)). split; [|reflexivity]. apply to_trace_func_err.
    unfold get_func_in_module, get_name_in_module. rewrite H. reflexivity.
  - destruct H as [_ H].
    exists (NoModule (r_module r)). split; [|reflexivity]. apply to_trace_func_err.
    unfold get_func_in_module, get_name_in_module. rewrite H. reflexivity.
  - destruct (attr_gone_get_name _ _ _ H) as [walked E].
    exists (NoAttr (r_module r) walked). split; [|reflexivity]. apply to_trace_func_err.
    unfold get_func_in_module. rewrite E. reflexivity.
  - destruct H as (Hi & Hin & Hnl & Hnr).
    destruct (walk_locals w (r_module r) (split_dot (r_qualname r)) [] module_obj Hnl Hnr Hin) as [walked E].
    exists (NoAttr (r_module r) walked). split; [|reflexivity]. apply to_trace_func_err.
    unfold get_func_in_module, get_name_in_module. rewrite Hi, E. reflexivity.
  - apply (func_name_err w r _ H). intros k Hk. destruct k; cbn in Hk; try contradiction; exact I.
  - apply (func_name_err w r _ H). intros k [c Hk]. subst k. exact I.
  - apply (func_name_err w r _ H). intros k [f Hk]. subst k. exact I.
  - apply (func_name_err w r _ H). intros k [b Hk]. subst k. exact I.
  - exact (other_function_err w r H).
  - destruct H as [Hf (e & Hpos & Hs)]. destruct (stale_ty_mterror _ _ _ Hs) as [err [E C]].
    exists err. split; [exact (at_arg_err w r e err Hf Hpos E)|exact C].
  - destruct H as [Hf (e & Hpos & Hs)]. destruct (stale_ty_mterror _ _ _ Hs) as [err [E C]].
    exists err. split; [exact (at_ret_err w r e err Hf Hpos E)|exact C].
  - destruct H as [Hf (e & Hpos & Hs)]. destruct (stale_ty_mterror _ _ _ Hs) as [err [E C]].
    exists err. split; [exact (at_yield_err w r e err Hf Hpos E)|exact C].
  - destruct H as [Hf (e & Hpos & Hs)]. destruct (stale_ty_mterror _ _ _ Hs) as [err [E C]].
    exists err. split; [|exact C].
    destruct Hpos as [Hp|[Hp|Hp]];
      [exact (at_arg_err w r e err Hf Hp E)|exact (at_ret_err w r e err Hf Hp E)|exact (at_yield_err w r e err Hf Hp E)].
Qed.

(* ------------------------------------------------------------------------------------------------ *)
(* the headline statement                                                                            *)
(* ------------------------------------------------------------------------------------------------ *)
Definition valid (w : world) (r : row) : Prop := exists t, to_trace w r = Ok t.
Definition stale_or_valid (w : world) (r : row) : Prop := valid w r \/ exists k, exhibits w r k.

Lemma stale_or_valid_no_other : forall w r, stale_or_valid w r -> no_other w r.
Proof.
  intros w r [[t E]|[k Hk]] x Hx.
  - rewrite E in Hx. discriminate.
  - destruct (stale_is_mterror w r k Hk) as [err [E _]]. rewrite E in Hx. discriminate.
Qed.

Lemma stale_not_decodable : forall w r k, exhibits w r k -> decodable w r = false.
Proof.
  intros w r k Hk. destruct (stale_is_mterror w r k Hk) as [err [E _]].
  unfold Decode.decodable. rewrite E. reflexivity.
Qed.

Theorem get_stub_skips_stale : forall a w rows,
  Forall (stale_or_valid w) rows ->
  (* the outcome is that of the decodable rows alone, with the report put in front of its stderr *)
  run a w rows = prepend_err (report (a_verbose a) (failures w rows)) (run a w (filter (decodable w) rows))
  /\ run a w (filter (decodable w) rows) = finish a (decode_all w rows) []
  (* the report counts (or lists) exactly the rows that do not decode *)
  /\ List.length (failures w rows) = List.length (filter (fun r => negb (decodable w r)) rows)
  (* stub: status 0, and stdout is the stub built from the decodable rows in order *)
  /\ (a_cmd a = CStub -> (forall x, build (decode_all w rows) <> BRaises x) ->
      exists out err, run a w rows = Exit out err 0
        /\ (forall s, build (decode_all w rows) = BStub s -> decode_all w rows <> [] -> out = [s]))
  (* nothing decodable: empty stdout, "No traces found..." after the report, status 0 *)
  /\ (filter (decodable w) rows = [] ->
      exists rest, run a w rows =
                   Exit [] (report (a_verbose a) (failures w rows) ++ [("No traces found" ++ rest)%string]) 0).
Proof.
  intros a w rows H.
  assert (Hno : Forall (no_other w) rows).
  { apply Forall_forall. intros r Hin. apply stale_or_valid_no_other.
    rewrite Forall_forall in H. apply H. exact Hin. }
  destruct (run_as_decodable_alone subscript build applyf a w rows Hno) as [E1 E2].
  split; [exact E1|]. split; [exact E2|].
  split; [apply failures_length; exact Hno|].
  split.
  - intros Hc Hb. exact (stub_exit_zero subscript build applyf a w rows Hno Hc Hb).
  - intros Hf. destruct (complain_prefix a) as [rest Hrest]. exists rest.
    rewrite <- Hrest. apply nothing_decodable; assumption.
Qed.

End Stale.
