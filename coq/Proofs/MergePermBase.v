(* Proofs/MergePermBase.v — C04/C14: groundwork for "the merged type does not depend on the order in which the
   values were seen", TypedDicts included.
     (A) kf_td_under_union: the exact class of input types on which Python's == is NOT reflexive (a TypedDict-bearing
         member of a Union hashes by identity); py_eqb a b  <->  equivb a b /\ neither side in the class; hence
         py_eqb is a partial equivalence relation on well-formed types.
     (B) the relation between two presentations of the same inputs (mode true: a permutation; mode false: the same
         set, no member in the class) and the operations of shrink that preserve it.
     (C) the (required, optional) maps of shrink_typed_dict_types read key by key. *)
From MT Require Import Types StubSet Infer TypesFacts UnionFacts InferFacts StubSetEquiv StubSetOrder StubSetMerge InferSound.
From Coq Require Import Lia Sorting.Permutation.

(* ================= (A) the finding class and Python's == ================= *)
(* a Union somewhere in t (t itself included) has a member that contains a TypedDict *)
Fixpoint kf_td_under_union (t : ty) : bool :=
  match t with
  | TAny | TCls _ | TCallable | TFwd _ => false
  | TType x | TList x | TSet x | TIterator x | TTupleVar x => kf_td_under_union x
  | TDict k v | TDefaultDict k v => kf_td_under_union k || kf_td_under_union v
  | TTuple ts => existsb kf_td_under_union ts
  | TUnion ts => existsb has_td ts
  | TGenerator a b c => kf_td_under_union a || kf_td_under_union b || kf_td_under_union c
  | TTypedDict r o =>
      existsb (fun f => kf_td_under_union (snd f)) r || existsb (fun f => kf_td_under_union (snd f)) o
  end.
Notation tdu := kf_td_under_union (only parsing).

Lemma existsb_false_iff {A} (f : A -> bool) l : existsb f l = false <-> forall x, In x l -> f x = false.
Proof.
  split; [apply existsb_false_In|]. intros H. destruct (existsb f l) eqn:E; [|reflexivity].
  apply existsb_exists in E. destruct E as [x [Hx Fx]]. rewrite (H x Hx) in Fx. discriminate Fx.
Qed.

(* TypedDict-free types are outside the class *)
Lemma tdfree_not_tdu t : has_td t = false -> tdu t = false.
Proof.
  induction t as [ | c | x IH | | x IH | x IH | x IH | k v0 IHk IHv | k v0 IHk IHv | xs IH | x IH
                 | a1 a2 a3 IH1 IH2 IH3 | xs IH | r o IHr IHo | s ] using ty_ind';
    cbn [has_td tdu]; intros H; auto; try discriminate H.
  - apply orb_false_elim in H. destruct H. rewrite IHk, IHv by assumption. reflexivity.
  - apply orb_false_elim in H. destruct H. rewrite IHk, IHv by assumption. reflexivity.
  - apply existsb_false_iff. intros x Hx. rewrite Forall_forall in IH. apply (IH x Hx).
    eapply existsb_false_In; eassumption.
  - apply orb_false_elim in H. destruct H as [H H3]. apply orb_false_elim in H. destruct H.
    rewrite IH1, IH2, IH3 by assumption. reflexivity.
Qed.

Lemma forallb2_py_char (xs : list ty) : forall ys,
  Forall (fun x => forall b, wf_ty x -> wf_ty b ->
            (py_eqb x b = true <-> equivb x b = true /\ tdu x = false /\ tdu b = false)) xs ->
  Forall wf_ty xs -> Forall wf_ty ys ->
  (forallb2 py_eqb xs ys = true <->
   forallb2 equivb xs ys = true /\ existsb tdu xs = false /\ existsb tdu ys = false).
Proof.
  induction xs as [|x xs IHxs]; intros [|y ys] IH Wa Wb; cbn [forallb2 existsb].
  - tauto.
  - split; [intros H; discriminate H|intros [H _]; discriminate H].
  - split; [intros H; discriminate H|intros [H _]; discriminate H].
  - inversion IH as [|? ? IHx IHr]; subst. inversion Wa; subst. inversion Wb; subst.
    rewrite !andb_true_iff, !orb_false_iff.
    pose proof (IHx y ltac:(assumption) ltac:(assumption)) as E1.
    pose proof (IHxs ys IHr ltac:(assumption) ltac:(assumption)) as E2. tauto.
Qed.

Lemma fsub_py_char r r' :
  Forall (fun f => forall b, wf_ty (snd f) -> wf_ty b ->
            (py_eqb (snd f) b = true <-> equivb (snd f) b = true /\ tdu (snd f) = false /\ tdu b = false)) r ->
  NoDup (map fst r) -> NoDup (map fst r') ->
  Forall (fun f => wf_ty (snd f)) r -> Forall (fun f => wf_ty (snd f)) r' ->
  List.length r = List.length r' ->
  (fsubP r r' = true <->
   fsubE r r' = true /\ existsb (fun f => tdu (snd f)) r = false /\ existsb (fun f => tdu (snd f)) r' = false).
Proof.
  intros IH ND ND' W W' L. rewrite Forall_forall in IH, W, W'. unfold fsubP, fsubE. split.
  - intros E. rewrite forallb_forall in E.
    assert (P : forall f, In f r -> exists y, lookup_f (fst f) r' = Some y /\ equivb (snd f) y = true
                                            /\ tdu (snd f) = false /\ tdu y = false).
    { intros f Hf. specialize (E f Hf). destruct (lookup_f (fst f) r') as [y|] eqn:Ly; [|discriminate E].
      exists y. split; [reflexivity|]. apply (IH f Hf); [apply (W f Hf)| |exact E].
      apply (W' (fst f, y)). apply lookup_f_In. exact Ly. }
    split; [|split].
    + apply forallb_forall. intros f Hf. destruct (P f Hf) as [y [-> [Ey _]]]. exact Ey.
    + apply existsb_false_iff. intros f Hf. destruct (P f Hf) as [y [_ [_ [T _]]]]. exact T.
    + apply existsb_false_iff. intros [s' y'] Hf'. cbn [snd].
      assert (I' : incl (map fst r') (map fst r)).
      { apply keys_back; [exact ND|exact L|]. apply fsubP_keys. unfold fsubP. apply forallb_forall. exact E. }
      assert (Hk : In s' (map fst r)) by (apply I'; apply (in_map fst) in Hf'; exact Hf').
      apply in_map_iff in Hk. destruct Hk as [f [Ef Hf]]. destruct (P f Hf) as [y [Ly [_ [_ T]]]].
      rewrite Ef, (lookup_f_NoDup s' y' r' ND' Hf') in Ly. injection Ly as <-. exact T.
  - intros [E [T T']]. rewrite forallb_forall in E. apply forallb_forall. intros f Hf.
    specialize (E f Hf). destruct (lookup_f (fst f) r') as [y|] eqn:Ly; [|discriminate E].
    pose proof (lookup_f_In _ _ _ Ly) as Hy.
    apply (IH f Hf); [apply (W f Hf)|apply (W' _ Hy)|]. split; [exact E|]. split.
    + apply (existsb_false_In _ _ T f Hf).
    + apply (existsb_false_In _ _ T' _ Hy).
Qed.

(* Python's == on typing objects is the set-like equivalence restricted to types outside the class *)
Lemma py_eqb_char a : forall b, wf_ty a -> wf_ty b ->
  (py_eqb a b = true <-> equivb a b = true /\ tdu a = false /\ tdu b = false).
Proof.
  induction a as [ | c | x IH | | x IH | x IH | x IH | k v0 IHk IHv | k v0 IHk IHv | xs IH | x IH
                 | a1 a2 a3 IH1 IH2 IH3 | xs IH | r o IHr IHo | s ] using ty_ind';
    intros b Wa Wb;
    destruct b as [ | c' | y | | y | y | y | k' v' | k' v' | ys | y | b1 b2 b3 | ys | r' o' | s' ];
    try (split; [intros H; cbn in H; discriminate H | intros [H _]; cbn in H; discriminate H]).
  - cbn. tauto.
  - cbn [py_eqb equivb tdu]. tauto.
  - cbn [py_eqb equivb tdu wf_ty] in *. apply IH; assumption.
  - cbn. tauto.
  - cbn [py_eqb equivb tdu wf_ty] in *. apply IH; assumption.
  - cbn [py_eqb equivb tdu wf_ty] in *. apply IH; assumption.
  - cbn [py_eqb equivb tdu wf_ty] in *. apply IH; assumption.
  - cbn [py_eqb equivb tdu wf_ty] in *. destruct Wa, Wb. rewrite !andb_true_iff, !orb_false_iff.
    pose proof (IHk k' ltac:(assumption) ltac:(assumption)). pose proof (IHv v' ltac:(assumption) ltac:(assumption)). tauto.
  - cbn [py_eqb equivb tdu wf_ty] in *. destruct Wa, Wb. rewrite !andb_true_iff, !orb_false_iff.
    pose proof (IHk k' ltac:(assumption) ltac:(assumption)). pose proof (IHv v' ltac:(assumption) ltac:(assumption)). tauto.
  - change (py_eqb (TTuple xs) (TTuple ys) = true <->
            equivb (TTuple xs) (TTuple ys) = true /\ existsb tdu xs = false /\ existsb tdu ys = false).
    rewrite py_eqb_TTuple, equivb_TTuple. apply wf_TTuple in Wa. apply wf_TTuple in Wb.
    apply forallb2_py_char; assumption.
  - cbn [py_eqb equivb tdu wf_ty] in *. apply IH; assumption.
  - cbn [py_eqb equivb tdu wf_ty] in *. destruct Wa as [? [? ?]], Wb as [? [? ?]].
    rewrite !andb_true_iff, !orb_false_iff.
    pose proof (IH1 b1 ltac:(assumption) ltac:(assumption)). pose proof (IH2 b2 ltac:(assumption) ltac:(assumption)).
    pose proof (IH3 b3 ltac:(assumption) ltac:(assumption)). tauto.
  - change (py_eqb (TUnion xs) (TUnion ys) = true <->
            equivb (TUnion xs) (TUnion ys) = true /\ existsb has_td xs = false /\ existsb has_td ys = false).
    rewrite py_eqb_TUnion, equivb_TUnion. rewrite !andb_true_iff, !forallb_forall, !existsb_false_iff.
    split.
    + intros [E1 E2].
      assert (Fa : forall x, In x xs -> has_td x = false).
      { intros x Hx. specialize (E1 x Hx). apply andb_prop in E1. destruct E1 as [E1 _].
        apply negb_true_iff in E1. exact E1. }
      assert (Fb : forall x, In x ys -> has_td x = false).
      { intros x Hx. specialize (E2 x Hx). apply andb_prop in E2. destruct E2 as [E2 _].
        apply negb_true_iff in E2. exact E2. }
      split; [|split; assumption]. split.
      * intros x Hx. specialize (E1 x Hx). apply andb_prop in E1. destruct E1 as [_ E1].
        rewrite <- E1. apply existsb_eq_in. intros z Hz. symmetry. apply py_eqb_equivb_tdfree; auto.
      * intros z Hz. specialize (E2 z Hz). apply andb_prop in E2. destruct E2 as [_ E2].
        rewrite <- E2. apply existsb_eq_in. intros x Hx. symmetry. apply py_eqb_equivb_tdfree; auto.
    + intros [[E1 E2] [Fa Fb]]. split.
      * intros x Hx. rewrite (Fa x Hx). cbn [negb andb]. rewrite <- (E1 x Hx).
        apply existsb_eq_in. intros z Hz. apply py_eqb_equivb_tdfree; auto.
      * intros z Hz. rewrite (Fb z Hz). cbn [negb andb]. rewrite <- (E2 z Hz).
        apply existsb_eq_in. intros x Hx. apply py_eqb_equivb_tdfree; auto.
  - change (py_eqb (TTypedDict r o) (TTypedDict r' o') = true <->
            equivb (TTypedDict r o) (TTypedDict r' o') = true
            /\ existsb (fun f => tdu (snd f)) r || existsb (fun f => tdu (snd f)) o = false
            /\ existsb (fun f => tdu (snd f)) r' || existsb (fun f => tdu (snd f)) o' = false).
    rewrite py_eqb_TTypedDict, equivb_TTypedDict.
    apply wf_TTypedDict in Wa. apply wf_TTypedDict in Wb.
    destruct Wa as [NDa [Wr Wo]], Wb as [NDb [Wr' Wo']].
    rewrite !andb_true_iff, !orb_false_iff, !Nat.eqb_eq.
    split.
    + intros [[[Lr Er] Lo] Eo].
      apply (fsub_py_char r r' IHr (NoDup_app_l _ _ NDa) (NoDup_app_l _ _ NDb) Wr Wr' Lr) in Er.
      apply (fsub_py_char o o' IHo (NoDup_app_r _ _ NDa) (NoDup_app_r _ _ NDb) Wo Wo' Lo) in Eo. tauto.
    + intros [[[[Lr Er] Lo] Eo] [[T1 T2] [T3 T4]]].
      assert (Er' : fsubP r r' = true)
        by (apply (fsub_py_char r r' IHr (NoDup_app_l _ _ NDa) (NoDup_app_l _ _ NDb) Wr Wr' Lr); tauto).
      assert (Eo' : fsubP o o' = true)
        by (apply (fsub_py_char o o' IHo (NoDup_app_r _ _ NDa) (NoDup_app_r _ _ NDb) Wo Wo' Lo); tauto).
      tauto.
  - cbn [py_eqb equivb tdu]. tauto.
Qed.

(* ... so it is reflexive exactly outside the class, symmetric and transitive: a partial equivalence *)
Lemma py_eqb_refl_iff a : wf_ty a -> (py_eqb a a = true <-> tdu a = false).
Proof.
  intros W. rewrite (py_eqb_char a a W W). pose proof (equivb_refl a W). tauto.
Qed.

Lemma py_eqb_sym a b : wf_ty a -> wf_ty b -> py_eqb a b = true -> py_eqb b a = true.
Proof.
  intros Wa Wb E. apply (py_eqb_char a b Wa Wb) in E. destruct E as [E [Ta Tb]].
  apply (py_eqb_char b a Wb Wa). split; [apply equivb_sym; assumption|tauto].
Qed.

Lemma py_eqb_trans a b c : wf_ty a -> wf_ty b -> wf_ty c ->
  py_eqb a b = true -> py_eqb b c = true -> py_eqb a c = true.
Proof.
  intros Wa Wb Wc E1 E2. apply (py_eqb_char a b Wa Wb) in E1. apply (py_eqb_char b c Wb Wc) in E2.
  apply (py_eqb_char a c Wa Wc). split; [apply (equivb_trans a b c); tauto|tauto].
Qed.

Lemma py_eqb_members anyb sub a b v :
  wf_ty a -> wf_ty b -> py_eqb a b = true -> member anyb sub v a = member anyb sub v b.
Proof.
  intros Wa Wb E. apply member_equivb; [exact Wa|exact Wb|]. apply (py_eqb_char a b Wa Wb) in E. tauto.
Qed.

(* ================= (B) two presentations of the same inputs ================= *)
(* b presents the inputs a again: in any order, and with any number of extra copies of members of a that are
   outside the finding class.  (No extra copies: b is a permutation of a.) *)
Definition same_inputs (a b : list ty) : Prop :=
  exists ds, Permutation b (a ++ ds) /\ incl ds a /\ Forall (fun t => tdu t = false) ds.

Lemma si_perm a b : Permutation a b -> same_inputs a b.
Proof.
  intros P. exists []. rewrite app_nil_r. split; [apply Permutation_sym; exact P|].
  split; [intros x []|constructor].
Qed.

Lemma si_dup x ts : In x ts -> tdu x = false -> same_inputs ts (x :: ts).
Proof.
  intros Hx T. exists [x]. split; [apply Permutation_cons_append|]. split.
  - intros y [<-|[]]. exact Hx.
  - constructor; [exact T|constructor].
Qed.

Lemma si_perm_r a b b' : same_inputs a b -> Permutation b b' -> same_inputs a b'.
Proof.
  intros [ds [P H]] P'. exists ds. split; [|exact H].
  apply (Permutation_trans (l' := b)); [apply Permutation_sym; exact P'|exact P].
Qed.

Lemma si_incl a b : same_inputs a b -> incl a b /\ incl b a.
Proof.
  intros [ds [P [I _]]]. split; intros x Hx.
  - eapply Permutation_in; [apply Permutation_sym; exact P|]. apply in_or_app. left. exact Hx.
  - apply (Permutation_in _ P) in Hx. apply in_app_or in Hx. destruct Hx as [Hx|Hx]; [exact Hx|apply I; exact Hx].
Qed.

Lemma si_nil : same_inputs [] [].
Proof. apply si_perm. constructor. Qed.

Lemma si_app a b c d : same_inputs a b -> same_inputs c d -> same_inputs (a ++ c) (b ++ d).
Proof.
  intros [d1 [P1 [I1 F1]]] [d2 [P2 [I2 F2]]]. exists (d1 ++ d2). split; [|split].
  - apply (Permutation_trans (l' := (a ++ d1) ++ (c ++ d2))); [apply Permutation_app; assumption|].
    rewrite <- !app_assoc. apply Permutation_app_head. rewrite !app_assoc. apply Permutation_app_tail.
    apply Permutation_app_comm.
  - apply incl_app; [apply incl_appl; exact I1|apply incl_appr; exact I2].
  - apply Forall_app. split; assumption.
Qed.

Lemma si_flat_map (f : ty -> list ty) a b :
  (forall x y, tdu x = false -> In y (f x) -> tdu y = false) ->
  same_inputs a b -> same_inputs (flat_map f a) (flat_map f b).
Proof.
  intros Hf [ds [P [I F]]]. exists (flat_map f ds). split; [|split].
  - rewrite <- flat_map_app. apply Permutation_flat_map. exact P.
  - intros y Hy. apply in_flat_map in Hy. destruct Hy as [x [Hx Hy]]. apply in_flat_map. exists x. auto.
  - rewrite Forall_forall in *. intros y Hy. apply in_flat_map in Hy. destruct Hy as [x [Hx Hy]].
    apply (Hf x y); auto.
Qed.

Lemma si_flat_map_pointwise {A} (f g : A -> list ty) l :
  (forall x, In x l -> same_inputs (f x) (g x)) -> same_inputs (flat_map f l) (flat_map g l).
Proof.
  induction l as [|x r IH]; intros H; [apply si_nil|]. cbn [flat_map]. apply si_app.
  - apply H. left. reflexivity.
  - apply IH. intros y Hy. apply H. right. exact Hy.
Qed.

Lemma si_cond (c : bool) a b :
  same_inputs a b -> same_inputs (if c then a else []) (if c then b else []).
Proof. destruct c; [auto|intros _; apply si_nil]. Qed.

Lemma si_depth a b : same_inputs a b -> depth_list a = depth_list b.
Proof.
  intros H. apply si_incl in H. destruct H as [I1 I2].
  apply Nat.le_antisymm; apply depth_list_bound; intros x Hx; apply depth_In_le; auto.
Qed.

Lemma si_forallb (p : ty -> bool) a b : same_inputs a b -> forallb p a = forallb p b.
Proof. intros H. apply si_incl in H. destruct H. apply forallb_same_set; assumption. Qed.

Lemma si_wf a b : same_inputs a b -> Forall wf_ty a -> Forall wf_ty b.
Proof. intros H W. apply si_incl in H. destruct H as [_ I2]. rewrite Forall_forall in *. auto. Qed.

Lemma filter_map_flat_map {A B} (p : B -> bool) (g : A -> B) l :
  filter p (map g l) = flat_map (fun x => if p (g x) then [g x] else []) l.
Proof.
  induction l as [|x r IH]; [reflexivity|]. cbn [map filter flat_map]. rewrite IH.
  destruct (p (g x)); reflexivity.
Qed.

(* the closure properties of the class that the sub-merges need *)
Lemma tdu_vals_req s t y : tdu t = false -> In y (vals_of s (td_req t)) -> tdu y = false.
Proof.
  intros T Hy. apply In_vals_of in Hy. destruct t; cbn [td_req] in Hy; try destruct Hy.
  cbn [tdu] in T. apply orb_false_elim in T. destruct T as [T _].
  apply (existsb_false_In _ _ T (s, y)). exact Hy.
Qed.

Lemma tdu_vals_opt s t y : tdu t = false -> In y (vals_of s (td_opt t)) -> tdu y = false.
Proof.
  intros T Hy. apply In_vals_of in Hy. destruct t; cbn [td_opt] in Hy; try destruct Hy.
  cbn [tdu] in T. apply orb_false_elim in T. destruct T as [_ T].
  apply (existsb_false_In _ _ T (s, y)). exact Hy.
Qed.

Lemma tdu_list_arg t : tdu t = false -> tdu (list_arg t) = false.
Proof. destruct t; cbn; auto. Qed.

(* a key -> types map read through its keys *)
Lemma flat_map_ext_in {A B} (f g : A -> list B) l : (forall x, In x l -> f x = g x) -> flat_map f l = flat_map g l.
Proof.
  induction l as [|x r IH]; intros H; [reflexivity|]. cbn [flat_map].
  rewrite (H x (or_introl eq_refl)), IH; [reflexivity|]. intros y Hy. apply H. right. exact Hy.
Qed.

Lemma flat_map_snd_keys (m : list (string * list ty)) :
  NoDup (map fst m) -> flat_map snd m = flat_map (fun s => lookup_m s m) (map fst m).
Proof.
  induction m as [|e r IH]; intros ND; [reflexivity|]. inversion ND as [|? ? Hn ND']; subst.
  cbn [flat_map map lookup_m]. rewrite String.eqb_refl. f_equal. rewrite (IH ND').
  apply flat_map_ext_in. intros s Hs. destruct (String.eqb_spec s (fst e)) as [E|E]; [|reflexivity].
  exfalso. apply Hn. rewrite <- E. exact Hs.
Qed.

Lemma si_keys_flat (m m' : list (string * list ty)) :
  NoDup (map fst m) -> NoDup (map fst m') ->
  (forall s, In s (map fst m) <-> In s (map fst m')) ->
  (forall s, same_inputs (lookup_m s m) (lookup_m s m')) ->
  same_inputs (flat_map snd m) (flat_map snd m').
Proof.
  intros ND ND' K L.
  rewrite (flat_map_snd_keys m ND), (flat_map_snd_keys m' ND').
  apply (si_perm_r _ (flat_map (fun s => lookup_m s m') (map fst m))).
  - apply si_flat_map_pointwise. intros s _. apply L.
  - apply Permutation_flat_map. apply NoDup_Permutation; assumption.
Qed.

(* the "all == the first" test and its result do not depend on the presentation *)
Lemma all_eq_first_si t0 rest t0' rest' :
  Forall wf_ty (t0 :: rest) -> same_inputs (t0 :: rest) (t0' :: rest') ->
  forallb (fun t => py_eqb t t0) rest = true ->
  forallb (fun t => py_eqb t t0') rest' = true /\ (t0 = t0' \/ py_eqb t0 t0' = true).
Proof.
  intros W S E. pose proof (si_incl _ _ S) as [I1 I2]. rewrite Forall_forall in W. rewrite forallb_forall in E.
  assert (W0 : wf_ty t0) by (apply W; left; reflexivity).
  destruct S as [ds [P [Id Fd]]].
  assert (C : (rest = [] /\ ds = []) \/ py_eqb t0 t0 = true).
  { destruct rest as [|t1 r].
    - destruct ds as [|d ds']; [left; split; reflexivity|right].
      assert (Hd : In d [t0]) by (apply Id; left; reflexivity). destruct Hd as [<-|[]].
      apply py_eqb_refl_iff; [exact W0|]. inversion Fd; assumption.
    - right. assert (W1 : wf_ty t1) by (apply W; right; left; reflexivity).
      assert (E1 : py_eqb t1 t0 = true) by (apply E; left; reflexivity).
      apply (py_eqb_trans t0 t1 t0); auto. apply py_eqb_sym; auto. }
  destruct C as [[-> ->]|R0].
  - cbn [app] in P. apply Permutation_sym in P. apply Permutation_length_1_inv in P. injection P as -> ->.
    split; [reflexivity|left; reflexivity].
  - assert (All : forall u, In u (t0 :: rest) -> py_eqb u t0 = true).
    { intros u [<-|Hu]; [exact R0|apply E; exact Hu]. }
    assert (H0 : In t0' (t0 :: rest)) by (apply I2; left; reflexivity).
    assert (E0 : py_eqb t0 t0' = true) by (apply py_eqb_sym; auto).
    split; [|right; exact E0].
    apply forallb_forall. intros u Hu.
    assert (Hu' : In u (t0 :: rest)) by (apply I2; right; exact Hu).
    apply (py_eqb_trans u t0 t0'); auto.
Qed.

Lemma all_eq_first_si_back t0 rest t0' rest' :
  Forall wf_ty (t0 :: rest) -> same_inputs (t0 :: rest) (t0' :: rest') ->
  forallb (fun t => py_eqb t t0') rest' = true -> forallb (fun t => py_eqb t t0) rest = true.
Proof.
  intros W S E. pose proof (si_wf _ _ S W) as W'. pose proof (si_incl _ _ S) as [I1 I2].
  rewrite Forall_forall in W, W'. rewrite forallb_forall in E.
  assert (W0 : wf_ty t0') by (apply W'; left; reflexivity).
  destruct rest' as [|t1 r].
  - (* a single input on the right: a single input on the left *)
    destruct S as [ds [P _]]. apply Permutation_length in P. cbn [List.length] in P. rewrite app_length in P.
    destruct rest; [reflexivity|cbn [List.length] in P; lia].
  - assert (W1 : wf_ty t1) by (apply W'; right; left; reflexivity).
    assert (E1 : py_eqb t1 t0' = true) by (apply E; left; reflexivity).
    assert (R0 : py_eqb t0' t0' = true).
    { apply (py_eqb_trans t0' t1 t0'); auto. apply py_eqb_sym; auto. }
    assert (All : forall u, In u (t0' :: t1 :: r) -> py_eqb u t0' = true).
    { intros u [<-|Hu]; [exact R0|apply E; exact Hu]. }
    assert (H0 : In t0 (t0' :: t1 :: r)) by (apply I1; left; reflexivity).
    apply forallb_forall. intros u Hu.
    assert (Hu' : In u (t0' :: t1 :: r)) by (apply I1; right; exact Hu).
    apply (py_eqb_trans u t0' t0); auto. apply py_eqb_sym; auto.
Qed.

(* ================= (C) the merged maps, key by key ================= *)
Notation keys m := (map fst m) (only parsing).

Definition req_vals (s : string) (ts : list ty) : list ty := flat_map (fun t => vals_of s (td_req t)) ts.
Definition opt_vals (s : string) (ts : list ty) : list ty := flat_map (fun t => vals_of s (td_opt t)) ts.
(* the key is a required key of every input *)
Definition reqb (s : string) (ts : list ty) : bool := Nat.eqb (List.length (req_vals s ts)) (List.length ts).

Lemma lookup_m_filter_eq (p : string * list ty -> bool) s m : NoDup (keys m) ->
  lookup_m s (filter p m) = if p (s, lookup_m s m) then lookup_m s m else [].
Proof.
  induction m as [|e r IH]; intros ND; [cbn; destruct (p (s, [])); reflexivity|].
  inversion ND as [|? ? Hn ND']; subst. cbn [filter lookup_m].
  destruct (String.eqb_spec s (fst e)) as [E|E].
  - subst s. replace (fst e, snd e) with e by (destruct e; reflexivity).
    destruct (p e); cbn [lookup_m].
    + rewrite String.eqb_refl. reflexivity.
    + apply lookup_m_notin. intros Hc. apply Hn.
      apply in_map_iff in Hc. destruct Hc as [x [Ex Hx]]. apply filter_In in Hx. destruct Hx as [Hx _].
      rewrite <- Ex. apply in_map. exact Hx.
  - destruct (p e); cbn [lookup_m].
    + destruct (String.eqb_spec s (fst e)) as [E2|_]; [contradiction|]. apply IH. exact ND'.
    + apply IH. exact ND'.
Qed.

Lemma keys_filter_iff (p : string * list ty -> bool) s m : NoDup (keys m) ->
  (In s (keys (filter p m)) <-> In s (keys m) /\ p (s, lookup_m s m) = true).
Proof.
  intros ND. split.
  - intros H. apply in_map_iff in H. destruct H as [[s0 l] [Es He]]. cbn [fst] in Es. subst s0.
    apply filter_In in He. destruct He as [He Pe]. split; [apply (in_map fst) in He; exact He|].
    rewrite (lookup_m_NoDup s l m ND He). exact Pe.
  - intros [H P]. apply lookup_m_In in H. apply (in_map fst _ (s, lookup_m s m)). apply filter_In. split; assumption.
Qed.

Lemma vals_of_flat_map {A} s (g : A -> list (string * ty)) l :
  vals_of s (flat_map g l) = flat_map (fun x => vals_of s (g x)) l.
Proof.
  unfold vals_of. induction l as [|x r IH]; [reflexivity|]. cbn [flat_map].
  rewrite filter_app, map_app, IH. reflexivity.
Qed.

Lemma lookup_required s ts :
  lookup_m s (required_of ts) = if reqb s ts then req_vals s ts else [].
Proof.
  change (required_of ts) with (filter (fun e : string * list ty => Nat.eqb (List.length (snd e)) (List.length ts)) (kvmap ts [])).
  rewrite lookup_m_filter_eq by (apply NoDup_kvmap; constructor). cbn [snd].
  rewrite lookup_m_kvmap. reflexivity.
Qed.

Lemma lookup_optional s ts :
  lookup_m s (optional_of ts) = (if reqb s ts then [] else req_vals s ts) ++ opt_vals s ts.
Proof.
  change (optional_of ts) with
    (add_fields (flat_map td_opt ts)
       (filter (fun e : string * list ty => negb (Nat.eqb (List.length (snd e)) (List.length ts))) (kvmap ts []))).
  rewrite lookup_m_add_fields, vals_of_flat_map.
  rewrite lookup_m_filter_eq by (apply NoDup_kvmap; constructor). cbn [snd].
  rewrite lookup_m_kvmap. cbn [lookup_m app]. unfold reqb, req_vals, opt_vals.
  destruct (Nat.eqb _ _); reflexivity.
Qed.

Definition in_req (s : string) (ts : list ty) : Prop := exists t, In t ts /\ In s (keys (td_req t)).
Definition in_opt (s : string) (ts : list ty) : Prop := exists t, In t ts /\ In s (keys (td_opt t)).

Lemma keys_required s ts : In s (keys (required_of ts)) <-> in_req s ts /\ reqb s ts = true.
Proof.
  change (required_of ts) with (filter (fun e : string * list ty => Nat.eqb (List.length (snd e)) (List.length ts)) (kvmap ts [])).
  rewrite keys_filter_iff by (apply NoDup_kvmap; constructor). cbn [snd].
  rewrite lookup_m_kvmap, keys_kvmap. cbn [lookup_m app map In]. unfold in_req, reqb, req_vals. tauto.
Qed.

Lemma keys_optional s ts :
  In s (keys (optional_of ts)) <-> in_opt s ts \/ (in_req s ts /\ reqb s ts = false).
Proof.
  change (optional_of ts) with
    (add_fields (flat_map td_opt ts)
       (filter (fun e : string * list ty => negb (Nat.eqb (List.length (snd e)) (List.length ts))) (kvmap ts []))).
  rewrite keys_add_fields. rewrite keys_filter_iff by (apply NoDup_kvmap; constructor). cbn [snd].
  rewrite lookup_m_kvmap, keys_kvmap. cbn [lookup_m app map In]. rewrite negb_true_iff.
  assert (X : In s (keys (flat_map td_opt ts)) <-> in_opt s ts).
  { unfold in_opt. rewrite in_map_iff. split.
    - intros [f [Ef Hf]]. apply in_flat_map in Hf. destruct Hf as [t [Ht Hf]]. exists t. split; [exact Ht|].
      rewrite <- Ef. apply in_map. exact Hf.
    - intros [t [Ht Hs]]. apply in_map_iff in Hs. destruct Hs as [f [Ef Hf]]. exists f. split; [exact Ef|].
      apply in_flat_map. exists t. auto. }
  rewrite X. unfold in_req, reqb, req_vals. tauto.
Qed.

Lemma flat_map_length_ones {A} (g : A -> list ty) (l : list A) :
  (forall x, In x l -> List.length (g x) = 1) -> List.length (flat_map g l) = List.length l.
Proof.
  induction l as [|a r IH]; intros H; [reflexivity|]. cbn [flat_map List.length]. rewrite app_length.
  rewrite (H a (or_introl eq_refl)), IH; [reflexivity|]. intros x Hx. apply H. right. exact Hx.
Qed.

(* for well-formed inputs, "counted n times" means "a required key of every input" *)
Lemma reqb_spec s ts : Forall wf_ty ts ->
  (reqb s ts = true <-> forall t, In t ts -> In s (keys (td_req t))).
Proof.
  intros W. rewrite Forall_forall in W. unfold reqb, req_vals. rewrite Nat.eqb_eq.
  assert (Le : forall y, In y ts -> List.length (vals_of s (td_req y)) <= 1).
  { intros y Hy. apply vals_of_length_le. destruct (wf_td_parts y (W y Hy)) as [ND _]. exact ND. }
  split.
  - intros L t Ht. apply vals_of_nonempty_key.
    apply (flat_map_length_all (fun t => vals_of s (td_req t)) ts Le L t Ht).
  - intros H. apply flat_map_length_ones. intros t Ht. specialize (Le t Ht). specialize (H t Ht).
    apply in_map_iff in H. destruct H as [[s0 ft] [Es Hf]]. cbn [fst] in Es. subst s0.
    apply In_vals_of in Hf. destruct (vals_of s (td_req t)) as [|a [|b l]]; [destruct Hf|reflexivity|cbn in Le; lia].
Qed.

Lemma reqb_same s ts ts' : Forall wf_ty ts -> same_inputs ts ts' -> reqb s ts = reqb s ts'.
Proof.
  intros W S. pose proof (si_wf _ _ S W) as W'. apply si_incl in S. destruct S as [I1 I2].
  apply bool_eq_iff; rewrite !reqb_spec by assumption; intros H t Ht; apply H; auto.
Qed.

Lemma in_req_same s ts ts' : same_inputs ts ts' -> (in_req s ts <-> in_req s ts').
Proof. intros S. apply si_incl in S. destruct S as [I1 I2]. unfold in_req. split; intros [t [Ht H]]; exists t; auto. Qed.

Lemma in_opt_same s ts ts' : same_inputs ts ts' -> (in_opt s ts <-> in_opt s ts').
Proof. intros S. apply si_incl in S. destruct S as [I1 I2]. unfold in_opt. split; intros [t [Ht H]]; exists t; auto. Qed.

Section MapsSame.
Variables ts ts' : list ty.
Hypothesis W : Forall wf_ty ts.
Hypothesis S : same_inputs ts ts'.

Lemma keys_required_same s : In s (keys (required_of ts)) <-> In s (keys (required_of ts')).
Proof. rewrite !keys_required, (reqb_same s ts ts' W S), (in_req_same s ts ts' S). reflexivity. Qed.

Lemma keys_optional_same s : In s (keys (optional_of ts)) <-> In s (keys (optional_of ts')).
Proof.
  rewrite !keys_optional, (reqb_same s ts ts' W S), (in_req_same s ts ts' S), (in_opt_same s ts ts' S).
  reflexivity.
Qed.

Lemma req_vals_same s : same_inputs (req_vals s ts) (req_vals s ts').
Proof. apply si_flat_map; [|exact S]. intros x y. apply tdu_vals_req. Qed.

Lemma opt_vals_same s : same_inputs (opt_vals s ts) (opt_vals s ts').
Proof. apply si_flat_map; [|exact S]. intros x y. apply tdu_vals_opt. Qed.

Lemma lookup_required_same s : same_inputs (lookup_m s (required_of ts)) (lookup_m s (required_of ts')).
Proof. rewrite !lookup_required, <- (reqb_same s ts ts' W S). apply si_cond. apply req_vals_same. Qed.

Lemma lookup_optional_same s : same_inputs (lookup_m s (optional_of ts)) (lookup_m s (optional_of ts')).
Proof.
  rewrite !lookup_optional, <- (reqb_same s ts ts' W S). apply si_app; [|apply opt_vals_same].
  destruct (reqb s ts); [apply si_nil|apply req_vals_same].
Qed.

Lemma same_keys_length (m m' : list (string * list ty)) :
  NoDup (keys m) -> NoDup (keys m') -> (forall s, In s (keys m) <-> In s (keys m')) -> List.length m = List.length m'.
Proof.
  intros ND ND' K. rewrite <- (map_length fst m), <- (map_length fst m').
  apply Nat.le_antisymm; apply NoDup_incl_length; try assumption; intros s Hs; apply K; exact Hs.
Qed.

Lemma required_length_same : List.length (required_of ts) = List.length (required_of ts').
Proof. apply same_keys_length; [apply ND_required'|apply ND_required'|apply keys_required_same]. Qed.

Lemma optional_length_same : List.length (optional_of ts) = List.length (optional_of ts').
Proof. apply same_keys_length; [apply ND_optional'|apply ND_optional'|apply keys_optional_same]. Qed.

Lemma all_values_same :
  same_inputs (flat_map snd (required_of ts) ++ flat_map snd (optional_of ts))
                 (flat_map snd (required_of ts') ++ flat_map snd (optional_of ts')).
Proof.
  apply si_app; apply si_keys_flat;
    try apply ND_required'; try apply ND_optional';
    [apply keys_required_same|apply lookup_required_same|apply keys_optional_same|apply lookup_optional_same].
Qed.
End MapsSame.

Lemma keys_disjoint_iff (a b : list (string * list ty)) :
  keys_disjoint a b = true <-> (forall s, In s (keys a) -> In s (keys b) -> False).
Proof.
  split; [intros H s; apply (keys_disjoint_spec a b s H)|].
  intros H. unfold keys_disjoint. apply forallb_forall. intros e He. apply negb_true_iff.
  apply existsb_false_iff. intros e' He'. destruct (String.eqb_spec (fst e) (fst e')) as [E|E]; [|reflexivity].
  exfalso. apply (H (fst e)); [apply in_map; exact He|rewrite E; apply in_map; exact He'].
Qed.

Lemma keys_disjoint_same ts ts' : Forall wf_ty ts -> same_inputs ts ts' ->
  keys_disjoint (required_of ts) (optional_of ts) = keys_disjoint (required_of ts') (optional_of ts').
Proof.
  intros W S. apply bool_eq_iff; rewrite !keys_disjoint_iff; intros H s H1 H2; apply (H s).
  - apply (keys_required_same ts ts' W S). exact H1.
  - apply (keys_optional_same ts ts' W S). exact H2.
  - apply (keys_required_same ts ts' W S). exact H1.
  - apply (keys_optional_same ts ts' W S). exact H2.
Qed.
