(* Proofs/StubRenderModule.v — C12, layout of a module stub: every rendered stub of well-formed definitions parses
   back to exactly the definitions that were placed; build_module_stubs places each definition once. *)
From Coq Require Import List Bool Arith ZArith String Ascii Lia Permutation.
From MT Require Import Constants StubRender StubRenderSig.
Import ListNotations.
Open Scope list_scope.

Definition wf_fstub (f : fstub) : Prop := valid_signature (fs_params f) = true.

Definition item_of (cls : list string) (f : fstub) : item :=
  Item cls (fs_name f) (decorator_of (fs_kind f)) (fs_async f) (map erase (fs_params f)) (isSome (fs_ret f)).

(* ---------------------------------------------------------------------------------------------- *)
(* one function                                                                                    *)
(* ---------------------------------------------------------------------------------------------- *)
Lemma parse_function : forall st st' prefix f rest,
  enter st prefix = Some st' -> wf_fstub f ->
  parse_lines st None (render_function prefix f ++ rest)
  = option_map (cons (item_of (class_of_state st') f)) (parse_lines st' None rest).
Proof.
  intros st st' prefix f rest He Hw. unfold render_function.
  set (sig := map (strip_tok (fs_strip f)) _).
  assert (Hs : reparse_sig sig = Some (map erase (fs_params f), isSome (fs_ret f))).
  { subst sig. unfold render_signature. now apply reparse_sig_stripped. }
  clearbody sig. unfold item_of.
  destruct (fs_kind f); cbn [decorator_of map app parse_lines]; rewrite ?He; cbn [parse_lines];
    rewrite ?String.eqb_refl, ?He, Hs; reflexivity.
Qed.

Lemma option_map_cons_app : forall {A} (x : A) l (y : option (list A)),
  option_map (cons x) (option_map (app l) y) = option_map (app (x :: l)) y.
Proof. intros. destruct y; reflexivity. Qed.

Lemma parse_body : forall fs n st rest,
  st = SClass n None \/ st = SClass n (Some indent4) -> Forall wf_fstub fs ->
  parse_lines st None (flat_map (render_function indent4) fs ++ rest)
  = option_map (app (map (item_of [n]) fs))
               (parse_lines (match fs with [] => st | _ => SClass n (Some indent4) end) None rest).
Proof.
  induction fs as [| f r IH]; intros n st rest Hst Hw.
  - cbn. destruct (parse_lines st None rest); reflexivity.
  - inversion Hw; subst. cbn [flat_map]. rewrite <- app_assoc.
    assert (He : enter st indent4 = Some (SClass n (Some indent4))) by (destruct Hst; subst; reflexivity).
    rewrite (parse_function _ _ _ _ _ He) by assumption.
    rewrite (IH n (SClass n (Some indent4)) rest) by auto.
    cbn [class_of_state map]. rewrite option_map_cons_app.
    destruct r; reflexivity.
Qed.

(* ---------------------------------------------------------------------------------------------- *)
(* sorting is a permutation                                                                        *)
(* ---------------------------------------------------------------------------------------------- *)
Lemma insert_sorted_perm : forall {V} (kv : string * V) l, Permutation (insert_sorted kv l) (kv :: l).
Proof.
  induction l as [| h t IH]; cbn; [auto|].
  destruct (String.leb (fst kv) (fst h)); [auto|].
  rewrite IH. apply perm_swap.
Qed.

Lemma sort_by_key_perm : forall {V} (l : list (string * V)), Permutation (sort_by_key l) l.
Proof.
  induction l as [| h t IH]; cbn; [auto|]. rewrite insert_sorted_perm. now constructor.
Qed.

Lemma sort_by_key_nonempty : forall {V} (l : list (string * V)), l <> [] -> sort_by_key l <> [].
Proof.
  intros V l H E. pose proof (sort_by_key_perm l) as P. rewrite E in P.
  apply Permutation_nil in P. congruence.
Qed.

(* ---------------------------------------------------------------------------------------------- *)
(* parts of a module                                                                               *)
(* ---------------------------------------------------------------------------------------------- *)
Inductive part := PFun (f : fstub) | PClass (c : cstub).

Definition part_lines (p : part) : list line :=
  match p with PFun f => render_function EmptyString f | PClass c => render_class c end.

Definition class_funcs (c : cstub) : list fstub := map snd (sort_by_key (cs_funcs c)).

Definition part_items (p : part) : list item :=
  match p with
  | PFun f => [item_of [] f]
  | PClass c => map (item_of [cs_name c]) (class_funcs c)
  end.

Definition wf_class (c : cstub) : Prop :=
  ident_ok (cs_name c) = true /\ cs_funcs c <> [] /\ (forall k f, In (k, f) (cs_funcs c) -> wf_fstub f).

Definition wf_part (p : part) : Prop :=
  match p with PFun f => wf_fstub f | PClass c => wf_class c end.

Definition ok_state (st : pstate) : Prop := st = STop \/ exists n i, st = SClass n (Some i).

Lemma enter_top : forall st, ok_state st -> enter st EmptyString = Some STop.
Proof. intros st [->|[n [i ->]]]; reflexivity. Qed.

Lemma flat_map_snd : forall {A B C} (g : B -> list C) (l : list (A * B)),
  flat_map (fun kv => g (snd kv)) l = flat_map g (map snd l).
Proof. intros. induction l; cbn; [reflexivity|]. now rewrite IHl. Qed.

Lemma parse_part : forall st p,
  ok_state st -> wf_part p ->
  exists st', ok_state st' /\
    forall rest, parse_lines st None (part_lines p ++ rest)
                 = option_map (app (part_items p)) (parse_lines st' None rest).
Proof.
  intros st [f | c] Hst Hw; cbn [part_lines part_items].
  - exists STop. split; [now left|]. intros rest.
    rewrite (parse_function _ _ _ _ _ (enter_top st Hst)) by exact Hw.
    cbn [class_of_state]. destruct (parse_lines STop None rest); reflexivity.
  - destruct Hw as [Hid [Hne Hall]].
    exists (SClass (cs_name c) (Some indent4)). split; [right; eauto|]. intros rest.
    unfold render_class. cbn [app parse_lines]. rewrite (enter_top st Hst), Hid.
    rewrite flat_map_snd. fold (class_funcs c).
    rewrite (parse_body (class_funcs c) (cs_name c) (SClass (cs_name c) None)).
    + destruct (class_funcs c) eqn:E; [|reflexivity].
      exfalso. unfold class_funcs in E. apply map_eq_nil in E. now apply sort_by_key_nonempty in E.
    + now left.
    + apply Forall_forall. intros f Hf. unfold class_funcs in Hf.
      apply in_map_iff in Hf as [[k f'] [<- Hin]].
      apply (Permutation_in _ (sort_by_key_perm _)) in Hin. eapply Hall; eauto.
Qed.

Lemma parse_end : forall st, ok_state st -> parse_lines st None [] = Some [].
Proof. intros st [->|[n [i ->]]]; reflexivity. Qed.

Lemma parse_parts : forall parts st,
  ok_state st -> Forall wf_part parts ->
  parse_lines st None (join_parts (map part_lines parts)) = Some (flat_map part_items parts).
Proof.
  induction parts as [| p [| p2 r] IH]; intros st Hst Hw.
  - cbn. now apply parse_end.
  - inversion Hw; subst. cbn [map join_parts flat_map].
    destruct (parse_part st p Hst H1) as [st' [Hst' Hp]].
    rewrite <- (app_nil_r (part_lines p)), Hp, (parse_end _ Hst'). reflexivity.
  - inversion Hw; subst.
    change (join_parts (map part_lines (p :: p2 :: r)))
      with (part_lines p ++ [LBlank; LBlank] ++ join_parts (map part_lines (p2 :: r))).
    destruct (parse_part st p Hst H1) as [st' [Hst' Hp]].
    rewrite Hp. cbn [app parse_lines]. rewrite (IH st' Hst' H2). reflexivity.
Qed.

Definition parts_of (m : mstub) : list part :=
  map (fun kv => PFun (snd kv)) (sort_by_key (ms_funcs m))
  ++ map (fun kv => PClass (snd kv)) (sort_by_key (ms_classes m)).

Definition items_of_mstub (m : mstub) : list item := flat_map part_items (parts_of m).

Definition wf_mstub (m : mstub) : Prop :=
  (forall k f, In (k, f) (ms_funcs m) -> wf_fstub f) /\ (forall k c, In (k, c) (ms_classes m) -> wf_class c).

Lemma module_parts_parts : forall m, module_parts m = map part_lines (parts_of m).
Proof. intros. unfold module_parts, parts_of. now rewrite map_app, !map_map. Qed.

Theorem render_module_parses : forall m,
  wf_mstub m -> parse_module (render_module m) = Some (items_of_mstub m).
Proof.
  intros m [Hf Hc]. unfold parse_module, render_module. rewrite module_parts_parts.
  apply parse_parts; [now left|].
  unfold parts_of. apply Forall_app. split; apply Forall_forall; intros p Hp;
    apply in_map_iff in Hp as [[k x] [<- Hin]]; apply (Permutation_in _ (sort_by_key_perm _)) in Hin; cbn; eauto.
Qed.

(* ---------------------------------------------------------------------------------------------- *)
(* str.split(".") / ".".join                                                                       *)
(* ---------------------------------------------------------------------------------------------- *)
Lemma split_dot_nonempty : forall s, split_dot s <> [].
Proof.
  induction s as [| c r IH]; cbn; [discriminate|].
  destruct (Ascii.eqb c dot); [discriminate|]. destruct (split_dot r); discriminate.
Qed.

Lemma join_split : forall s, join_dot (split_dot s) = s.
Proof.
  induction s as [| c r IH]; [reflexivity|]. cbn [split_dot].
  destruct (Ascii.eqb c dot) eqn:E.
  - apply Ascii.eqb_eq in E. subst c.
    destruct (split_dot r) as [| h t] eqn:Es; [now apply split_dot_nonempty in Es|].
    cbn [join_dot]. cbn [join_dot] in IH. cbn. now rewrite IH.
  - destruct (split_dot r) as [| h t] eqn:Es; [now apply split_dot_nonempty in Es|].
    destruct t; cbn [join_dot] in *; cbn; now rewrite IH.
Qed.

Lemma split_dot_no_dot : forall s, Forall (fun x => no_dot x = true) (split_dot s).
Proof.
  induction s as [| c r IH]; cbn [split_dot]; [repeat constructor|].
  destruct (Ascii.eqb c dot) eqn:E; [constructor; [reflexivity|assumption]|].
  destruct (split_dot r) as [| h t]; [repeat constructor; cbn; now rewrite E|].
  inversion IH; subst. constructor; [cbn; now rewrite E|assumption].
Qed.

Lemma fd_path_decomp : forall d, fd_path d = fd_class_path d ++ [fd_name d].
Proof. intros. unfold fd_class_path, fd_name. apply app_removelast_last, split_dot_nonempty. Qed.

Definition fd_key (d : fdef) : list string * string := (fd_class_path d, fd_name d).

Lemma fd_key_qualname : forall d1 d2, fd_key d1 = fd_key d2 -> fd_qualname d1 = fd_qualname d2.
Proof.
  intros d1 d2 H. injection H as H1 H2.
  rewrite <- (join_split (fd_qualname d1)), <- (join_split (fd_qualname d2)).
  fold (fd_path d1) (fd_path d2). now rewrite !fd_path_decomp, H1, H2.
Qed.

(* ---------------------------------------------------------------------------------------------- *)
(* dict lemmas                                                                                     *)
(* ---------------------------------------------------------------------------------------------- *)
Lemma lookup_in : forall {V} k (d : list (string * V)) v, lookup k d = Some v -> In (k, v) d.
Proof.
  induction d as [| [k' v'] r IH]; cbn; intros v H; [discriminate|].
  destruct (String.eqb k k') eqn:E.
  - apply String.eqb_eq in E. subst. injection H as ->. now left.
  - right. auto.
Qed.

Lemma lookup_none : forall {V} k (d : list (string * V)), lookup k d = None -> forall v, ~ In (k, v) d.
Proof.
  induction d as [| [k' v'] r IH]; cbn; intros H v; [tauto|].
  destruct (String.eqb k k') eqn:E; [discriminate|].
  intros [Heq|Hin]; [injection Heq as -> ->; now rewrite String.eqb_refl in E|]. eapply IH; eauto.
Qed.

Lemma upd_in : forall {V} k (f : V -> V) dflt d k' v',
  In (k', v') (upd k f dflt d) ->
  In (k', v') d \/ (k' = k /\ exists v, v' = f v /\ (In (k, v) d \/ v = dflt)).
Proof.
  induction d as [| [k0 v0] r IH]; cbn; intros k' v' H.
  - destruct H as [H|[]]. injection H as <- <-. right. split; [reflexivity|]. exists dflt. auto.
  - destruct (String.eqb k k0) eqn:E.
    + apply String.eqb_eq in E. subst k0. destruct H as [H|H].
      * injection H as <- <-. right. split; [reflexivity|]. exists v0. split; [reflexivity|]. left. now left.
      * left. now right.
    + destruct H as [H|H]; [left; now left|].
      destruct (IH _ _ H) as [H'|[-> [v [-> Hv]]]]; [left; now right|].
      right. split; [reflexivity|]. exists v. split; [reflexivity|]. destruct Hv; [left; now right|now right].
Qed.

Lemma upd_nonempty : forall {V} k (f : V -> V) dflt d, upd k f dflt d <> [].
Proof. intros. destruct d as [| [k0 v0] r]; cbn; [discriminate|]. destruct (String.eqb k k0); discriminate. Qed.

Lemma upd_perm : forall {V E} (g : string * V -> list E) k f dflt d e,
  (forall v, lookup k d = Some v -> Permutation (g (k, f v)) (e :: g (k, v))) ->
  (lookup k d = None -> g (k, f dflt) = [e]) ->
  Permutation (flat_map g (upd k f dflt d)) (e :: flat_map g d).
Proof.
  intros V E g k f dflt. induction d as [| [k' v] r IH]; intros e H1 H2.
  - cbn. rewrite H2 by reflexivity. cbn. auto.
  - cbn [upd]. cbn [lookup] in H1, H2. destruct (String.eqb k k') eqn:Ek.
    + apply String.eqb_eq in Ek. subst k'. cbn [flat_map].
      change (e :: g (k, v) ++ flat_map g r) with ((e :: g (k, v)) ++ flat_map g r).
      apply Permutation_app_tail. now apply H1.
    + cbn [flat_map]. rewrite (IH e H1 H2). apply Permutation_sym, Permutation_middle.
Qed.

(* ---------------------------------------------------------------------------------------------- *)
(* build_module_stubs keeps stubs well-formed (outside the nested-class finding)                    *)
(* ---------------------------------------------------------------------------------------------- *)
Definition good_def (d : fdef) : Prop := valid_def d = true /\ kf_nested_class d = false.

Lemma good_def_shape : forall d, good_def d ->
  wf_fstub (fstub_of d) /\
  (fd_class_path d = [] \/ exists x, fd_class_path d = [x] /\ ident_ok x = true).
Proof.
  intros d [Hv Hk]. unfold valid_def in Hv. apply andb_true_iff in Hv as [Hne Hsig].
  split; [exact Hsig|].
  unfold kf_nested_class in Hk. apply Nat.leb_gt in Hk.
  destruct (fd_class_path d) as [| x [| y t]] eqn:E; [now left| |cbn in Hk; lia].
  right. exists x. split; [reflexivity|].
  pose proof (fd_path_decomp d) as Hp. rewrite E in Hp.
  pose proof (split_dot_no_dot (fd_qualname d)) as Hnd. fold (fd_path d) in Hnd. rewrite Hp in Hnd.
  rewrite Hp in Hne. cbn in Hne. apply andb_true_iff in Hne as [Hx _].
  inversion Hnd; subst. unfold ident_ok. now rewrite Hx.
Qed.

Lemma dict_set_in : forall {V} k (v : V) d k' v', In (k', v') (dict_set k v d) -> In (k', v') d \/ (k' = k /\ v' = v).
Proof.
  intros V k v d k' v' H. apply upd_in in H as [H|[-> [v0 [-> _]]]]; [now left|now right].
Qed.

Lemma add_entry_wf : forall m d, wf_mstub m -> good_def d -> wf_mstub (add_entry m d).
Proof.
  intros m d [Hf Hc] Hd. destruct (good_def_shape d Hd) as [Hw [Hp|[x [Hp Hid]]]]; unfold add_entry; rewrite Hp.
  - split; cbn [ms_funcs ms_classes]; [|exact Hc].
    intros k f Hin. apply dict_set_in in Hin as [Hin|[_ ->]]; eauto.
  - split; cbn [ms_funcs ms_classes]; [exact Hf|]. cbn [join_dot].
    intros k c Hin. apply upd_in in Hin as [Hin|[-> [c0 [-> Hc0]]]]; [eauto|].
    assert (Hc0' : ident_ok (cs_name c0) = true /\ forall k f, In (k, f) (cs_funcs c0) -> wf_fstub f).
    { destruct Hc0 as [Hin| ->].
      - destruct (Hc _ _ Hin) as [? [_ ?]]. auto.
      - cbn. split; [exact Hid|tauto]. }
    destruct Hc0' as [Hid0 Hall0].
    repeat split; cbn [cs_name cs_funcs]; [exact Hid0|apply upd_nonempty|].
    intros k f Hin. apply dict_set_in in Hin as [Hin|[_ ->]]; eauto.
Qed.

Lemma fold_add_entry_wf : forall ds m, wf_mstub m -> Forall good_def ds -> wf_mstub (fold_left add_entry ds m).
Proof.
  induction ds as [| d r IH]; intros m Hm Hd; [exact Hm|].
  inversion Hd; subst. cbn. apply IH; [now apply add_entry_wf|assumption].
Qed.

Lemma build_one_wf : forall ds, Forall good_def ds -> wf_mstub (build_one ds).
Proof. intros. apply fold_add_entry_wf; [split; intros ? ? []|assumption]. Qed.

Theorem build_one_parses : forall ds,
  Forall good_def ds -> parse_module (render_module (build_one ds)) = Some (items_of_mstub (build_one ds)).
Proof. intros. now apply render_module_parses, build_one_wf. Qed.

(* ---------------------------------------------------------------------------------------------- *)
(* ... and places every definition once                                                            *)
(* ---------------------------------------------------------------------------------------------- *)
Definition fun_items (cls : list string) (kv : string * fstub) : list item := [item_of cls (snd kv)].
Definition class_items (kc : string * cstub) : list item :=
  flat_map (fun_items [cs_name (snd kc)]) (cs_funcs (snd kc)).
(* the items of a module stub in dict order *)
Definition ientries (m : mstub) : list item :=
  flat_map (fun_items []) (ms_funcs m) ++ flat_map class_items (ms_classes m).

Lemma flat_map_perm_ext : forall {A B} (f g : A -> list B) l,
  (forall x, In x l -> Permutation (f x) (g x)) -> Permutation (flat_map f l) (flat_map g l).
Proof.
  induction l as [| a r IH]; intros H; cbn; [auto|].
  apply Permutation_app; [apply H; now left|apply IH; intros; apply H; now right].
Qed.

Lemma map_flat_single : forall {A B} (h : A -> B) l, map h l = flat_map (fun x => [h x]) l.
Proof. induction l; cbn; [reflexivity|]. now rewrite IHl. Qed.

Lemma items_of_mstub_perm : forall m, Permutation (items_of_mstub m) (ientries m).
Proof.
  intros m. unfold items_of_mstub, parts_of, ientries. rewrite flat_map_app.
  apply Permutation_app.
  - rewrite flat_map_concat_map, map_map, <- flat_map_concat_map. cbn [part_items].
    rewrite (sort_by_key_perm (ms_funcs m)). reflexivity.
  - rewrite flat_map_concat_map, map_map, <- flat_map_concat_map. cbn [part_items].
    rewrite (sort_by_key_perm (ms_classes m)).
    apply flat_map_perm_ext. intros [k c] _. unfold class_items, class_funcs. cbn [snd].
    rewrite map_map, map_flat_single.
    rewrite (sort_by_key_perm (cs_funcs c)). reflexivity.
Qed.

Definition coherent (m : mstub) : Prop :=
  (forall k f, In (k, f) (ms_funcs m) -> k = fs_name f)
  /\ (forall k c, In (k, c) (ms_classes m) -> k = cs_name c /\ forall k' f, In (k', f) (cs_funcs c) -> k' = fs_name f).

Definition item_key (it : item) : list string * string := (it_class it, it_name it).

Lemma expected_item_key : forall d, item_key (expected_item d) = fd_key d.
Proof. reflexivity. Qed.

Lemma in_flat_map_intro : forall {A B} (f : A -> list B) l x y, In x l -> In y (f x) -> In y (flat_map f l).
Proof. intros. apply in_flat_map. eauto. Qed.

Lemma add_entry_step : forall m d done,
  coherent m -> Permutation (ientries m) (map expected_item done) ->
  good_def d -> ~ In (fd_key d) (map fd_key done) ->
  coherent (add_entry m d) /\ Permutation (ientries (add_entry m d)) (map expected_item (done ++ [d])).
Proof.
  intros m d done [Cf Cc] P Hd Hfresh.
  destruct (good_def_shape d Hd) as [_ Hshape].
  (* an item of m with d's key contradicts freshness *)
  assert (Hno : forall it, In it (ientries m) -> item_key it <> fd_key d).
  { intros it Hin Hk. apply (Permutation_in _ P) in Hin. apply in_map_iff in Hin as [d' [<- Hd']].
    rewrite expected_item_key in Hk. apply Hfresh. rewrite <- Hk. now apply in_map. }
  rewrite map_app. cbn [map].
  assert (Hgoal : forall l, Permutation l (expected_item d :: ientries m) ->
                            Permutation l (map expected_item done ++ [expected_item d])).
  { intros l Hl. rewrite Hl, P. apply Permutation_cons_append. }
  unfold add_entry. destruct Hshape as [Hp|[x [Hp Hid]]]; rewrite Hp.
  - (* module-level function *)
    split.
    + split; cbn [ms_funcs ms_classes]; [|exact Cc].
      intros k f Hin. apply dict_set_in in Hin as [Hin|[-> ->]]; [eauto|reflexivity].
    + apply Hgoal. unfold ientries. cbn [ms_funcs ms_classes].
      change (expected_item d :: flat_map (fun_items []) (ms_funcs m) ++ flat_map class_items (ms_classes m))
        with ((expected_item d :: flat_map (fun_items []) (ms_funcs m)) ++ flat_map class_items (ms_classes m)).
      apply Permutation_app_tail. unfold dict_set. apply upd_perm.
      * intros f' Hl. exfalso. apply lookup_in in Hl.
        apply (Hno (item_of [] f')).
        -- unfold ientries. apply in_or_app. left. eapply in_flat_map_intro; [exact Hl|now left].
        -- unfold item_key, fd_key. cbn. rewrite Hp. f_equal. symmetry. apply (Cf _ _ Hl).
      * intros _. unfold fun_items, expected_item, item_of. cbn. now rewrite Hp.
  - (* method of a top-level class *)
    cbn [join_dot].
    split.
    + split; cbn [ms_funcs ms_classes]; [exact Cf|].
      intros k c Hin. apply upd_in in Hin as [Hin|[-> [c0 [-> Hc0]]]]; [eauto|].
      cbn [cs_name cs_funcs].
      destruct Hc0 as [Hin| ->].
      * destruct (Cc _ _ Hin) as [Hn Hfs]. split; [exact Hn|].
        intros k' f Hin'. apply dict_set_in in Hin' as [Hin'|[-> ->]]; [eauto|reflexivity].
      * cbn. split; [reflexivity|]. intros k' f [Hin'|[]]. now injection Hin' as <- <-.
    + apply Hgoal. unfold ientries. cbn [ms_funcs ms_classes].
      rewrite Permutation_middle. apply Permutation_app_head. apply upd_perm.
      * intros c Hl. apply lookup_in in Hl. destruct (Cc _ _ Hl) as [Hn Hfs].
        unfold class_items. cbn [snd cs_name cs_funcs]. unfold dict_set. apply upd_perm.
        -- intros f' Hl'. exfalso. apply lookup_in in Hl'.
           apply (Hno (item_of [cs_name c] f')).
           ++ unfold ientries. apply in_or_app. right. eapply in_flat_map_intro; [exact Hl|].
              unfold class_items. cbn [snd]. eapply in_flat_map_intro; [exact Hl'|now left].
           ++ unfold item_key, fd_key. cbn. rewrite Hp, <- Hn. f_equal. symmetry. apply (Hfs _ _ Hl').
        -- intros _. unfold fun_items, expected_item, item_of. cbn. now rewrite Hp, <- Hn.
      * intros _. unfold class_items, fun_items, expected_item, item_of. cbn. now rewrite Hp.
Qed.

Lemma fold_add_entry_perm : forall ds m done,
  coherent m -> Permutation (ientries m) (map expected_item done) ->
  Forall good_def ds -> NoDup (map fd_key (done ++ ds)) ->
  Permutation (ientries (fold_left add_entry ds m)) (map expected_item (done ++ ds)).
Proof.
  induction ds as [| d r IH]; intros m done C P Hd Hn.
  - cbn. now rewrite app_nil_r.
  - inversion Hd; subst. cbn [fold_left].
    assert (Hfresh : ~ In (fd_key d) (map fd_key done)).
    { rewrite map_app in Hn. cbn in Hn. apply NoDup_remove_2 in Hn. intros Hin. apply Hn. apply in_or_app. now left. }
    destruct (add_entry_step m d done C P H1 Hfresh) as [C' P'].
    replace (done ++ d :: r) with ((done ++ [d]) ++ r) in * by (rewrite <- app_assoc; reflexivity).
    apply IH; assumption.
Qed.

Lemma nodup_keys : forall ds, NoDup (map fd_qualname ds) -> NoDup (map fd_key ds).
Proof.
  induction ds as [| d r IH]; intros H; cbn; [constructor|].
  cbn in H. inversion H; subst. constructor; [|auto].
  intros Hin. apply in_map_iff in Hin as [d' [Hk Hd']]. apply H2.
  apply in_map_iff. exists d'. split; [|assumption]. now apply fd_key_qualname.
Qed.

Theorem build_one_placed : forall ds,
  NoDup (map fd_qualname ds) -> Forall good_def ds ->
  exists items, parse_module (render_module (build_one ds)) = Some items
                /\ Permutation items (map expected_item ds).
Proof.
  intros ds Hn Hd. exists (items_of_mstub (build_one ds)). split; [now apply build_one_parses|].
  rewrite items_of_mstub_perm. unfold build_one.
  apply (fold_add_entry_perm ds (MStub [] []) []); cbn; auto using nodup_keys.
  split; intros ? ? [].
Qed.
