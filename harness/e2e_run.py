"""Subprocess side of the C01 tie: generated program -> real monkeytype.trace(config) -> SQLite -> real `stub` CLI ->
annotations evaluated in the stub's own namespace -> Gallina case with the values the program recorded about itself.

usage: python -m harness.e2e_run <workdir> <seed> <n_programs>"""
import importlib
import io
import json
import os
import random
import sys

from harness import common
from harness.tracer_prog import HELPER_SRC, ProgGen
from harness.tracer_run import load_module
from harness.valgen import ValGen

REWRITERS = ["none", "RemoveEmptyContainers()", "RewriteConfigDict()", "RewriteLargeUnion(2)", "RewriteLargeUnion(5)",
             "RewriteGenerator()", "RewriteMostSpecificCommonBase()", "NoOpRewriter()", "DEFAULT_REWRITER", "DEFAULT_REWRITER",
             "DEFAULT_REWRITER"]
FLAGS = [[], [], ["--ignore-existing-annotations"], ["--omit-existing-annotations"], ["--disable-type-rewriting"]]

CFG_TMPL = '''
import os
from monkeytype.config import DefaultConfig
from monkeytype.db.sqlite import SQLiteStore
from monkeytype.typing import *
class _Cfg(DefaultConfig):
    def max_typed_dict_size(self):
        return {k}
    def type_rewriter(self):
        return {rewriter}
    def trace_store(self):
        return SQLiteStore.make_store({db!r})
    def code_filter(self):
        target = {target!r}
        return lambda code: code.co_filename == target
    def sample_rate(self):
        return None
CONFIG = _Cfg()
'''


BATCH_SEED = None


def run_one(workdir, idx, rnd, ct):
    import monkeytype
    from monkeytype import cli
    from harness.stubeval import StubEval
    nvals = 8
    src = ProgGen(rnd, nvals, safe_generators=True).build()
    name = f"e2e_{os.getpid()}_{idx}"
    path = os.path.join(workdir, name + ".py")
    with open(path, "w") as f:
        f.write(src)
    k = rnd.choice([0, 0, 1, 2, 3, 10])
    rewriter = rnd.choice(REWRITERS)
    flags = rnd.choice(FLAGS)
    db = os.path.join(workdir, name + ".sqlite3")
    cfgname = f"e2ecfg_{os.getpid()}_{idx}"
    with open(os.path.join(workdir, cfgname + ".py"), "w") as f:
        f.write(CFG_TMPL.format(k=k, rewriter="NoOpRewriter()" if rewriter == "none" else rewriter, db=db, target=path))
    vrec = sys.modules["vrec"]
    vrec.R.reset()
    mod = load_module(path, name)
    vg = ValGen(rnd, max_depth=2)
    mod.V[:] = [vg.value() for _ in range(nvals)]
    # value families: every slot of V drawn from one family, so that a single position sees several related values
    # (the shapes the merge and the rewriters treat specially)
    if rnd.random() < 0.4:
        import collections
        from harness import fxclasses as fx
        fams = [
            # lists / sets / tuples of different class objects and of instances
            [[fx.A, fx.B], [fx.A], [int, str], [fx.B, fx.D, fx.A], [fx.A(), fx.B()], (fx.A, int), {fx.A, fx.B}, [fx.MyList, fx.A]],
            # homogeneous tuples of many lengths over two element types (RewriteLargeUnion's tuple rule)
            [(1,), (1, 2), (1, 2, 3), ("a",), ("a", "b"), (1, 2, 3, 4), ("a", "b", "c", "d", "e"), (), (1, 2, 3, 4, 5, 6)],
            # empty and non-empty containers of several kinds at one position (RemoveEmptyContainers)
            [{}, collections.defaultdict(int, {"a": 1}), [], [1], set(), {1}, {1: "x"}, collections.defaultdict(list), ()],
            # str-keyed dicts with overlapping key sets and differing value types (TypedDict merges across calls and levels)
            [[{"id": 1}], [{"id": 1, "tag": "x"}], {"id": 2, "tag": 7}, [{"id": 1}, {"id": 2, "tag": "y"}], {"id": "s"}, {"tag": None},
             {"id": 1, "tag": "x", "extra": [1]}, [[{"id": 1}], [{"tag": 2}]]],
            # more than five unrelated classes at one position (RewriteLargeUnion / common base)
            [fx.A(), fx.B(), fx.C(), fx.D(), fx.E(), fx.F(), fx.X(), fx.Y(), fx.XY1(), fx.YX1(), 1, "s", None],
            # a set with more than five element types next to small sets (large-union rewriting inside a container)
            [{None, 1, b"x", 2.5, (1, 2), "a"}, {1}, {1, 2}, {"s"}, {None, 1, b"x", 2.5, (1, 2), "a", True}, set()],
            # equal values of different classes
            [1, True, 1.0, {1}, {True}, {1.0}, (1, 2), (True, 2), {(1, 2)}, {(True, 2)}, {1: "a"}, {True: "a"}],
        ]
        fam = rnd.choice(fams)
        mod.V[:] = [rnd.choice(fam) for _ in range(nvals)]
        if rnd.random() < 0.5:
            mod.V[rnd.randrange(nvals)] = vg.value()
    if rnd.random() < 0.08:            # a value whose class cannot be looked up by name (recorded finding)
        mod.V[rnd.randrange(nvals)] = rnd.choice([{}.keys(), iter([]), sys, [sys], {"m": iter(())}])
    cfg = importlib.import_module(cfgname).CONFIG
    crashed = None
    with monkeytype.trace(cfg):
        try:
            mod.main()
        except BaseException as e:
            crashed = f"{type(e).__name__}: {e}"
    out, err = io.StringIO(), io.StringIO()
    rc = cli.main(["-v", "-c", f"{cfgname}:CONFIG"] + [f for f in flags if f == "--disable-type-rewriting"]
                  + ["stub", name] + [f for f in flags if f != "--disable-type-rewriting"], out, err)
    stub = out.getvalue()
    stats = {"path": path, "batch_seed": BATCH_SEED, "index": idx, "k": k, "rewriter": rewriter, "flags": flags, "rc": rc, "crashed": crashed, "stderr": err.getvalue()[:1200],
             "observations": len(vrec.R.obs)}
    if rc != 0 or not stub.strip():
        return {"term": None, "stats": stats, "stub": stub, "prog": name, "error": f"stub command failed rc={rc}: {err.getvalue()[-300:]}"}
    own = {n: c for n, c in vars(mod).items() if isinstance(c, type) and c.__module__ == name}
    try:
        se = StubEval(stub, own, ct)
    except SyntaxError as e:
        import re
        # a generated TypedDict class whose field name is not an identifier (dict keys "", "x y", "1a"): part of the
        # recorded TypedDict-rendering finding when max_typed_dict_size > 0
        in_td, bad_field = False, False
        for line in stub.splitlines():
            if line.startswith("class ") and "TypedDict" in line:
                in_td = True
            elif line and not line.startswith(" "):
                in_td = False
            elif in_td and line.startswith("    ") and not re.match(r"^    [A-Za-z_][A-Za-z_0-9]*: ", line):
                bad_field = True
        return {"term": None, "stats": stats, "stub": stub, "prog": name, "error": f"stub is not valid Python: {e}",
                "finding": "kf_typeddict_rendering" if (k > 0 and bad_field) else None}
    funcs = se.functions()
    # observations by (qualname, kind, name)
    obs = {}
    for q, kind, n, v in vrec.R.obs:
        obs.setdefault((q, kind, n), []).append(v)
    positions = []
    npos = nvals_checked = 0
    unresolved = []
    for q, d in funcs.items():
        for n, (srctext, term) in d["params"].items():
            vals = obs.get((q, "param", n), [])
            if term is None:
                unresolved.append(f"{q}.{n}: {srctext}")
                term = f"(TFwd {common.coq_str('?unresolved:' + srctext)})"
            positions.append(f"(EPos {common.coq_str(q + '.' + n)} PParam ({term}) {common.coq_list(common.reify_value(v, ct) for v in vals)} [])")
            npos += 1
            nvals_checked += len(vals)
        if d["return"] is not None:
            srctext, term = d["return"]
            if term is None:
                unresolved.append(f"{q}.return: {srctext}")
                term = f"(TFwd {common.coq_str('?unresolved:' + srctext)})"
            rets = obs.get((q, "return", None), [])
            ys = obs.get((q, "yield", None), [])
            positions.append(f"(EPos {common.coq_str(q + '.return')} {'PGen' if ys else 'PReturn'} ({term}) "
                             f"{common.coq_list(common.reify_value(v, ct) for v in rets)} {common.coq_list(common.reify_value(v, ct) for v in ys)})")
            npos += 1
            nvals_checked += len(rets) + len(ys)
    stats.update({"positions": npos, "values_checked": nvals_checked, "unresolved": unresolved[:5], "functions_in_stub": len(funcs),
                  "typed_dict_classes": len(se.tdstubs), "imports_ok": se.imports_ok})
    import builtins

    def hidden(v, depth=3):
        t = type(v)
        if t in (list, tuple, set) and depth:
            return any(hidden(e, depth - 1) for e in v)
        if t in (dict, __import__("collections").defaultdict) and depth:
            return any(hidden(a, depth - 1) or hidden(b, depth - 1) for a, b in v.items())
        return (t.__module__ == "builtins" and not hasattr(builtins, t.__qualname__) and t is not type(None)
                and not isinstance(v, common._CALLABLE_TYPES + (__import__("types").GeneratorType, type)))
    has_hidden = any(hidden(v) for _, _, _, v in vrec.R.obs)
    stats["hidden_builtin_value"] = has_hidden
    names = [t.name for t in se.tdstubs]
    collision = len(names) != len(set(names))
    stats["typed_dict_name_collision"] = collision
    term = (f"E2ECase {k} {common.coq_bool(se.imports_ok)} {common.coq_bool(has_hidden)} {common.coq_bool(collision)} "
            f"{common.coq_list(positions)}")
    del sys.modules[name]
    return {"term": term, "stats": stats, "stub": stub if idx < 3 else stub[:3000], "prog": name, "src": src if idx < 2 else None,
            "error": None}


def main():
    global BATCH_SEED
    workdir, seed, n = sys.argv[1], int(sys.argv[2]), int(sys.argv[3])
    BATCH_SEED = seed
    os.makedirs(workdir, exist_ok=True)
    with open(os.path.join(workdir, "vrec.py"), "w") as f:
        f.write(HELPER_SRC)
    sys.path.insert(0, workdir)
    load_module(os.path.join(workdir, "vrec.py"), "vrec")
    rnd = random.Random(seed)
    ct = common.ClassTable()
    out = []
    for i in range(n):
        try:
            out.append(run_one(workdir, i, rnd, ct))
        except Exception as e:
            import traceback
            out.append({"term": None, "stats": {"harness_error": f"{type(e).__name__}: {e}", "tb": traceback.format_exc()[-1200:]},
                        "error": "harness", "prog": f"#{i}", "stub": ""})
    json.dump({"cases": out, "hierarchy": ct.hierarchy()}, sys.stdout)


if __name__ == "__main__":
    main()
