"""Subprocess side of the tracer tie: generates programs, runs each under a recording profiler that forwards every
event to a REAL monkeytype CallTracer, and prints one Coq case term per program (JSON lines on stdout).

usage: python -m harness.tracer_run <workdir> <seed> <n_programs> <mode>
mode: "c02" (no sampling, random filters), "c18" (sampling rates), both emit the same case shape."""
import importlib.util
import json
import opcode
import os
import random
import sys
import types

from harness import common
from harness.tracer_prog import HELPER_SRC, ProgGen
from harness.valgen import ValGen


def load_module(path, name):
    spec = importlib.util.spec_from_file_location(name, path)
    mod = importlib.util.module_from_spec(spec)
    sys.modules[name] = mod
    spec.loader.exec_module(mod)
    return mod


class ListLogger:
    def __init__(self, stock=False):
        self.items = []        # (frame number or None, CallTrace)
        self.current = None
        self.flushes = 0
        # optionally every trace also goes through the stock CallTraceStoreLogger into a store that keeps what it is handed:
        # what that store holds at the end is then what counts as "logged" (see stored_items)
        self.stock = None
        self.stored = []
        if stock:
            from monkeytype.db.base import CallTraceStoreLogger

            class _KeepStore:
                def add(_s, traces):
                    self.stored.extend(list(traces))
            self.stock = CallTraceStoreLogger(_KeepStore())

    def log(self, trace):
        self.items.append((self.current, trace))
        if self.stock is not None:
            self.stock.log(trace)

    def flush(self):
        self.flushes += 1
        if self.stock is not None:
            self.stock.flush()

    def stored_items(self):
        """(frame number, trace) for every trace the store received; a trace this session never logged has frame None"""
        if self.stock is None:
            return self.items
        frame_of = {id(t): f for f, t in self.items}
        return [(frame_of.get(id(t)), t) for t in self.stored]


KIND = {0: "KPlain"}


def code_kind(code):
    import inspect
    if code.co_flags & inspect.CO_ASYNC_GENERATOR:
        return "KAsyncGen"
    if code.co_flags & inspect.CO_COROUTINE:
        return "KCoro"
    if code.co_flags & inspect.CO_GENERATOR:
        return "KGen"
    return "KPlain"


class Recorder:
    """sys.setprofile callback: records every event of program frames, then forwards to the real tracer."""

    def __init__(self, tracer, logger, prog_files, R, k, admit, ct, draws):
        self.tracer, self.logger, self.prog_files, self.R, self.k, self.admit, self.ct = tracer, logger, set(prog_files), R, k, admit, ct
        self.draws = draws
        self.frames = {}        # id(frame) -> (number, frame)
        self.codes = {}         # code -> number
        self.funcs = {}         # id(function) -> (number, function)
        self.resolved = {}      # code -> function number or None   (oracle: real get_func at the first call event)
        self.events = []        # Coq terms
        self.last_yield = None  # (frame, value) of the most recent yield event, for `yield from` chains
        self.errors = []

    def fnum(self, frame):
        e = self.frames.get(id(frame))
        if e is None or e[1] is not frame:
            e = (len(self.frames) + 1, frame)
            self.frames[id(frame)] = e
        return e[0]

    def funcnum(self, fn):
        """Functions are identified by (module, qualname, code object): a closure re-created on every call of its
        outer function is the same function for attribution purposes (the tracer caches per code object)."""
        if fn is None:
            return None
        code = getattr(fn, "__code__", None)
        key = (getattr(fn, "__module__", None), getattr(fn, "__qualname__", None), id(code))
        e = self.funcs.get(key)
        if e is None:
            e = (len(self.funcs) + 1, fn)
            self.funcs[key] = e
        return e[0]

    def code_term(self, frame):
        from monkeytype.tracing import get_func
        code = frame.f_code
        ck = (code.co_filename, code)       # code objects compare equal across files when their contents are identical
        if ck not in self.codes:
            self.codes[ck] = len(self.codes) + 1
        if ck not in self.resolved:
            try:
                self.resolved[ck] = self.funcnum(get_func(frame))
            except Exception as e:      # the real lookup raised; the tracer's own call will raise too (contained)
                self.resolved[ck] = None
                self.errors.append(f"get_func raised {type(e).__name__}")
        fn = self.resolved[ck]
        return "(Code %s %s %s %s %s)" % (
            common.coq_N(self.codes[ck]), common.coq_bool(code.co_name == "trace_types"),
            common.coq_bool(self.admit(code)), "None" if fn is None else f"(Some {common.coq_N(fn)})", code_kind(code))

    def ty(self, v):
        from monkeytype.typing import get_type
        return common.reify_type(get_type(v, self.k), self.ct)

    def __call__(self, frame, event, arg):
        code = frame.f_code
        if code.co_filename in self.prog_files:
            try:
                self.record(frame, event, arg)
            except Exception as e:
                self.errors.append(f"recorder: {type(e).__name__}: {e}")
        self.logger.current = self.frames.get(id(frame), (None,))[0] if code.co_filename in self.prog_files else None
        n0 = len(self.draws)
        self.tracer(frame, event, arg)
        if code.co_filename in self.prog_files and event == "call" and len(self.draws) > n0:
            # the tracer consulted the RNG for this event: attach the draw to the recorded event
            self.events[-1] = self.events[-1].replace("DRAW", str(self.draws[-1]))
        return self

    def record(self, frame, event, arg):
        code = frame.f_code
        f = self.fnum(frame)
        c = self.code_term(frame)
        if event == "call":
            names = code.co_varnames[: code.co_argcount + code.co_kwonlyargcount]
            loc = frame.f_locals
            args = common.coq_list(f"({common.coq_str(n)}, {self.ty(loc[n])})" for n in names if n in loc)
            self.events.append(f"EvCall {common.coq_N(f)} {c} {args} DRAW")
        elif event == "return":
            op = opcode.opname[code.co_code[frame.f_lasti]]
            pend = self.R.pending.get(id(frame))
            if pend:
                kind, _ = pend.pop(0)
                sem = {"yield": "SYield", "await": "SAwait", "return": "SReturn", "raise": "SRaise"}[kind]
            elif self.R.deleg.get(id(frame)) and self.last_yield is not None and self.last_yield[0] is not frame \
                    and self.last_yield[1] is arg:
                sem = "SYield"          # `yield from`: the delegate's value leaves through this frame too
            else:
                sem = "SRaise"          # the frame is unwinding without having announced anything
            self.last_yield = (frame, arg) if sem == "SYield" else None
            self.events.append(f"EvReturn {common.coq_N(f)} {c} {sem} {common.coq_str(op)} {self.ty(arg)}")
        else:
            self.events.append(f"EvOther {common.coq_N(f)} {c}")


def trace_term(rec, tr, ct):
    fn = rec.funcnum(tr.func)
    args = common.coq_list(f"({common.coq_str(n)}, {common.reify_type(t, ct)})" for n, t in tr.arg_types.items())
    ret = common.coq_opt(common.reify_type(tr.return_type, ct) if tr.return_type is not None else None)
    yl = common.coq_opt(common.reify_type(tr.yield_type, ct) if tr.yield_type is not None else None)
    return f"(Trace {common.coq_N(fn)} {args} {ret} {yl})"


def run_one(workdir, idx, rnd, mode, ct):
    import monkeytype.tracing as mt
    nvals = 8
    # one program per run keeps more than a thousand generator frames suspended at the same time
    many = 1100 if (idx == 0 and BATCH_SEED % 16 == 0) else 0
    src = ProgGen(rnd, nvals, many_live=many).build()
    name = f"prog_{os.getpid()}_{idx}"
    path = os.path.join(workdir, name + ".py")
    with open(path, "w") as f:
        f.write(src)
    vrec = sys.modules["vrec"]
    vrec.R.reset()
    mod = load_module(path, name)
    vg = ValGen(rnd, max_depth=2)
    mod.V[:] = [vg.value() for _ in range(nvals)]
    if many:
        # thousands of events: keep the values (and so the case term) small
        mod.V[:] = [rnd.choice([1, "s", None, 2.5, True, b"x", (1, "a"), [1]]) for _ in range(nvals)]
    # sometimes the same source exists a second time under another file name (a vendored copy): its code objects
    # are EQUAL to the first module's, and its calls must still be attributed to its own functions
    twin = None
    paths = [path]
    if rnd.random() < 0.15 and not many:       # (the 1100-generator program stays single: its case term is big enough)
        tname = name + "_twin"
        tpath = os.path.join(workdir, tname + ".py")
        with open(tpath, "w") as f:
            f.write(src)
        twin = load_module(tpath, tname)
        twin.V[:] = [vg.value() for _ in range(nvals)]
        paths.append(tpath)
    k = rnd.choice([0, 0, 1, 3])
    if mode == "c18":
        rate = rnd.choice([1, 2, 2, 3, 10, 100, None])
        if many:
            rate = rnd.choice([1, None])
    else:
        rate = rnd.choice([None, None, None, 0])
        if many:
            rate = None
    # code filter: admits program code only; rejects a random subset of its code objects, chosen per CODE OBJECT
    # (name + first line), so that two functions sharing a bare name (Base.m / Derived.m) can be decided differently
    all_codes = []
    pathset = set(paths)

    def walk(co):
        for c in co.co_consts:
            if isinstance(c, types.CodeType):
                all_codes.append((c.co_name, c.co_firstlineno))
                walk(c)
    walk(compile(src, path, "exec"))
    rejected = set()
    if rnd.random() < 0.5:
        rejected = {c for c in all_codes if rnd.random() < 0.2 and not (many and c[0] == "sg")}

    # with a twin module the filter sometimes admits only ONE of the two files: equal code objects on opposite sides
    # of the filter (a vendored copy that is excluded, a private copy of an excluded module that is included)
    only_file = None
    if twin is not None and rnd.random() < 0.5:
        only_file = rnd.choice(paths)

    no = rnd.choice([False, False, None, 0, ""])        # a filter may say no with any falsy value (re.match -> None)

    def admit(code):
        if only_file is not None and code.co_filename != only_file:
            return no
        return (code.co_filename in pathset and (code.co_name, code.co_firstlineno) not in rejected) or no
    use_filter = rnd.random() < 0.8 or only_file is not None
    order = [mod, twin] if twin is not None and rnd.random() < 0.5 else ([twin, mod] if twin is not None else [mod])
    draws = []
    rng = random.Random(rnd.randrange(1 << 30))
    real_randrange = random.randrange

    def fake_randrange(n, *a):
        d = rng.randrange(n)
        draws.append(d)
        return d
    stock_logger = rnd.random() < 0.3        # also through the stock store logger, every session of this program

    def session(order):
        """one tracing session: a fresh CallTracer and recorder around the workload of the given modules"""
        del draws[:]
        logger = ListLogger(stock=stock_logger)
        filt = admit if use_filter else (lambda code: code.co_filename in pathset)
        old = sys.getprofile()
        # through the public entry point: trace_calls installs its CallTracer, the recorder is put in front of it for the
        # workload, and the context is left the normal way afterwards -- what is logged while LEAVING it counts too
        cm = mt.trace_calls(logger, k, filt, rate)
        cm.__enter__()
        tracer = sys.getprofile()
        if not hasattr(tracer, "traces"):           # trace_calls no longer installs the CallTracer itself: drive one directly
            cm.__exit__(None, None, None)
            cm = None
            tracer = mt.CallTracer(logger, k, filt, rate)
        rec = Recorder(tracer, logger, paths, vrec.R, k, admit if use_filter else (lambda code: True), ct, draws)
        random.randrange = fake_randrange
        crashed = None
        sys.setprofile(rec)
        try:
            try:
                for _m in order:
                    _m.main()
                if twin is not None and rnd.random() < 0.5:     # and once more, the other way round
                    for _m in reversed(order):
                        _m.main()
                if getattr(order[0], "make_held", None) is not None:
                    # a closure whose only reference is a local of the bottom frame of another thread's stack, called from
                    # there.  This thread's profiler is off while the other one runs (one event stream, no interleaving).
                    import _thread
                    import threading
                    done = threading.Lock()
                    done.acquire()
                    terr = []

                    hg = order[0].held_gen(order[0].V[2])      # started here, in this thread ...
                    next(hg)

                    def _bottom():
                        sys.setprofile(rec)
                        try:
                            held = order[0].make_held()
                            held(order[0].V[0])
                            held(order[0].V[1], order[0].V[2])
                            list(hg)                               # ... and run to exhaustion in the other one
                        except BaseException as e:
                            terr.append(f"{type(e).__name__}: {e}")
                        finally:
                            sys.setprofile(None)
                            done.release()
                    sys.setprofile(None)
                    _thread.start_new_thread(_bottom, ())
                    done.acquire()
                    sys.setprofile(rec)
                    if terr:
                        crashed = terr[0]
            except BaseException as e:       # the workload itself failed: not the tracer's business, but note it
                crashed = f"{type(e).__name__}: {e}"
        finally:
            random.randrange = real_randrange
            if cm is not None:
                sys.setprofile(tracer)
                logger.current = None
                cm.__exit__(None, None, None)
            else:
                logger.flush()
            sys.setprofile(old)
        # drop references to live generators so their frames finish outside tracing (no events recorded)
        events = [e.replace("DRAW", "0") for e in rec.events]
        impl = []
        for fnum, tr in logger.stored_items():
            impl.append(f"({common.coq_N(fnum if fnum is not None else 0)}, {trace_term(rec, tr, ct)})")
        residue = []
        for fr in tracer.traces:
            e = rec.frames.get(id(fr))
            residue.append(common.coq_N(e[0] if e and e[1] is fr else 0))
        # ground truth of attribution: code -> the function object that really owns it
        truth = []
        for ck, num in rec.codes.items():
            fn = vrec.R.funcs.get(ck)
            if ck in vrec.R.unresolvable:
                continue                       # no ground truth: the property is about resolvable functions
            truth.append(f"({common.coq_N(num)}, {common.coq_opt(common.coq_N(rec.funcnum(fn)) if fn is not None else None)})")
        # ground truth of entry values per frame (types of the values bound to the named parameters at entry)
        entries = []
        from monkeytype.typing import get_type
        for fid, (num, fr) in rec.frames.items():
            ent = vrec.R.entry.get(fid)
            if ent is not None:
                entries.append(f"({common.coq_N(num)}, " + common.coq_list(
                    f"({common.coq_str(n)}, {common.reify_type(get_type(v, k), ct)})" for n, v in ent.items()) + ")")
        rate_t = "None" if rate is None else f"(Some {rate})"
        term = (f"TCase {rate_t} {common.coq_list(events)} {common.coq_list(impl)} {common.coq_list(residue)} "
                f"{common.coq_list(truth)} {common.coq_list(entries)}")
        return term, events, impl, residue, crashed, rec

    term, events, impl, residue, crashed, rec = session(order)
    second = None
    if twin is None and not many and rnd.random() < 0.2:
        # a SECOND tracing session in the same process, on the module loaded afresh (new function objects whose code
        # objects are equal to the first load's): nothing the first session learnt may leak into it
        vrec.R.reset()
        mod2 = load_module(path, name)
        mod2.V[:] = list(mod.V)
        t2, e2, i2, r2, c2, rec2 = session([mod2])
        second = {"term": t2, "stats": {"events": len(e2), "frames": len(rec2.frames), "logged": len(i2), "rate": rate, "k": k,
                                       "filter": use_filter, "rejected": sorted(f"{n}@{l}" for n, l in rejected), "crashed": c2,
                                       "errors": rec2.errors[:3], "twin": False, "twin_one_file_admitted": False, "many_live": 0,
                                       "gens": src.count("yield"), "awaits": src.count("await Susp"), "residue": len(r2),
                                       "second_session": True},
                  "src": src if os.environ.get("VERIF_DEBUG") else None, "prog": name + "#session2"}
    del sys.modules[name]
    if twin is not None:
        del sys.modules[name + "_twin"]
    stats = {"events": len(events), "frames": len(rec.frames), "logged": len(impl), "rate": rate, "k": k,
             "filter": use_filter, "rejected": sorted(f"{n}@{l}" for n, l in rejected), "crashed": crashed, "errors": rec.errors[:3],
             "twin": twin is not None, "twin_one_file_admitted": only_file is not None, "many_live": many, "gens": src.count("yield"), "awaits": src.count("await Susp"), "residue": len(residue),
             "bottom_frame_closure": "def make_held" in src, "stock_logger": stock_logger}
    first = {"term": term, "stats": stats, "src": src if (idx < 2 or os.environ.get("VERIF_DEBUG")) else None, "prog": name}
    return [first] + ([second] if second is not None else [])


BATCH_SEED = 1


def main():
    global BATCH_SEED
    workdir, seed, n, mode = sys.argv[1], int(sys.argv[2]), int(sys.argv[3]), sys.argv[4]
    BATCH_SEED = seed
    os.makedirs(workdir, exist_ok=True)
    with open(os.path.join(workdir, "vrec.py"), "w") as f:
        f.write(HELPER_SRC)
    sys.path.insert(0, workdir)
    load_module(os.path.join(workdir, "vrec.py"), "vrec")
    rnd = random.Random(seed)
    ct = common.ClassTable()
    out = []
    for i in range(n):
        try:
            out.extend(run_one(workdir, i, rnd, mode, ct))
        except Exception as e:
            import traceback
            out.append({"term": None, "stats": {"harness_error": f"{type(e).__name__}: {e}", "tb": traceback.format_exc()[-800:]}})
    json.dump(out, sys.stdout)


if __name__ == "__main__":
    main()
