"""Shared driver for the tracer tie (C02, C18): fan out harness.tracer_run subprocesses, evaluate verdict_tracer in Coq."""
import collections
import json
import os
import subprocess
from concurrent.futures import ThreadPoolExecutor

from harness import common

HEADER = "From MT Require Import TracerCases.\n"
CODES = {2: None, 4: None, 5: "kf_raise_at_yield", 6: "kf_resume_sampled_after_skip", 7: "kf_async_generator"}


def run_batch(workdir, seed, n, mode):
    p = subprocess.run([common.PY, "-m", "harness.tracer_run", workdir, str(seed), str(n), mode],
                       capture_output=True, text=True, env=common.sub_env(), timeout=600, cwd=common.VERIF)
    if p.returncode != 0:
        raise RuntimeError(f"tracer_run failed (seed {seed}): {p.stderr[-1500:]}")
    out = p.stdout
    return json.loads(out[out.index("["):])


def collect(ctx, mode, n_programs, salt):
    nb = common.NCPU
    per = max(1, n_programs // nb)
    jobs = [(os.path.join(ctx.work, f"{mode}_b{i}"), ctx.seed * 1000 + salt + i, per, mode) for i in range(nb)]
    with ThreadPoolExecutor(max_workers=nb) as ex:
        batches = list(ex.map(lambda j: run_batch(*j), jobs))
    cases = [c for b in batches for c in b]
    harness_errors = [c["stats"] for c in cases if c["term"] is None]
    if harness_errors:
        raise RuntimeError("program generator / recorder failed: " + json.dumps(harness_errors[0])[:1200])
    return cases


def evaluate(ctx, name, cases):
    outs = common.run_coq_shards(ctx.work, name, HEADER, [c["term"] for c in cases], "tcase",
                                 "bad verdict_tracer 0 cases", shard_size=60)
    return common.parse_bad(outs)


def summarise(cases):
    d = collections.Counter()
    for c in cases:
        s = c["stats"]
        d["programs"] += 1
        d["events"] += s["events"]
        d["frames"] += s["frames"]
        d["logged_traces"] += s["logged"]
        d[f"rate={s['rate']}"] += 1
        d[f"k={s['k']}"] += 1
        d["with_custom_filter"] += 1 if s["filter"] else 0
        d["with_rejected_functions"] += 1 if s["rejected"] else 0
        d["generator_yields_in_source"] += s["gens"]
        d["awaits_in_source"] += s["awaits"]
        d["programs_with_residue"] += 1 if s["residue"] else 0
        d["workload_crashed"] += 1 if s["crashed"] else 0
        d["programs_with_twin_module"] += 1 if s.get("twin") else 0
        d["programs_with_twin_on_opposite_sides_of_filter"] += 1 if s.get("twin_one_file_admitted") else 0
        d["recorder_errors"] += 1 if s["errors"] else 0
        d["programs_with_over_1000_live_frames"] += 1 if s.get("many_live") else 0
        d["second_sessions_on_reloaded_module"] += 1 if s.get("second_session") else 0
        d["programs_calling_a_closure_held_by_a_thread_bottom_frame"] += 1 if s.get("bottom_frame_closure") else 0
        d["programs_logged_through_the_stock_store_logger"] += 1 if s.get("stock_logger") else 0
    return dict(sorted(d.items()))


def split_results(cases, bad, prop, what_of):
    failures, mismatches = [], []
    for i, code in bad:
        c = cases[i]
        rec = {"program": c["prog"], "stats": c["stats"], "verdict": code, "term": c["term"][:20000]}
        if code == 1:
            rec["what"] = "model (Model/Tracer.v run on the recorded events) and the real CallTracer disagree on the log or residue"
            mismatches.append(rec)
        elif code == 4:
            rec["what"] = ("environment assumption broken: the recorded event stream is not a well-formed history "
                           "(call . (suspend . call)* . final return per frame with consistent opcodes)")
            mismatches.append(rec)
        else:
            rec["what"] = what_of(code, c)
            if CODES.get(code):
                rec["finding"] = CODES[code]
            failures.append(rec)
    return failures, mismatches
