(* Model/Decode.v — decoding stored rows against the code as it is NOW, and the CLI loop that skips the
   rows that no longer decode (monkeytype/util.py:21-76, encoding.py:95-127 and 166-206, cli.py:67-142 and
   206-264, stubs.py:159-188).  Executable definitions only; proofs are in Proofs/Decode*.v.

   A `world` says what `importlib.import_module` and `getattr` answer now.  Every exception the source can
   meet is explicit: `MTError` is a MonkeyTypeError (the only class cli.get_stub catches), `OtherError`
   is anything else (it escapes get_stub and the command dies with a traceback). *)
From Coq Require Import List Bool Arith NArith String Ascii DecimalString.
From MT Require Import Constants.
Import ListNotations.
Open Scope list_scope.

(* ------------------------------------------------------------------------------------------------ *)
(* strings                                                                                           *)
(* ------------------------------------------------------------------------------------------------ *)
(* str.split(".") : never empty; "" -> [""] *)
Fixpoint split_dot (s : string) : list string :=
  match s with
  | EmptyString => [EmptyString]
  | String c r =>
      if Ascii.eqb c "."%char then EmptyString :: split_dot r
      else match split_dot r with
           | [] => [String c EmptyString]
           | h :: t => String c h :: t
           end
  end.

(* ".".join(parts) *)
Fixpoint join_dot (l : list string) : string :=
  match l with
  | [] => EmptyString
  | x :: r => match r with
              | [] => x
              | _ => (x ++ "." ++ join_dot r)%string
              end
  end.

Definition dec (n : nat) : string := NilZero.string_of_uint (Nat.to_uint n).

Definition sconcat (l : list string) : string := fold_right String.append EmptyString l.

(* ------------------------------------------------------------------------------------------------ *)
(* the world: what is importable / reachable now                                                     *)
(* ------------------------------------------------------------------------------------------------ *)
(* What the environment must say about a function object: its OWN names.  fr_mod = str(getattr(f, "__module__", "?")),
   fr_qual = f.__qualname__ if it has one (get_func_in_module compares it with the recorded qualname). *)
Record fref := FRef { fr_mod : string; fr_qual : option string }.
Definition fqname (f : fref) : string :=
  (fr_mod f ++ "." ++ match fr_qual f with Some q => q | None => "?" end)%string.

Inductive okind :=
| KFunc (f : fref)          (* types.FunctionType or BuiltinFunctionType *)
| KMethod (f : fref)        (* types.MethodType; f describes its __func__ *)
| KProperty (fget : option fref) (settable : bool)   (* property; settable = fset or fdel present *)
| KClass (c : string)       (* isinstance(o, type) *)
| KAny                      (* typing.Any *)
| KGeneric (g : string)     (* compat.is_generic: typing.Union, typing.List, List[int], ... *)
| KOther.                   (* any other object *)

(* tyrepr = repr(type(o)) (it appears in InvalidTypeError messages); wrapped = o.__wrapped__ if present *)
Inductive obj := Obj (k : okind) (tyrepr : string) (wrapped : option obj).

Definition o_kind (o : obj) : okind := match o with Obj k _ _ => k end.
Definition o_tyrepr (o : obj) : string := match o with Obj _ t _ => t end.

Inductive import_res := ImpOk | ImpNotFound (* ModuleNotFoundError *) | ImpRaises (exc : string).
Inductive attr_res := AttrOk (o : obj) | AttrMissing (* AttributeError *) | AttrRaises (exc : string).

(* w_attr m path: the result of the LAST getattr when walking `path` from module m, all earlier ones
   having succeeded *)
Record world := World {
  w_import : string -> import_res;
  w_attr : string -> list string -> attr_res
}.

(* ------------------------------------------------------------------------------------------------ *)
(* errors and results                                                                                *)
(* ------------------------------------------------------------------------------------------------ *)
Inductive mterr :=
| NoModule (m : string)                       (* NameLookupError, util.py:66 *)
| NoAttr (m : string) (walked : list string)  (* NameLookupError, util.py:73 *)
| PropSettable (m q : string)                 (* InvalidTypeError, util.py:37 *)
| PropNoGetter (m q : string)                 (* InvalidTypeError, util.py:41 *)
| NotFunction (m q tyrepr : string)           (* InvalidTypeError, util.py:45 *)
| WrongName (m q fmod fqual : string)         (* InvalidTypeError: the name is bound to another function *)
| NotType (m q tyrepr : string).              (* InvalidTypeError, encoding.py:116 *)

Inductive mtclass := NameLookupError | InvalidTypeError.
Definition mt_class (e : mterr) : mtclass :=
  match e with
  | NoModule _ | NoAttr _ _ => NameLookupError
  | _ => InvalidTypeError
  end.

Definition mt_msg (e : mterr) : string :=
  match e with
  | NoModule m => sconcat ["No module named '"; m; "'"]
  | NoAttr m walked => sconcat ["Module '"; m; "' has no attribute '"; join_dot walked; "'"]
  | PropSettable m q => sconcat ["Property "; m; "."; q; " has setter or deleter."]
  | PropNoGetter m q => sconcat ["Property "; m; "."; q; " is missing getter"]
  | NotFunction m q t => sconcat [m; "."; q; " is of type '"; t; "', not function."]
  | WrongName m q fm fq => sconcat [m; "."; q; " is bound to the function "; fm; "."; fq;
                                    ", not to a function of that name."]
  | NotType m q t => sconcat ["Attribute specified by '"; q; "' in module '"; m; "' is of type "; t; ", not type."]
  end%string.

Inductive result (A : Type) :=
| Ok (a : A)
| MTError (e : mterr)
| OtherError (exc : string).
Arguments Ok {A} a.
Arguments MTError {A} e.
Arguments OtherError {A} exc.

Definition bindr {A B : Type} (r : result A) (f : A -> result B) : result B :=
  match r with
  | Ok a => f a
  | MTError e => MTError e
  | OtherError x => OtherError x
  end.

(* ------------------------------------------------------------------------------------------------ *)
(* util.get_name_in_module / get_func_in_module                                                      *)
(* ------------------------------------------------------------------------------------------------ *)
Definition module_obj : obj := Obj KOther "<class 'module'>" None.

Fixpoint walk (w : world) (m : string) (walked rest : list string) (cur : obj) : result obj :=
  match rest with
  | [] => Ok cur
  | p :: rest' =>
      let walked' := walked ++ [p] in
      match w_attr w m walked' with
      | AttrOk o => walk w m walked' rest' o
      | AttrMissing => MTError (NoAttr m walked')
      | AttrRaises x => OtherError x
      end
  end.

Definition get_name_in_module (w : world) (m q : string) : result obj :=
  match w_import w m with
  | ImpNotFound => MTError (NoModule m)
  | ImpRaises x => OtherError x
  | ImpOk => walk w m [] (split_dot q) module_obj
  end.

(* inspect.unwrap: follow __wrapped__ to the end (a cyclic chain, which makes the real function raise
   ValueError, cannot be expressed by `obj`) *)
Fixpoint unwrap (o : obj) : obj :=
  match o with
  | Obj _ _ (Some i) => unwrap i
  | Obj _ _ None => o
  end.

(* django is absent in this environment (compat.cached_property is None), so that branch never fires *)
(* the last step: the function found must carry the recorded qualified name
   (getattr(func, "__qualname__", qualname) != qualname -> InvalidTypeError) *)
Definition check_name (m q : string) (f : fref) : result string :=
  match fr_qual f with
  | Some fq => if String.eqb fq q then Ok (fqname f) else MTError (WrongName m q (fr_mod f) fq)
  | None => Ok (fqname f)
  end.

Definition func_of_obj (m q : string) (o : obj) : result string :=
  match unwrap o with
  | Obj (KMethod f) _ _ => check_name m q f
  | Obj (KProperty (Some f) false) _ _ => check_name m q f
  | Obj (KProperty (Some _) true) _ _ => MTError (PropSettable m q)
  | Obj (KProperty None _) _ _ => MTError (PropNoGetter m q)
  | Obj (KFunc f) _ _ => check_name m q f
  | Obj _ t _ => MTError (NotFunction m q t)
  end.

Definition get_func_in_module (w : world) (m q : string) : result string :=
  bindr (get_name_in_module w m q) (func_of_obj m q).

(* ------------------------------------------------------------------------------------------------ *)
(* encoding.type_from_dict                                                                           *)
(* ------------------------------------------------------------------------------------------------ *)
(* the stored JSON tree.  has_elems = the key "elem_types" is present (and not null) *)
Inductive ety :=
| ETy (m q : string) (has_elems : bool) (elems : list ety)
| ETd (m q : string) (fields : list (string * ety)).     (* "is_typed_dict": true *)

(* a decoded type (what the typing object is, up to the naming of classes and generics) *)
Inductive dty :=
| DCls (c : string)
| DAny
| DGenBare (g : string)
| DGen (g : string) (args : list dty)
| DTd (name : string) (fields : list (string * dty))
| DOpaque (s : string).

Definition is_hidden (m q : string) : bool :=
  String.eqb m "builtins" && existsb (fun kv => String.eqb q (fst kv)) hidden_builtin_types.

(* what `typ` is after lines 111-119: a class, Any or a generic -- or InvalidTypeError *)
Inductive head := HType (d : dty) | HGeneric (g : string).

Definition head_of (m q : string) (o : obj) : result head :=
  match o_kind o with
  | KClass c => Ok (HType (DCls c))
  | KAny => Ok (HType DAny)
  | KGeneric g => Ok (HGeneric g)
  | _ => MTError (NotType m q (o_tyrepr o))
  end.

Definition resolve_head (w : world) (m q : string) : result head :=
  if is_hidden m q then Ok (HType (DCls ("builtins." ++ q)%string))
  else bindr (get_name_in_module w m q) (head_of m q).

Section Decode.
(* typing's g[args]; None = it raises (TypeError: wrong arity, Union of nothing, ...) *)
Variable subscript : string -> list dty -> option dty.

Definition subscript_r (g : string) (ds : list dty) : result dty :=
  match subscript g ds with
  | Some t => Ok t
  | None => OtherError "TypeError"
  end.

Fixpoint decode_ty (w : world) (e : ety) {struct e} : result dty :=
  match e with
  | ETd m q fields =>
      bindr ((fix df (fs : list (string * ety)) : result (list (string * dty)) :=
                match fs with
                | [] => Ok []
                | (k, e') :: r =>
                    bindr (decode_ty w e') (fun d => bindr (df r) (fun ds => Ok ((k, d) :: ds)))
                end) fields)
            (fun ds => Ok (DTd q ds))
  | ETy m q has es =>
      bindr (resolve_head w m q) (fun h =>
        match h with
        | HType d => Ok d
        | HGeneric g =>
            if has then
              bindr ((fix dl (l : list ety) : result (list dty) :=
                        match l with
                        | [] => Ok []
                        | e' :: r => bindr (decode_ty w e') (fun d => bindr (dl r) (fun ds => Ok (d :: ds)))
                        end) es)
                    (subscript_r g)
            else Ok (DGenBare g)
        end)
  end.

Fixpoint decode_list (w : world) (l : list ety) : result (list dty) :=
  match l with
  | [] => Ok []
  | e' :: r => bindr (decode_ty w e') (fun d => bindr (decode_list w r) (fun ds => Ok (d :: ds)))
  end.

Fixpoint decode_fields (w : world) (fs : list (string * ety)) : result (list (string * dty)) :=
  match fs with
  | [] => Ok []
  | (k, e') :: r => bindr (decode_ty w e') (fun d => bindr (decode_fields w r) (fun ds => Ok ((k, d) :: ds)))
  end.

(* ------------------------------------------------------------------------------------------------ *)
(* CallTraceRow.to_trace                                                                             *)
(* ------------------------------------------------------------------------------------------------ *)
(* r_ret / r_yield = None: the column is NULL or the text "null" (maybe_decode_type) *)
Record row := Row {
  r_module : string;
  r_qualname : string;
  r_args : list (string * ety);      (* document order of the JSON object *)
  r_ret : option ety;
  r_yield : option ety
}.

Record trace := Trace {
  t_func : string;                   (* get_func_fqname of the function found now *)
  t_args : list (string * dty);
  t_ret : option dty;
  t_yield : option dty
}.

Definition decode_opt (w : world) (o : option ety) : result (option dty) :=
  match o with
  | None => Ok None
  | Some e => bindr (decode_ty w e) (fun d => Ok (Some d))
  end.

Definition to_trace (w : world) (r : row) : result trace :=
  bindr (get_func_in_module w (r_module r) (r_qualname r)) (fun f =>
  bindr (decode_fields w (r_args r)) (fun args =>
  bindr (decode_opt w (r_ret r)) (fun ret =>
  bindr (decode_opt w (r_yield r)) (fun yld =>
  Ok (Trace f args ret yld))))).

(* ------------------------------------------------------------------------------------------------ *)
(* cli.get_stub and the two handlers                                                                 *)
(* ------------------------------------------------------------------------------------------------ *)
Inductive cmd := CStub | CApply.

Record args := Args {
  a_cmd : cmd;
  a_module : string;
  a_qualname : option string;
  a_verbose : bool;
  a_sample_count : bool;
  a_path_exists : bool;         (* os.path.exists(module) in the current directory *)
  a_stem : string               (* os.path.splitext(module)[0] *)
}.

(* stdout: one element per print(); stderr: one element per print(file=stderr) *)
Inductive outcome :=
| Exit (out : list string) (err : list string) (rc : nat)
| Crash (exc : string) (err : list string).     (* uncaught exception: traceback, non-zero status *)

Definition complain (a : args) : string :=
  match a_qualname a with
  | Some (String c q) => sconcat ["No traces found for specifier "; a_module a; ":"; String c q]
  | _ => if a_path_exists a
         then sconcat ["No traces found for "; a_module a;
                       "; did you pass a filename instead of a module name? Maybe try just '"; a_stem a; "'."]
         else sconcat ["No traces found for module "; a_module a]
  end%string.

Definition warn_line (e : mterr) : string := ("WARNING: Failed decoding trace: " ++ mt_msg e)%string.
Definition count_line (n : nat) : string := (dec n ++ " traces failed to decode; use -v for details")%string.

Inductive loop_res :=
| LoopDone (traces : list trace) (failed : nat) (err : list string)
| LoopCrash (exc : string) (err : list string).

(* cli.py:115-123, with the three locals as accumulators *)
Fixpoint loop (w : world) (verbose : bool) (rows : list row)
              (traces : list trace) (failed : nat) (err : list string) : loop_res :=
  match rows with
  | [] => LoopDone traces failed err
  | r :: rest =>
      match to_trace w r with
      | Ok t => loop w verbose rest (traces ++ [t]) failed err
      | MTError e => loop w verbose rest traces (S failed) (if verbose then err ++ [warn_line e] else err)
      | OtherError x => LoopCrash x err
      end
  end.

(* display_sample_count: collections.Counter keeps first-occurrence order *)
Fixpoint count_str (s : string) (l : list string) : nat :=
  match l with
  | [] => 0
  | x :: r => (if String.eqb s x then 1 else 0) + count_str s r
  end.

Fixpoint sample_names (seen : list string) (l : list string) : list string :=
  match l with
  | [] => []
  | x :: r => if existsb (String.eqb x) seen then sample_names seen r else x :: sample_names (x :: seen) r
  end.

Definition sample_lines (ts : list trace) : list string :=
  let names := map t_func ts in
  map (fun n => sconcat ["Annotation for "; n; " based on "; dec (count_str n names); " call trace(s)."]%string)
      (sample_names [] names).

(* build_module_stubs_from_traces(...).get(module), rendered -- external to this property *)
Inductive bres := BStub (text : string) | BNone | BRaises (exc : string).
Variable build : list trace -> bres.
(* apply_stub_handler after get_stub: import the module, run libcst, write the file; the new source *)
Inductive ares := AOk (src : string) | AHandlerError (msg : string) | ARaises (exc : string).
Variable applyf : string -> ares.

(* everything after the loop (cli.py:124-142 and the handler) *)
Definition finish (a : args) (traces : list trace) (err : list string) : outcome :=
  match traces with
  | [] => Exit [] (err ++ [complain a]) 0
  | _ :: _ =>
      match build traces with
      | BRaises x => Crash x err
      | b =>
          let err' := if a_sample_count a then err ++ sample_lines traces else err in
          match b with
          | BStub s =>
              match a_cmd a with
              | CStub => Exit [s] err' 0
              | CApply =>
                  match applyf s with
                  | AOk src => Exit [src] err' 0
                  | AHandlerError msg => Exit [] (err' ++ [("ERROR: " ++ msg)%string]) 1
                  | ARaises x => Crash x err'
                  end
              end
          | _ => Exit [] (err' ++ [complain a]) 0
          end
      end
  end.

Definition run (a : args) (w : world) (rows : list row) : outcome :=
  match loop w (a_verbose a) rows [] 0 [] with
  | LoopCrash x err => Crash x err
  | LoopDone traces failed err =>
      let err1 := if negb (Nat.eqb failed 0) && negb (a_verbose a) then err ++ [count_line failed] else err in
      finish a traces err1
  end.

(* ---- the specification side: what the property talks about ---- *)
Definition decodable (w : world) (r : row) : bool :=
  match to_trace w r with Ok _ => true | _ => false end.

Definition decode_all (w : world) (rows : list row) : list trace :=
  flat_map (fun r => match to_trace w r with Ok t => [t] | _ => [] end) rows.

Definition failures (w : world) (rows : list row) : list mterr :=
  flat_map (fun r => match to_trace w r with MTError e => [e] | _ => [] end) rows.

Definition report (verbose : bool) (errs : list mterr) : list string :=
  if verbose then map warn_line errs
  else match errs with
       | [] => []
       | _ :: _ => [count_line (List.length errs)]
       end.

Definition no_other (w : world) (r : row) : Prop := forall x, to_trace w r <> OtherError x.

Definition prepend_err (pre : list string) (o : outcome) : outcome :=
  match o with
  | Exit out err rc => Exit out (pre ++ err) rc
  | Crash x err => Crash x (pre ++ err)
  end.

End Decode.

(* ------------------------------------------------------------------------------------------------ *)
(* stubs.update_signature_args: traced names that are not parameters                                  *)
(* ------------------------------------------------------------------------------------------------ *)
Section Sig.
Variable anno : Type.
Inductive strategy := Replicate | Ignore | Omit.
Record param := Param { p_name : string; p_anno : option anno }.

Fixpoint lookup (n : string) (ats : list (string * anno)) : option anno :=
  match ats with
  | [] => None
  | (k, v) :: r => if String.eqb n k then Some v else lookup n r
  end.

Definition is_omit (s : strategy) : bool := match s with Omit => true | _ => false end.
Definition is_ignore (s : strategy) : bool := match s with Ignore => true | _ => false end.

Definition upd_param (st : strategy) (has_self : bool) (ats : list (string * anno)) (idx : nat) (p : param) : param :=
  let typ := lookup (p_name p) ats in
  let is_self := has_self && Nat.eqb idx 0 in
  let annotated := match p_anno p with Some _ => true | None => false end in
  let p1 := if annotated && is_omit st then Param (p_name p) None else p in
  if negb is_self && (is_ignore st || negb annotated) then Param (p_name p1) typ else p1.

Fixpoint upd_params (st : strategy) (has_self : bool) (ats : list (string * anno)) (idx : nat) (ps : list param) : list param :=
  match ps with
  | [] => []
  | p :: r => upd_param st has_self ats idx p :: upd_params st has_self ats (S idx) r
  end.

Definition update_signature_args (st : strategy) (has_self : bool) (ats : list (string * anno)) (ps : list param) : list param :=
  upd_params st has_self ats 0 ps.

Definition known (ps : list param) (kv : string * anno) : bool :=
  existsb (fun p => String.eqb (fst kv) (p_name p)) ps.
End Sig.
