(* Proofs/PipelineRender.v — C01, the rendering step for TypedDict-free annotations:
   what evaluating the rendered annotation yields (evt t: unions rebuilt by typing's Union, None last
   under Optional) admits everything the annotation type t admits; composed with C11's token-level theorem
   (ev ns (rast t) = Some (evt t)) and with Proofs/Pipeline.v. *)
From MT Require Import Types Infer Rewrite Hier TypesFacts UnionFacts Render RenderTok PipelineCorr Pipeline.

Section EvtMember.
Variable anyb : bool.
Variable sub : cls -> cls -> bool.
Notation mem := (member anyb sub).

Lemma is_none_ty_eq t : is_none_ty t = true -> t = tnone.
Proof. destruct t; cbn; try discriminate. intros H. apply N.eqb_eq in H. subst. reflexivity. Qed.

(* a list of members rebuilt one by one *)
Lemma members_map (f : ty -> ty) ts v :
  Forall (fun x => wf_ty (f x) /\ forall v, mem v x = true -> mem v (f x) = true) ts ->
  Forall wf_ty (map f ts) /\ (existsb (mem v) ts = true -> existsb (mem v) (map f ts) = true).
Proof.
  induction 1 as [|x l [Wx Mx] _ [IW IM]]; cbn [map existsb]; [split; [constructor|auto]|].
  split; [constructor; assumption|]. intros H. apply orb_prop in H. destruct H as [H|H].
  - rewrite (Mx _ H). reflexivity.
  - rewrite (IM H). apply orb_true_r.
Qed.

Lemma tuple_map (f : ty -> ty) ts :
  Forall (fun x => wf_ty (f x) /\ forall v, mem v x = true -> mem v (f x) = true) ts ->
  forall es, mem (VTuple es) (TTuple ts) = true -> mem (VTuple es) (TTuple (map f ts)) = true.
Proof.
  intros H es. rewrite !member_TTuple. revert es.
  induction H as [|x l [Wx Mx] _ IH]; intros [|e es] M; cbn [map] in *; try discriminate M; try exact M.
  apply andb_prop in M. destruct M as [M1 M2]. apply andb_true_intro. split; [apply Mx; exact M1|apply IH; exact M2].
Qed.

Lemma single_or_union l v :
  Forall wf_ty l ->
  wf_ty (match l with [x] => x | _ => union_mk l end)
  /\ (existsb (mem v) l = true -> mem v (match l with [x] => x | _ => union_mk l end) = true).
Proof.
  intros W. destruct l as [|x [|y r]].
  - split; [apply union_mk_wf; exact W|discriminate].
  - inversion W; subst. split; [assumption|]. cbn [existsb]. rewrite orb_false_r. auto.
  - split; [apply union_mk_wf; exact W|apply union_mk_complete; exact W].
Qed.

Lemma union_of l v : Forall wf_ty l -> existsb (mem v) l = true ->
  wf_ty (union_mk l) /\ mem v (union_mk l) = true.
Proof. intros W H. split; [apply union_mk_wf; exact W|apply union_mk_complete; assumption]. Qed.

Definition keeps (f : ty -> ty) (t : ty) : Prop :=
  wf_ty (f t) /\ forall v, mem v t = true -> mem v (f t) = true.

Lemma IH_Forall (okf : ty -> bool) (f : ty -> ty) ts :
  Forall (fun x => okf x = true -> keeps f x) ts -> forallb okf ts = true ->
  Forall (fun x => wf_ty (f x) /\ forall v, mem v x = true -> mem v (f x) = true) ts.
Proof.
  intros H Hok. rewrite forallb_forall in Hok. rewrite Forall_forall in *. intros x Hx.
  apply (H x Hx). apply Hok. exact Hx.
Qed.

(* repr route *)
Lemma evt_r_keeps t : ok_r t = true -> keeps evt_r t.
Proof.
  unfold keeps.
  induction t as [ | c | x IH | | x IH | x IH | x IH | a b IHa IHb | a b IHa IHb | xs IH | x IH
                 | a1 a2 a3 IH1 IH2 IH3 | xs IH | r o IHr IHo | s ] using ty_ind';
    intros Hok; cbn [ok_r] in Hok; try discriminate Hok;
    try (split; [exact I|intros v M; exact M]).
  - (* TType *) destruct (IH Hok) as [W _]. split; [exact W|].
    intros v M. cbn [evt_r member] in *. destruct v; try discriminate M.
    destruct x; cbn [evt_r]; try discriminate M; exact M.
  - (* TList *) destruct (IH Hok) as [W Mx]. split; [exact W|]. intros v M. cbn [evt_r member] in *.
    destruct v; try discriminate M. revert M. apply forallb_imp. intros e _. apply Mx.
  - (* TSet *) destruct (IH Hok) as [W Mx]. split; [exact W|]. intros v M. cbn [evt_r member] in *.
    destruct v; try discriminate M. revert M. apply forallb_imp. intros e _. apply Mx.
  - (* TIterator *) destruct (IH Hok) as [W _]. split; [exact W|]. intros v M. exact M.
  - (* TDict *) apply andb_prop in Hok. destruct Hok as [O1 O2].
    destruct (IHa O1) as [Wa Ma], (IHb O2) as [Wb Mb]. split; [split; assumption|].
    intros v M. cbn [evt_r member] in *. destruct v; try discriminate M; revert M; apply forallb_imp;
      intros kv _ H; apply andb_prop in H; destruct H; apply andb_true_intro; split; auto.
  - (* TDefaultDict *) apply andb_prop in Hok. destruct Hok as [O1 O2].
    destruct (IHa O1) as [Wa Ma], (IHb O2) as [Wb Mb]. split; [split; assumption|].
    intros v M. cbn [evt_r member] in *. destruct v; try discriminate M; revert M; apply forallb_imp;
      intros kv _ H; apply andb_prop in H; destruct H; apply andb_true_intro; split; auto.
  - (* TTuple *) pose proof (IH_Forall ok_r evt_r xs IH Hok) as F. cbn [evt_r]. split.
    + apply wf_TTuple. apply (members_map evt_r xs VCallable F).
    + intros v M. destruct v; try discriminate M. apply tuple_map; assumption.
  - (* TTupleVar *) destruct (IH Hok) as [W Mx]. split; [exact W|]. intros v M. cbn [evt_r member] in *.
    destruct v; try discriminate M. revert M. apply forallb_imp. intros e _. apply Mx.
  - (* TGenerator *) apply andb_prop in Hok. destruct Hok as [Hok O3]. apply andb_prop in Hok. destruct Hok as [O1 O2].
    destruct (IH1 O1) as [W1 _], (IH2 O2) as [W2 _], (IH3 O3) as [W3 _].
    split; [cbn [evt_r wf_ty]; tauto|]. intros v M. exact M.
  - (* TUnion *) apply andb_prop in Hok. destruct Hok as [_ Hok].
    pose proof (IH_Forall ok_r evt_r xs IH Hok) as F.
    assert (G : forall v, Forall wf_ty (map evt_r xs) /\
                          (mem v (TUnion xs) = true -> existsb (mem v) (map evt_r xs) = true)).
    { intros v. rewrite member_TUnion. apply members_map. exact F. }
    assert (D : wf_ty (union_mk (map evt_r xs)) /\
                forall v, mem v (TUnion xs) = true -> mem v (union_mk (map evt_r xs)) = true).
    { split; [apply union_mk_wf; apply (G VCallable)|].
      intros v M. destruct (G v) as [W E]. apply union_mk_complete; auto. }
    cbn [evt_r]. destruct xs as [|a [|b [|c r]]]; try exact D.
    inversion F as [|? ? [Wa Ma] F']; subst. inversion F' as [|? ? [Wb Mb] _]; subst.
    destruct (is_none_ty a) eqn:Na; [|destruct (is_none_ty b) eqn:Nb; [|exact D]].
    + apply is_none_ty_eq in Na. subst a.
      assert (W : Forall wf_ty [evt_r b; tnone]) by (repeat constructor; assumption).
      split; [apply union_mk_wf; exact W|]. intros v M. apply union_mk_complete; [exact W|].
      rewrite member_TUnion in M. cbn [existsb] in M |- *. rewrite orb_false_r in *.
      apply orb_prop in M. destruct M as [M|M]; [rewrite M; apply orb_true_r|rewrite (Mb _ M); reflexivity].
    + apply is_none_ty_eq in Nb. subst b.
      assert (W : Forall wf_ty [evt_r a; tnone]) by (repeat constructor; assumption).
      split; [apply union_mk_wf; exact W|]. intros v M. apply union_mk_complete; [exact W|].
      rewrite member_TUnion in M. cbn [existsb] in M |- *. rewrite orb_false_r in *.
      apply orb_prop in M. destruct M as [M|M]; [rewrite (Ma _ M); reflexivity|rewrite M; apply orb_true_r].
Qed.

(* structural route *)
Lemma evt_keeps t : ok t = true -> keeps evt t.
Proof.
  unfold keeps.
  induction t as [ | c | x IH | | x IH | x IH | x IH | a b IHa IHb | a b IHa IHb | xs IH | x IH
                 | a1 a2 a3 IH1 IH2 IH3 | xs IH | r o IHr IHo | s ] using ty_ind';
    intros Hok;
    try (apply (evt_r_keeps _ Hok));
    cbn [ok] in Hok; try discriminate Hok;
    try (split; [exact I|intros v M; exact M]).
  - (* TList *) destruct (IH Hok) as [W Mx]. split; [exact W|]. intros v M. cbn [evt member] in *.
    destruct v; try discriminate M. revert M. apply forallb_imp. intros e _. apply Mx.
  - (* TSet *) destruct (IH Hok) as [W Mx]. split; [exact W|]. intros v M. cbn [evt member] in *.
    destruct v; try discriminate M. revert M. apply forallb_imp. intros e _. apply Mx.
  - (* TDict *) apply andb_prop in Hok. destruct Hok as [O1 O2].
    destruct (IHa O1) as [Wa Ma], (IHb O2) as [Wb Mb]. split; [split; assumption|].
    intros v M. cbn [evt member] in *. destruct v; try discriminate M; revert M; apply forallb_imp;
      intros kv _ H; apply andb_prop in H; destruct H; apply andb_true_intro; split; auto.
  - (* TTuple *) pose proof (IH_Forall ok evt xs IH Hok) as F. cbn [evt]. split.
    + apply wf_TTuple. apply (members_map evt xs VCallable F).
    + intros v M. destruct v; try discriminate M. apply tuple_map; assumption.
  - (* TTupleVar *) destruct (IH Hok) as [W Mx]. split; [exact W|]. intros v M. cbn [evt member] in *.
    destruct v; try discriminate M. revert M. apply forallb_imp. intros e _. apply Mx.
  - (* TGenerator *) apply andb_prop in Hok. destruct Hok as [Hok O3]. apply andb_prop in Hok. destruct Hok as [O1 O2].
    destruct (IH1 O1) as [W1 _], (IH2 O2) as [W2 _], (IH3 O3) as [W3 _].
    split; [cbn [evt wf_ty]; tauto|]. intros v M. exact M.
  - (* TUnion *) apply andb_prop in Hok. destruct Hok as [_ Hok].
    pose proof (IH_Forall ok evt xs IH Hok) as F. cbn [evt].
    destruct (existsb is_none_ty xs) eqn:Hn.
    + rewrite filter_flag.
      assert (F' : Forall (fun x => wf_ty (evt x) /\ forall v, mem v x = true -> mem v (evt x) = true)
                          (filter not_none xs)).
      { rewrite Forall_forall in *. intros x Hx. apply filter_In in Hx. apply F. tauto. }
      set (inner := match map evt (filter not_none xs) with [x] => x | _ => union_mk (map evt (filter not_none xs)) end).
      assert (Winner : wf_ty inner).
      { apply (single_or_union _ VCallable). apply (members_map evt _ VCallable F'). }
      assert (W : Forall wf_ty [inner; tnone]) by (repeat constructor; assumption).
      split; [apply union_mk_wf; exact W|]. intros v M. apply union_mk_complete; [exact W|].
      rewrite member_TUnion in M. apply existsb_exists in M. destruct M as [x [Hx Mx]].
      cbn [existsb]. rewrite orb_false_r. destruct (is_none_ty x) eqn:Nx.
      * apply is_none_ty_eq in Nx. subst x. rewrite Mx. apply orb_true_r.
      * assert (Hin : In x (filter not_none xs)).
        { apply filter_In. split; [exact Hx|]. unfold not_none. rewrite Nx. reflexivity. }
        destruct (members_map evt _ v F') as [W' E'].
        destruct (single_or_union _ v W') as [_ S]. fold inner in S. rewrite S; [reflexivity|].
        apply E'. apply existsb_exists. exists x. split; assumption.
    + destruct (members_map evt xs VCallable F) as [W _].
      split; [apply union_mk_wf; exact W|]. intros v M. apply union_mk_complete; [exact W|].
      rewrite member_TUnion in M. apply (members_map evt xs v F). exact M.
Qed.

Lemma member_evt t v : ok t = true -> mem v t = true -> mem v (evt t) = true.
Proof. intros Hok. apply (evt_keeps t Hok). Qed.

End EvtMember.

(* ---------- pipeline + token-level rendering, annotations without TypedDict ----------
   A = the annotation type after the rewriter chain.  In every namespace binding None, Ellipsis, the typing
   names and the root-relative dotted path of A's classes, the token-level rendering of A evaluates to a type
   that admits every observed value.  `ok A` excludes exactly the annotations that still contain a TypedDict
   (with max_typed_dict_size = 0, MonkeyType's default, the merged type has none: Props/C06.v k0_no_typeddict;
   that the rewriters introduce none is not proved, hence the explicit premise) and unions made of None only. *)
Theorem pipeline_sound_rendered_partial h bt k rs (obs : list value) (stored : list ty) T v ct ns :
  wf_hier h = true -> bt_ok h bt = true -> chain_ok rs = true ->
  forallb wf_valueb obs = true ->
  (forall x, In x obs -> exists t t', get_type k x = Some t /\ In t' stored /\ corrb t t' = true) ->
  Forall wf_ty stored ->
  shrink_top k stored = Some T -> In v obs ->
  binds_base ns -> binds_cls_l ct ns (tcls (rw_chain h bt rs T)) -> ok (rw_chain h bt rs T) = true ->
  exists D, ev ct ns (rast ct (rw_chain h bt rs T)) = Some D /\ member true (subclass h) v D = true.
Proof.
  intros Hh Hb Hc WV Hst Wst HS Hv Bb Bc Hok.
  exists (evt (rw_chain h bt rs T)). split; [apply resolves; assumption|].
  apply member_evt; [exact Hok|]. eapply pipeline_sound; eauto.
Qed.

(* the same at text level, under C11's checked premise that the stripped text parses back to the
   token-level rendering *)
Theorem pipeline_sound_rendered_text_partial h bt k rs (obs : list value) (stored : list ty) T v ct ns mods :
  wf_hier h = true -> bt_ok h bt = true -> chain_ok rs = true ->
  forallb wf_valueb obs = true ->
  (forall x, In x obs -> exists t t', get_type k x = Some t /\ In t' stored /\ corrb t t' = true) ->
  Forall wf_ty stored ->
  shrink_top k stored = Some T -> In v obs ->
  binds_base ns -> binds_cls_l ct ns (tcls (rw_chain h bt rs T)) -> ok (rw_chain h bt rs T) = true ->
  parse_anno (strip_mods mods (ra ct (rw_chain h bt rs T))) = Some (rast ct (rw_chain h bt rs T)) ->
  exists D, eval_text ct ns (strip_mods mods (ra ct (rw_chain h bt rs T))) = Some D
            /\ member true (subclass h) v D = true.
Proof.
  intros Hh Hb Hc WV Hst Wst HS Hv Bb Bc Hok Hp.
  exists (evt (rw_chain h bt rs T)). split; [apply resolves_text; assumption|].
  apply member_evt; [exact Hok|]. eapply pipeline_sound; eauto.
Qed.

(* ---------- reduction of the rendering step to C11's denotation property ----------
   C11 checks, per annotation, that the text evaluates (in the stub's namespace, forward references resolved
   through the generated TypedDict classes) to a type D corresponding (corrb) to the traced one.  Wherever that
   holds — TypedDict-bearing annotations included — the evaluated annotation admits every observed value. *)
Definition anno_denotes (ct : ctable) (ns : namespace) (fuel : nat) (text : string) (A : ty) : Prop :=
  exists D, eval_anno ct ns fuel text = Some D /\ corrb A D = true.
Definition anno_admits (h : hierarchy) (ct : ctable) (ns : namespace) (fuel : nat) (text : string) (v : value) : Prop :=
  exists D, eval_anno ct ns fuel text = Some D /\ member true (subclass h) v D = true.

Theorem pipeline_sound_denoted h bt k rs (obs : list value) (stored : list ty) T v ct ns fuel text :
  wf_hier h = true -> bt_ok h bt = true -> chain_ok rs = true ->
  forallb wf_valueb obs = true ->
  (forall x, In x obs -> exists t t', get_type k x = Some t /\ In t' stored /\ corrb t t' = true) ->
  Forall wf_ty stored ->
  shrink_top k stored = Some T -> In v obs ->
  anno_denotes ct ns fuel text (rw_chain h bt rs T) -> anno_admits h ct ns fuel text v.
Proof.
  intros Hh Hb Hc WV Hst Wst HS Hv [D [E C]]. exists D. split; [exact E|].
  apply (member_corrb_wf true (subclass h) (rw_chain h bt rs T) D v).
  - eapply pipeline_wf; eauto.
  - exact C.
  - eapply pipeline_sound; eauto.
Qed.

Print Assumptions member_evt.
Print Assumptions pipeline_sound_rendered_partial.
Print Assumptions pipeline_sound_rendered_text_partial.
Print Assumptions pipeline_sound_denoted.
