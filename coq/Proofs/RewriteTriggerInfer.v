(* Proofs/RewriteTriggerInfer.v — every type that inference (get_type + shrink_types) produces is in
   typing's Union normal form (Model/RewriteTrigger.v: normal), so the hypothesis of the C07 trigger
   theorem (Proofs/RewriteTriggerFacts.v) holds of every inferred type.  union_mk is the only producer of
   TUnion and it normalises.  Also: every rewriter keeps the normal form (rw_normal), so the trigger theorem
   applies at every stage of a rewriter chain. *)
From MT Require Import Types Infer Rewrite RewriteTrigger Hier TypesFacts UnionFacts InferFacts InferSound
                       GetTypeSound TdBounded RewriteMono RewriteTriggerFacts.
From Coq Require Import Lia.
Open Scope list_scope.

(* ---------- union_mk normalises ---------- *)
Lemma flatten_normal ts : forallb normal ts = true ->
  forallb normal (flatten ts) = true /\ forallb (fun t => negb (is_tunion t)) (flatten ts) = true.
Proof.
  unfold flatten. induction ts as [|t r IH]; cbn [flat_map forallb]; intros H; [split; reflexivity|].
  apply andb_prop in H. destruct H as [H1 H2]. destruct (IH H2) as [I1 I2].
  rewrite !forallb_app, I1, I2, !andb_true_r.
  destruct t; cbn [forallb is_tunion negb]; rewrite ?andb_true_r; try (split; [exact H1|reflexivity]).
  cbn [normal] in H1. apply andb_prop in H1. destruct H1 as [NM NA]. split; [exact NA|].
  unfold normal_members in NM. apply andb_prop in NM. destruct NM as [NM _]. apply andb_prop in NM. tauto.
Qed.

Lemma flatten_nonempty t r : normal t = true -> flatten (t :: r) <> [].
Proof.
  unfold flatten. cbn [flat_map]. destruct t; try discriminate.
  cbn [normal]. unfold normal_members. intros H.
  destruct ts as [|a l]; [cbn in H; discriminate H|discriminate].
Qed.

Theorem union_mk_normal ts : forallb normal ts = true -> ts <> [] -> normal (union_mk ts) = true.
Proof.
  intros H NE. destruct ts as [|t0 r]; [exfalso; apply NE; reflexivity|].
  pose proof (flatten_nonempty t0 r) as FN. cbn [forallb] in H. pose proof H as H'.
  apply andb_prop in H'. destruct H' as [H0 _]. specialize (FN H0).
  change (normal t0 && forallb normal r) with (forallb normal (t0 :: r)) in H.
  destruct (flatten_normal _ H) as [F1 F2]. unfold union_mk.
  set (l := flatten (t0 :: r)) in *.
  assert (D1 : forallb normal (dedup [] l) = true).
  { rewrite forallb_forall in *. intros x Hx. apply F1. eapply dedup_incl. exact Hx. }
  assert (D2 : forallb (fun t => negb (is_tunion t)) (dedup [] l) = true).
  { rewrite forallb_forall in *. intros x Hx. apply F2. eapply dedup_incl. exact Hx. }
  pose proof (nodup_dedup l []) as D3.
  destruct l as [|x l']; [exfalso; apply FN; reflexivity|].
  destruct (dedup [] (x :: l')) as [|a [|b d]] eqn:E.
  - cbn [dedup existsb andb] in E. rewrite andb_false_r in E. discriminate E.
  - cbn [forallb] in D1. rewrite andb_true_r in D1. exact D1.
  - cbn [normal]. unfold normal_members. rewrite D1, D2, D3. reflexivity.
Qed.

(* ---------- RewriteAnonymousTypedDictToDict keeps the normal form ---------- *)
Lemma td2dict_normal t : normal t = true -> normal (td2dict t) = true.
Proof.
  induction t as [ | c | x IH | | x IH | x IH | x IH | a b IHa IHb | a b IHa IHb | xs IH | x IH
                 | a1 a2 a3 IH1 IH2 IH3 | xs IH | r o IHr IHo | s ] using ty_ind';
    cbn [normal td2dict]; intros H; auto.
  - apply andb_prop in H. destruct H. cbn [normal]. rewrite IHa, IHb; auto.
  - cbn [normal]. rewrite forallb_forall in *. rewrite Forall_forall in IH. intros y Hy.
    apply in_map_iff in Hy. destruct Hy as [x [<- Hx]]. auto.
  - apply andb_prop in H. destruct H as [H H3]. apply andb_prop in H. destruct H as [H1 H2].
    cbn [normal]. rewrite IH1, IH2, IH3; auto.
  - apply andb_prop in H. destruct H as [NM NA]. apply union_mk_normal.
    + rewrite forallb_forall in *. rewrite Forall_forall in IH. intros y Hy.
      apply in_map_iff in Hy. destruct Hy as [x [<- Hx]]. auto.
    + unfold normal_members in NM. destruct xs; [cbn in NM; discriminate NM|discriminate].
  - apply andb_prop in H. destruct H as [Hr Ho].
    assert (G : r ++ o <> [] ->
                normal (TDict (TCls cStr)
                 (union_mk (map (fun f => td2dict (snd f)) r ++ map (fun f => td2dict (snd f)) o))) = true).
    { intros NE. cbn [normal]. apply union_mk_normal.
      - rewrite forallb_app. rewrite forallb_forall in Hr, Ho. rewrite Forall_forall in IHr, IHo.
        apply andb_true_intro; split; apply forallb_forall; intros y Hy; apply in_map_iff in Hy;
          destruct Hy as [f [<- Hf]]; auto.
      - rewrite <- map_app. destruct (r ++ o); [exfalso; apply NE; reflexivity|discriminate]. }
    destruct r, o; [reflexivity|apply G; discriminate..].
Qed.

(* ---------- the rewriters keep the normal form (so the trigger theorem applies at every stage of a chain) ---------- *)
Section RwNormal.
Variable h : hierarchy.
Variable bt : bases_table.
Notation rw := (rw h bt).

Lemma to_tuple_scan_normal ts : forall vt r, to_tuple_scan vt ts = Some r ->
  forallb normal ts = true -> (forall v', vt = Some v' -> normal v' = true) -> forall v, r = Some v -> normal v = true.
Proof.
  induction ts as [|t ts IH]; intros vt r H N Nv v Hv; cbn [to_tuple_scan] in H.
  - injection H as <-. apply Nv. exact Hv.
  - cbn [forallb] in N. apply andb_prop in N. destruct N as [Nt Nts].
    destruct t; try discriminate H. destruct ts0 as [|a es].
    + apply (IH _ _ H Nts Nv v Hv).
    + destruct (forallb _ (a :: es)); [|discriminate H].
      apply (IH _ _ H Nts); [|exact Hv]. intros v' E. injection E as <-.
      destruct vt as [v'|]; [apply Nv; reflexivity|].
      cbn [normal forallb] in Nt. apply andb_prop in Nt. tauto.
Qed.

Lemma rlu_union_normal n ts : normal (TUnion ts) = true -> normal (rlu_union h n ts) = true.
Proof.
  intros N. unfold rlu_union. destruct (Nat.leb _ _); [exact N|].
  cbn [normal] in N. apply andb_prop in N. destruct N as [_ NA].
  destruct (rlu_to_tuple ts) as [t|] eqn:RT.
  - unfold rlu_to_tuple in RT. destruct (to_tuple_scan None ts) as [[v0|]|] eqn:S; try discriminate RT.
    injection RT as <-. cbn [normal].
    apply (to_tuple_scan_normal _ _ _ S NA); [discriminate|reflexivity].
  - repeat (match goal with |- context [match ?x with _ => _ end] => destruct x end); reflexivity.
Qed.

Lemma rcd_union_normal ts : normal (TUnion ts) = true -> normal (rcd_union ts) = true.
Proof.
  intros N. unfold rcd_union. destruct ts as [|t0 rest]; [exact N|].
  destruct (forallb is_tdict (t0 :: rest) && _); [|exact N].
  cbn [normal] in N. apply andb_prop in N. destruct N as [_ NA].
  assert (K : forall t, normal t = true -> normal (dict_key t) = true /\ normal (dict_val t) = true).
  { intros t Nt. destruct t; cbn [dict_key dict_val normal]; try (split; reflexivity).
    cbn [normal] in Nt. apply andb_prop in Nt. exact Nt. }
  cbn [normal]. apply andb_true_intro. split.
  - apply K. cbn [forallb] in NA. apply andb_prop in NA. tauto.
  - apply union_mk_normal; [|discriminate]. rewrite forallb_forall in *. intros y Hy.
    apply in_map_iff in Hy. destruct Hy as [e [<- He]]. apply K. apply NA. exact He.
Qed.

Lemma msb_union_normal ts : normal (TUnion ts) = true -> normal (msb_union bt ts) = true.
Proof.
  intros N. unfold msb_union.
  repeat (match goal with |- context [match ?x with _ => _ end] => destruct x end); exact N || reflexivity.
Qed.

Lemma map_normal (f : ty -> ty) ts :
  Forall (fun t => normal t = true -> normal (f t) = true) ts -> forallb normal ts = true ->
  forallb normal (map f ts) = true.
Proof.
  intros IH N. rewrite Forall_forall in IH. rewrite forallb_forall in *. intros y Hy.
  apply in_map_iff in Hy. destruct Hy as [x [<- Hx]]. apply IH; [exact Hx|apply N; exact Hx].
Qed.

Lemma fields_normal (f : ty -> ty) (fs : list (string * ty)) :
  Forall (fun fd => normal (snd fd) = true -> normal (f (snd fd)) = true) fs ->
  forallb (fun fd => normal (snd fd)) fs = true ->
  forallb (fun fd => normal (snd fd)) (map (fun fd => (fst fd, f (snd fd))) fs) = true.
Proof.
  intros IH N. rewrite Forall_forall in IH. rewrite forallb_forall in *. intros y Hy.
  apply in_map_iff in Hy. destruct Hy as [x [<- Hx]]. cbn [snd]. apply IH; [exact Hx|apply N; exact Hx].
Qed.

Theorem rw_normal r t : normal t = true -> normal (rw r t) = true.
Proof.
  induction t as [ | c | x IH | | x IH | x IH | x IH | k v0 IHk IHv | k v0 IHk IHv | xs IH | x IH
                 | a1 a2 a3 IH1 IH2 IH3 | xs IH | rq op IHr IHo | s ] using ty_ind'; intros N;
    try (destruct r; exact N).
  - destruct r; cbn [Rewrite.rw normal] in *; auto.
  - destruct r; cbn [Rewrite.rw normal] in *; auto.
  - destruct r; cbn [Rewrite.rw normal] in *; try exact N; apply andb_prop in N; destruct N;
      rewrite IHk, IHv; auto.
  - destruct r; try exact N; cbn [Rewrite.rw normal] in *; apply map_normal; assumption.
  - destruct r; cbn [Rewrite.rw normal] in *; auto.
  - destruct r; try exact N.
    4: { cbn [Rewrite.rw].
         repeat (match goal with |- context [match ?x with _ => _ end] => destruct x end); try exact N.
         cbn [normal] in *. apply andb_prop in N. destruct N as [N _]. apply andb_prop in N. tauto. }
    all: cbn [Rewrite.rw normal] in *; apply andb_prop in N; destruct N as [N N3]; apply andb_prop in N;
      destruct N as [N1 N2]; rewrite IH1, IH2, IH3; auto.
  - pose proof N as N'. cbn [normal] in N'. apply andb_prop in N'. destruct N' as [NM NA].
    assert (NE : xs <> []) by (unfold normal_members in NM; destruct xs; [cbn in NM; discriminate NM|discriminate]).
    destruct r; try exact N.
    + rewrite RewriteMono.rw_rme_union. destruct (filter (RewriteMono.keep xs) xs) eqn:K; [exact N|]. rewrite <- K.
      apply union_mk_normal; [|rewrite K; discriminate].
      rewrite Forall_forall in IH. rewrite forallb_forall in *. intros y Hy.
      apply in_map_iff in Hy. destruct Hy as [e [<- He]]. apply filter_In in He. destruct He as [He _]. apply IH; auto.
    + cbn [Rewrite.rw]. apply rcd_union_normal. exact N.
    + cbn [Rewrite.rw]. apply rlu_union_normal. exact N.
    + cbn [Rewrite.rw]. apply union_mk_normal; [apply map_normal; assumption|]. destruct xs; [exfalso; apply NE; reflexivity|discriminate].
    + cbn [Rewrite.rw]. apply msb_union_normal. exact N.
  - destruct r; try exact N; cbn [Rewrite.rw normal] in *; apply andb_prop in N; destruct N as [Nr No];
      apply andb_true_intro; split; apply fields_normal; assumption.
Qed.

Theorem rw_chain_normal rs : forall t, normal t = true -> normal (rw_chain h bt rs t) = true.
Proof.
  unfold rw_chain. induction rs as [|r rs IH]; intros t N; cbn [fold_left]; [exact N|].
  apply IH. apply rw_normal. exact N.
Qed.

End RwNormal.

(* ---------- shrink_types ---------- *)
Section NormalInfer.
Variable k : nat.

Lemma normal_fields x f : normal x = true -> In f (td_req x) \/ In f (td_opt x) -> normal (snd f) = true.
Proof.
  destruct x; cbn [td_req td_opt]; intros H [Hf|Hf]; try destruct Hf;
    cbn [normal] in H; apply andb_prop in H; destruct H as [Hr Ho].
  - rewrite forallb_forall in Hr. apply Hr. exact Hf.
  - rewrite forallb_forall in Ho. apply Ho. exact Hf.
Qed.

Lemma entries_normal ts (W : Forall wf_ty ts) e :
  forallb normal ts = true -> In e (required_of ts) \/ In e (optional_of ts) -> forallb normal (snd e) = true.
Proof.
  intros B He. apply forallb_forall. intros ft Hft.
  destruct (merge_origin ts W e ft He Hft) as [x [f [Hx [Hf <-]]]].
  rewrite forallb_forall in B. apply (normal_fields x f (B x Hx) Hf).
Qed.

Lemma shrink_normal fuel : forall ts t,
  Forall wf_ty ts -> forallb normal ts = true -> shrink k fuel ts = Some t -> normal t = true.
Proof.
  induction fuel as [|fuel IH]; intros ts t W B S; [cbn in S; discriminate S|].
  cbn [shrink] in S. destruct ts as [|t0 rest]; [injection S as <-; reflexivity|].
  destruct (forallb is_td (t0 :: rest)) eqn:ATD.
  - set (ts := t0 :: rest) in *.
    rewrite (merge_maps_pair ts) in S. cbn iota beta in S.
    set (required := required_of ts) in *. set (optional := optional_of ts) in *.
    destruct (Nat.ltb k (List.length required + List.length optional)) eqn:LT.
    + destruct (shrink k fuel (flat_map snd required ++ flat_map snd optional)) as [T|] eqn:ST;
        [|cbn [option_map] in S; discriminate S]. cbn [option_map] in S.
      injection S as <-. cbn [normal]. apply (IH _ _ (all_entries_wf ts W)) in ST; [exact ST|].
      rewrite forallb_app. apply andb_true_intro; split; apply forallb_forall; intros y Hy;
        apply in_flat_map in Hy; destruct Hy as [e [He Hy]].
      * pose proof (entries_normal ts W e B (or_introl He)) as X. rewrite forallb_forall in X. auto.
      * pose proof (entries_normal ts W e B (or_intror He)) as X. rewrite forallb_forall in X. auto.
    + destruct (negb (keys_disjoint required optional)) eqn:DJ; [discriminate S|].
      destruct (mapM (fun e => option_map (pair (fst e)) (shrink k fuel (snd e))) required) as [R|] eqn:MR; [|discriminate S].
      destruct (mapM (fun e => option_map (pair (fst e)) (shrink k fuel (snd e))) optional) as [O|] eqn:MO; [|discriminate S].
      injection S as <-. cbn [normal]. apply andb_true_intro. split.
      * apply forallb_forall. intros y Hy. destruct (mapM_pair_bwd _ _ _ _ MR Hy) as [e [He [_ ST]]].
        apply (IH _ _ (entries_wf' ts W e (or_introl He)) (entries_normal ts W e B (or_introl He)) ST).
      * apply forallb_forall. intros y Hy. destruct (mapM_pair_bwd _ _ _ _ MO Hy) as [e [He [_ ST]]].
        apply (IH _ _ (entries_wf' ts W e (or_intror He)) (entries_normal ts W e B (or_intror He)) ST).
  - destruct (forallb (fun t => py_eqb t t0) rest).
    + injection S as <-. cbn [forallb] in B. apply andb_prop in B. tauto.
    + destruct (forallb is_tlist (t0 :: rest)) eqn:AL.
      * destruct (shrink k fuel (filter (fun a => negb (is_tany a)) (map list_arg (t0 :: rest)))) as [T|] eqn:ST;
          [|cbn [option_map] in S; discriminate S]. cbn [option_map] in S.
        injection S as <-. cbn [normal]. apply (fun X Y => IH _ _ X Y ST).
        -- rewrite forallb_forall in AL. rewrite Forall_forall in *. intros y Hy.
           apply filter_In in Hy. destruct Hy as [Hy _].
           apply in_map_iff in Hy. destruct Hy as [z [<- Hz]].
           pose proof (W z Hz) as Wz. pose proof (AL z Hz) as Lz. destruct z; try discriminate Lz. exact Wz.
        -- rewrite forallb_forall in *. intros y Hy. apply filter_In in Hy. destruct Hy as [Hy _].
           apply in_map_iff in Hy. destruct Hy as [z [<- Hz]].
           pose proof (B z Hz) as Bz. pose proof (AL z Hz) as Lz. destruct z; try discriminate Lz. exact Bz.
      * injection S as <-. change (td2dict t0 :: map td2dict rest) with (map td2dict (t0 :: rest)).
        apply union_mk_normal; [|discriminate]. rewrite forallb_forall in *. intros y Hy.
        apply in_map_iff in Hy. destruct Hy as [z [<- Hz]]. apply td2dict_normal. apply B. exact Hz.
Qed.

Lemma shrink_top_normal ts T :
  Forall wf_ty ts -> forallb normal ts = true -> shrink_top k ts = Some T -> normal T = true.
Proof. unfold shrink_top. apply shrink_normal. Qed.

(* ---------- get_type ---------- *)
Let subN := fun c a : cls => N.eqb c a.

Definition gt_normal (v : value) : Prop :=
  wf_valueb v = true -> forall t, get_type k v = Some t -> normal t = true.

Lemma mapM_gt_normal {A} (proj : A -> value) (l : list A) ts :
  Forall (fun a => gt_normal (proj a)) l ->
  forallb (fun a => wf_valueb (proj a)) l = true ->
  mapM (fun a => get_type k (proj a)) l = Some ts ->
  forallb normal ts = true /\ Forall wf_ty ts.
Proof.
  intros HF HW HM.
  assert (Wts : Forall wf_ty ts).
  { assert (HG : Forall (fun a => gt_ok subN k (proj a)) l)
      by (rewrite Forall_forall; intros x _; apply get_type_ok; intros c; apply N.eqb_refl).
    destruct (mapM_gt_ok subN k proj l ts HG HW HM) as [X _]. exact X. }
  split; [|exact Wts]. apply mapM_Forall2 in HM. clear Wts.
  induction HM as [|a t l ts Ht _ IH]; [reflexivity|].
  inversion HF as [|? ? Ha HF']; subst. cbn [forallb] in HW |- *. apply andb_prop in HW. destruct HW as [W1 W2].
  rewrite (Ha W1 t Ht), (IH HF' W2). reflexivity.
Qed.

Lemma seq_case_normal es T0 (con : ty -> ty) :
  (forall T, normal (con T) = normal T) ->
  Forall gt_normal es -> forallb wf_valueb es = true ->
  opt_bind (mapM (get_type k) es) (fun ts => option_map con (shrink_top k ts)) = Some T0 -> normal T0 = true.
Proof.
  intros Hc HF HW H. apply opt_bind_Some in H. destruct H as [ts [HM H]].
  apply option_map_Some in H. destruct H as [T [HS ->]].
  destruct (mapM_gt_normal (fun e => e) es ts HF HW HM) as [B Wts].
  rewrite Hc. eapply shrink_top_normal; eauto.
Qed.

Lemma dict_case_normal kvs T0 (con : ty -> ty -> ty) :
  (forall a b, normal (con a b) = normal a && normal b) ->
  Forall (fun kv => gt_normal (fst kv) /\ gt_normal (snd kv)) kvs ->
  forallb (fun kv => wf_valueb (fst kv) && wf_valueb (snd kv)) kvs = true ->
  opt_bind (mapM (fun kv => get_type k (fst kv)) kvs) (fun ks =>
  opt_bind (mapM (fun kv => get_type k (snd kv)) kvs) (fun vs =>
  opt_bind (shrink_top k ks) (fun kt => option_map (con kt) (shrink_top k vs)))) = Some T0 ->
  normal T0 = true.
Proof.
  intros Hc HF HW H.
  apply opt_bind_Some in H. destruct H as [ks [HK H]].
  apply opt_bind_Some in H. destruct H as [vs [HV H]].
  apply opt_bind_Some in H. destruct H as [kt [HSK H]].
  apply option_map_Some in H. destruct H as [vt [HSV ->]].
  assert (HF1 : Forall (fun kv => gt_normal (fst kv)) kvs) by (rewrite Forall_forall in *; intros x Hx; apply HF; exact Hx).
  assert (HF2 : Forall (fun kv => gt_normal (snd kv)) kvs) by (rewrite Forall_forall in *; intros x Hx; apply HF; exact Hx).
  assert (HW1 : forallb (fun kv => wf_valueb (fst kv)) kvs = true).
  { rewrite forallb_forall in *. intros x Hx. specialize (HW x Hx). apply andb_prop in HW. tauto. }
  assert (HW2 : forallb (fun kv => wf_valueb (snd kv)) kvs = true).
  { rewrite forallb_forall in *. intros x Hx. specialize (HW x Hx). apply andb_prop in HW. tauto. }
  destruct (mapM_gt_normal fst kvs ks HF1 HW1 HK) as [Bk Wk].
  destruct (mapM_gt_normal snd kvs vs HF2 HW2 HV) as [Bv Wv].
  rewrite Hc, (shrink_top_normal ks kt Wk Bk HSK), (shrink_top_normal vs vt Wv Bv HSV). reflexivity.
Qed.

Lemma get_type_normal v : gt_normal v.
Proof.
  induction v as [c p|s|c| | |es IH|es IH|es IH|kvs IH|kvs IH] using value_ind'; intros WV t G;
    cbn [get_type] in G; try (injection G as <-; reflexivity).
  - cbn [wf_valueb] in WV. apply (seq_case_normal es t TList); auto.
  - cbn [wf_valueb] in WV. apply (seq_case_normal es t TSet); auto.
  - cbn [wf_valueb] in WV. apply option_map_Some in G. destruct G as [ts [HM ->]].
    destruct (mapM_gt_normal (fun e => e) es ts IH WV HM) as [B _]. exact B.
  - cbn [wf_valueb] in WV. apply andb_prop in WV. destruct WV as [ND WV].
    destruct kvs as [|kv0 kvs0]; [injection G as <-; reflexivity|].
    set (kvs := kv0 :: kvs0) in *.
    destruct (forallb is_strkey kvs && Nat.leb (List.length kvs) k) eqn:C.
    + apply option_map_Some in G. destruct G as [r [HM ->]].
      pose proof (mapM_Forall2 _ _ _ HM) as F2.
      cbn [normal forallb]. rewrite andb_true_r.
      clear -F2 IH WV. revert IH WV. induction F2 as [|kv y l r Hy _ IH']; intros IH WV; [reflexivity|].
      inversion IH as [|? ? [_ Hv] IHl]; subst. cbn [forallb] in WV |- *. apply andb_prop in WV. destruct WV as [W1 W2].
      apply andb_prop in W1. destruct W1 as [_ W1].
      destruct (get_type k (snd kv)) as [tv|] eqn:E; [|discriminate Hy]. injection Hy as <-. cbn [snd].
      rewrite (Hv W1 tv E), (IH' IHl W2). reflexivity.
    + apply (dict_case_normal kvs t TDict); auto.
  - cbn [wf_valueb] in WV. apply (dict_case_normal kvs t TDefaultDict); auto.
Qed.

(* every inferred type is normal (for well-formed values: dict string keys pairwise distinct) *)
Theorem infer_normal vs t : forallb wf_valueb vs = true -> infer k vs = Some t -> normal t = true.
Proof.
  unfold infer. intros WV H. apply opt_bind_Some in H. destruct H as [ts [HM HS]].
  assert (HF : Forall gt_normal vs) by (rewrite Forall_forall; intros x _; apply get_type_normal).
  destruct (mapM_gt_normal (fun e => e) vs ts HF WV HM) as [B W]. eapply shrink_top_normal; eauto.
Qed.

(* merging already-normal, well-formed types (e.g. decoded from the store) stays normal *)
Theorem merge_normal ts t :
  Forall wf_ty ts -> forallb normal ts = true -> shrink_top k ts = Some t -> normal t = true.
Proof. apply shrink_top_normal. Qed.

End NormalInfer.

Print Assumptions union_mk_normal.
Print Assumptions rw_normal.
Print Assumptions rw_chain_normal.
Print Assumptions infer_normal.
Print Assumptions merge_normal.

(* non-vacuity: a list of an int, a str and an empty list infers to a normal, non-trivial Union *)
Example ex_infer_normal :
  let vs := [VList [VAtom 2%N 0%N; VStr "a"; VList []]; VList []] in
  forallb wf_valueb vs = true
  /\ infer 3 vs = Some (TList (TUnion [TCls 2%N; TCls 3%N; TList TAny]))
  /\ normal (TList (TUnion [TCls 2%N; TCls 3%N; TList TAny])) = true.
Proof. vm_compute. repeat split. Qed.

(* non-vacuity of rw_chain_normal: the default chain on a normal type that it really changes *)
Example ex_rw_chain_normal :
  let t := TUnion [TList TAny; TList (TUnion [TCls 19%N; TCls 17%N; TCls 20%N])] in
  let rs := [RRemoveEmpty; RConfigDict; RLargeUnion 2; RGenerator] in
  normal t = true /\ rw_chain ex_h ex_bt rs t = TList (TCls 16%N) /\ normal (rw_chain ex_h ex_bt rs t) = true.
Proof. vm_compute. repeat split. Qed.
